    // ---- C20, written from the property statement -------------------------------------------------------------------------
    pub open spec fn counter_text(c: GameServerCounter) -> Seq<char> { dec((match c.count { Some(n) => n, None => 0u32 }) as nat) }
    pub open spec fn list_text(l: GameServerList) -> Seq<char> { joined(views(l.values@), ","@) }
    pub open spec fn kv_counters(s: Seq<(&String, &GameServerCounter)>) -> Seq<(Seq<char>, Seq<char>)> { Seq::new(s.len(), |i: int| (s[i].0@, counter_text(*s[i].1))) }
    pub open spec fn kv_lists(s: Seq<(&String, &GameServerList)>) -> Seq<(Seq<char>, Seq<char>)> { Seq::new(s.len(), |i: int| (s[i].0@, list_text(*s[i].1))) }
    pub open spec fn counters_meta(o: Option<StrMap<GameServerCounter>>) -> Map<Seq<char>, Seq<char>> {
        match o { Some(m) => m.m@.map_values(|c: GameServerCounter| counter_text(c)), None => Map::empty() }
    }
    pub open spec fn lists_meta(o: Option<StrMap<GameServerList>>) -> Map<Seq<char>, Seq<char>> {
        match o { Some(m) => m.m@.map_values(|l: GameServerList| list_text(l)), None => Map::empty() }
    }
    /// the metadata of an offered target: counters, lists, labels, annotations (a later group wins on equal names) and, above all of
    /// them, the observed state
    pub open spec fn target_meta(server: GameServer) -> Map<Seq<char>, Seq<char>> {
        let st = server.status->0;
        counters_meta(st.counters).union_prefer_right(lists_meta(st.lists)).union_prefer_right(opt_map(server.metadata.labels))
            .union_prefer_right(opt_map(server.metadata.annotations)).insert(META_STATE@, st.state@)
    }
    /// a GameServer can be offered only if it has a name, a status, an address that parses and at least one port
    pub open spec fn convertible(server: GameServer) -> bool {
        server.metadata.name is Some && server.status is Some && parse_ip(server.status->0.address@) is Some && server.status->0.ports@.len() > 0
    }
    /// "each with its current address, first port and metadata"
    pub open spec fn is_target_of(t: Target, server: GameServer) -> bool {
        t.identifier@ == server.metadata.name->0@
        && t.address == (SocketAddr { ipaddr: parse_ip(server.status->0.address@)->0, portno: server.status->0.ports@[0].port })
        && t.meta.m@ == target_meta(server)
    }
    pub open spec fn ready_state(s: Seq<char>) -> bool { s == "Ready"@ || s == "Allocated"@ }
    /// a GameServer is offered iff it is convertible and its observed state is Ready or Allocated
    pub open spec fn offered(server: GameServer) -> bool { convertible(server) && ready_state(server.status->0.state@) }
    pub open spec fn has_id(cache: Seq<Target>, id: Seq<char>) -> bool { exists|i: int| 0 <= i < cache.len() && (#[trigger] cache[i]).identifier@ == id }
    pub open spec fn ids_unique(cache: Seq<Target>) -> bool { forall|i: int, j: int| 0 <= i < j < cache.len() ==> cache[i].identifier@ != cache[j].identifier@ }
    pub open spec fn member(cache: Seq<Target>, t: Target) -> bool { exists|i: int| 0 <= i < cache.len() && #[trigger] cache[i] == t }

    pub proof fn lemma_union_insert(a: Map<Seq<char>, Seq<char>>, b: Map<Seq<char>, Seq<char>>, k: Seq<char>, v: Seq<char>)
        ensures a.union_prefer_right(b.insert(k, v)) == a.union_prefer_right(b).insert(k, v),
    {
        assert(a.union_prefer_right(b.insert(k, v)) =~= a.union_prefer_right(b).insert(k, v));
    }
    pub proof fn lemma_fold_step(kv: Seq<(Seq<char>, Seq<char>)>, n: int)
        requires 0 <= n < kv.len(),
        ensures pairs_fold(kv.subrange(0, n + 1)) == pairs_fold(kv.subrange(0, n)).insert(kv[n].0, kv[n].1),
    {
        assert(kv.subrange(0, n + 1).drop_last() =~= kv.subrange(0, n));
    }
    pub proof fn lemma_counters_fold(s: Seq<(&String, &GameServerCounter)>)
        ensures pairs_fold(kv_counters(s)) == refs_map(s).map_values(|c: GameServerCounter| counter_text(c)),
        decreases s.len()
    {
        let f = |c: GameServerCounter| counter_text(c);
        if s.len() == 0 {
            assert(pairs_fold(kv_counters(s)) =~= refs_map(s).map_values(f));
        } else {
            lemma_counters_fold(s.drop_last());
            assert(kv_counters(s).drop_last() =~= kv_counters(s.drop_last()));
            assert(pairs_fold(kv_counters(s)) =~= refs_map(s).map_values(f));
        }
    }
    pub proof fn lemma_lists_fold(s: Seq<(&String, &GameServerList)>)
        ensures pairs_fold(kv_lists(s)) == refs_map(s).map_values(|l: GameServerList| list_text(l)),
        decreases s.len()
    {
        let f = |l: GameServerList| list_text(l);
        if s.len() == 0 {
            assert(pairs_fold(kv_lists(s)) =~= refs_map(s).map_values(f));
        } else {
            lemma_lists_fold(s.drop_last());
            assert(kv_lists(s).drop_last() =~= kv_lists(s.drop_last()));
            assert(pairs_fold(kv_lists(s)) =~= refs_map(s).map_values(f));
        }
    }

    // ---- cache steps ---------------------------------------------------------------------------------------------------------
    pub proof fn lemma_swap_remove(o: Seq<Target>, n: Seq<Target>, i: int, id: Seq<char>)
        requires ids_unique(o), 0 <= i < o.len(), o[i].identifier@ == id, n.len() == o.len() - 1,
            i < n.len() ==> n[i] == o[o.len() - 1], forall|j: int| 0 <= j < n.len() && j != i ==> n[j] == o[j],
        ensures ids_unique(n), forall|t: Target| member(n, t) <==> (member(o, t) && t.identifier@ != id), !has_id(n, id),
    {
        assert forall|t: Target| member(n, t) <==> (member(o, t) && t.identifier@ != id) by {
            if member(n, t) {
                let j = choose|j: int| 0 <= j < n.len() && #[trigger] n[j] == t;
                if j == i { assert(o[o.len() - 1] == t); } else { assert(o[j] == t); }
            }
            if member(o, t) && t.identifier@ != id {
                let j = choose|j: int| 0 <= j < o.len() && #[trigger] o[j] == t;
                if j == o.len() - 1 { assert(n[i] == t); } else { assert(n[j] == t); }
            }
        }
        assert forall|a: int, b: int| 0 <= a < b < n.len() implies n[a].identifier@ != n[b].identifier@ by {
            let oa = if a == i { o.len() - 1 } else { a };
            let ob = if b == i { o.len() - 1 } else { b };
            assert(n[a] == o[oa] && n[b] == o[ob]);
        }
        assert(!has_id(n, id)) by {
            if has_id(n, id) {
                let j = choose|j: int| 0 <= j < n.len() && (#[trigger] n[j]).identifier@ == id;
                let oj = if j == i { o.len() - 1 } else { j };
                assert(n[j] == o[oj]);
            }
        }
    }
    pub proof fn lemma_update(o: Seq<Target>, i: int, t: Target)
        requires ids_unique(o), 0 <= i < o.len(), o[i].identifier@ == t.identifier@,
        ensures ids_unique(o.update(i, t)), member(o.update(i, t), t),
            forall|x: Target| member(o.update(i, t), x) <==> ((member(o, x) && x.identifier@ != t.identifier@) || x == t),
    {
        let n = o.update(i, t);
        assert(n[i] == t);
        assert forall|x: Target| member(n, x) <==> ((member(o, x) && x.identifier@ != t.identifier@) || x == t) by {
            if member(n, x) { let j = choose|j: int| 0 <= j < n.len() && #[trigger] n[j] == x; if j != i { assert(o[j] == x); } }
            if member(o, x) && x.identifier@ != t.identifier@ { let j = choose|j: int| 0 <= j < o.len() && #[trigger] o[j] == x; assert(n[j] == x); }
        }
    }
    pub proof fn lemma_push(o: Seq<Target>, t: Target)
        requires ids_unique(o), forall|j: int| 0 <= j < o.len() ==> (#[trigger] o[j]).identifier@ != t.identifier@,
        ensures ids_unique(o.push(t)), member(o.push(t), t), forall|x: Target| member(o.push(t), x) <==> (member(o, x) || x == t),
    {
        let n = o.push(t);
        assert(n[n.len() - 1] == t);
        assert forall|x: Target| member(n, x) <==> (member(o, x) || x == t) by {
            if member(n, x) { let j = choose|j: int| 0 <= j < n.len() && #[trigger] n[j] == x; if j < o.len() { assert(o[j] == x); } }
            if member(o, x) { let j = choose|j: int| 0 <= j < o.len() && #[trigger] o[j] == x; assert(n[j] == x); }
        }
    }
    pub proof fn lemma_no_id(o: Seq<Target>, id: Seq<char>)
        requires forall|j: int| 0 <= j < o.len() ==> (#[trigger] o[j]).identifier@ != id,
        ensures !has_id(o, id), forall|t: Target| member(o, t) <==> (member(o, t) && t.identifier@ != id),
    {
        assert forall|t: Target| member(o, t) implies t.identifier@ != id by { let j = choose|j: int| 0 <= j < o.len() && #[trigger] o[j] == t; }
    }
