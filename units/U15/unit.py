"""U15 — Agones discovery (C20): `TryFrom<GameServer> for Target` and the per-event cache update (`apply_server`, `remove_target`),
extracted from /repo on each run. The watcher event loop itself (tokio::spawn, select!, RwLock) is outside the verifier's reach and is
covered only by the bounded history sweep `agones` of the replay crate."""
import os
import sys

HERE = os.path.dirname(os.path.abspath(__file__))
sys.path.insert(0, os.path.join(HERE, "..", "..", "lib"))
import vxlib  # noqa: E402

NAME = "U15"
G = "passage-adapters/agones/src/"
RULES = ["deasync", "attrs", "log", "let_chain", "closure_wild", "iter_search", "for_iter", "parse_typed_let", "parse_turbofish", "join_fn", "opt_match", "opt_map",
         "res_map_err", "error_cause", "into_from", "into_method", "map_field", "try_desugar", "generics"]
ST = ["attrs", "generics", "pub_fields"]
SUB = {"HashMap<String,String>": "MetaMap", "HashMap<String,GameServerCounter>": "StrMap<GameServerCounter>", "HashMap<String,GameServerList>": "StrMap<GameServerList>",
       "HashMap<String,serde_json::Value>": "JsonMap", "Box<AddrParseError>": "Cause"}


def build(vacuity=False):
    vxlib.reset_vac()
    C = vxlib.load_contracts(os.path.join(HERE, "contracts.toml"))
    fnc = {k: vxlib.FnContract(k, v) for k, v in C.get("fn", {}).items()}
    items = [
        {"key": "adapters.Target", "file": "passage-adapters/src/lib.rs", "kind": "struct", "name": "Target", "rules": ST, "subst": SUB},
        {"key": "ag.META_STATE", "file": G + "lib.rs", "kind": "const", "name": "META_STATE", "rules": ["attrs", "const_static"]},
        {"key": "ag.GameServerError", "file": G + "error.rs", "kind": "enum", "name": "GameServerError", "rules": ST, "subst": SUB},
    ]
    for n in ["GameServerStatus", "GameServerPort", "GameServerCounter", "GameServerList"]:
        items.append({"key": "ag." + n, "file": G + "lib.rs", "kind": "struct", "name": n, "rules": ST, "subst": SUB})
    items += [
        {"key": "ag.try_from", "file": G + "lib.rs", "kind": "impl_fn", "self_ty": "Target", "trait": "TryFrom<GameServer>", "name": "try_from", "rules": RULES,
         "anchors": vxlib.anchors_for(fnc["ag.try_from"], vacuity)},
        {"key": "ag.apply_server", "file": G + "discovery_adapter.rs", "kind": "fn", "name": "apply_server", "rules": RULES, "anchors": vxlib.anchors_for(fnc["ag.apply_server"], vacuity)},
        {"key": "ag.remove_target", "file": G + "discovery_adapter.rs", "kind": "fn", "name": "remove_target", "rules": RULES, "anchors": vxlib.anchors_for(fnc["ag.remove_target"], vacuity)},
    ]
    ex = vxlib.run_vx(items)
    u = vxlib.Unit(NAME)
    u.default_props = ["C20"]
    with open(os.path.join(HERE, "prelude.rs")) as f:
        u.raw(vxlib.with_includes(f.read()))
    if vacuity:
        u.raw(vxlib.VAC_PRELUDE)
    u.raw("verus! {\npub use agones::{Target, GameServerStatus};\npub mod agones {\n    use super::*;\n    broadcast use {group_string_eq, axiom_display_u32, axiom_vec_len_bound};\n    pub struct JsonMap {}\n")
    u.modules.append("agones")
    for k in ["adapters.Target", "ag.META_STATE", "ag.GameServerError", "ag.GameServerStatus", "ag.GameServerPort", "ag.GameServerCounter", "ag.GameServerList"]:
        u.add_item_text(ex[k])
    # derives dropped by R2 that the code relies on: field-wise clones
    u.raw("    impl Clone for GameServerStatus {\n        #[verifier::external_body]\n        fn clone(&self) -> (r: Self) ensures r == *self { unimplemented!() }\n    }\n")
    with open(os.path.join(HERE, "spec.rs")) as f:
        u.raw(f.read())
    u.raw("    impl vstd::std_specs::convert::TryFromSpecImpl<GameServer> for Target { open spec fn obeys_try_from_spec() -> bool { false } open spec fn try_from_spec(v: GameServer) -> Result<Target, GameServerError> { arbitrary() } }\n")
    u.raw("    impl TryFrom<GameServer> for Target {\n        type Error = GameServerError;\n")
    u.add_fn(ex["ag.try_from"], fnc["ag.try_from"], vacuity=vacuity, indent="        ")
    u.raw("    }\n")
    u.add_fn(ex["ag.apply_server"], fnc["ag.apply_server"], vacuity=vacuity, indent="    ")
    u.add_fn(ex["ag.remove_target"], fnc["ag.remove_target"], vacuity=vacuity, indent="    ")
    u.raw("}\n} // verus!\nfn main() {}\n")
    return u
