// U15 prelude: what the Agones discovery adapter (passage-adapters/agones/src) uses from outside /repo, as contracts.
// The kube-derive generated `GameServer` type and `ObjectMeta` are mirrored by hand (only the fields the code reads).
use vstd::prelude::*;
use vstd::std_specs::cmp::*;

verus! {

//@include netmodel.rs
//@include itermodel.rs
//@include strmodel.rs

pub uninterp spec fn parse_ip(s: Seq<char>) -> Option<IpAddr>;
pub struct AddrParseError {}
/// decimal `Display` of an integer; `[String]::join(sep)`: uninterpreted functions of the content
pub uninterp spec fn dec(n: nat) -> Seq<char>;
pub uninterp spec fn joined(parts: Seq<Seq<char>>, sep: Seq<char>) -> Seq<char>;
pub open spec fn views(v: Seq<String>) -> Seq<Seq<char>> { Seq::new(v.len(), |i: int| v[i]@) }
#[verifier::external_body]
pub fn vx_join(v: &Vec<String>, sep: &str) -> (r: String) ensures r@ == joined(views(v@), sep@) { unimplemented!() }
pub trait VxParse { fn vx_parse_IpAddr(&self) -> Result<IpAddr, AddrParseError>; }
impl VxParse for String {
    #[verifier::external_body]
    fn vx_parse_IpAddr(&self) -> (r: Result<IpAddr, AddrParseError>)
        ensures match r { Ok(ip) => parse_ip(self@) == Some(ip), Err(_) => parse_ip(self@) is None },
    { unimplemented!() }
}
/// `u32::to_string()` (vstd specifies `ToString` through an uninterpreted relation): the decimal text `dec`
pub broadcast axiom fn axiom_display_u32(n: u32, res: String)
    ensures #[trigger] vstd::string::to_string_from_display_ensures::<u32>(&n, res) ==> res@ == dec(n as nat);
pub assume_specification<T>[<T as From<T>>::from](t: T) -> (r: T) ensures r == t;

/// a string-keyed map (`HashMap<String, V>` / `BTreeMap<String, V>`) as the finite map of the keys' contents; iterating a
/// reference yields every entry once, in an order that is not specified
pub struct StrMap<V> { pub m: Ghost<Map<Seq<char>, V>> }
pub open spec fn refs_map<V>(s: Seq<(&String, &V)>) -> Map<Seq<char>, V>
    decreases s.len()
{ if s.len() == 0 { Map::empty() } else { refs_map(s.drop_last()).insert(s.last().0@, *s.last().1) } }
pub open spec fn refs_distinct<V>(s: Seq<(&String, &V)>) -> bool { forall|i: int, j: int| 0 <= i < j < s.len() ==> s[i].0@ != s[j].0@ }
impl<'a, V> VxIntoIter for &'a StrMap<V> {
    type Item = (&'a String, &'a V);
    open spec fn vx_items_ok(self, items: Seq<(&'a String, &'a V)>) -> bool { refs_map(items) == self.m@ && refs_distinct(items) }
    #[verifier::external_body]
    fn vx_into_iter(self) -> (r: VxIter<(&'a String, &'a V)>) { unimplemented!() }
}
/// `HashMap<String, String>` / `BTreeMap<String, String>` (target metadata, labels, annotations) as the finite map of the contents
pub struct MetaMap { pub m: Ghost<Map<Seq<char>, Seq<char>>> }
/// insert the pairs in order (a later pair with the same key replaces the earlier one)
pub open spec fn pairs_fold(s: Seq<(Seq<char>, Seq<char>)>) -> Map<Seq<char>, Seq<char>>
    decreases s.len()
{ if s.len() == 0 { Map::empty() } else { pairs_fold(s.drop_last()).insert(s.last().0, s.last().1) } }
pub open spec fn kv_str(s: Seq<(&String, &String)>) -> Seq<(Seq<char>, Seq<char>)> { Seq::new(s.len(), |i: int| (s[i].0@, s[i].1@)) }
impl<'a> VxIntoIter for &'a MetaMap {
    type Item = (&'a String, &'a String);
    open spec fn vx_items_ok(self, items: Seq<(&'a String, &'a String)>) -> bool { pairs_fold(kv_str(items)) == self.m@ && refs_distinct(items) }
    #[verifier::external_body]
    fn vx_into_iter(self) -> (r: VxIter<(&'a String, &'a String)>) { unimplemented!() }
}
pub struct HashMap {}
impl HashMap {
    /// `HashMap::<String, String>::new()`
    #[verifier::external_body]
    pub fn new() -> (r: MetaMap) ensures r.m@ == Map::<Seq<char>, Seq<char>>::empty() { unimplemented!() }
    /// `HashMap::from([(key, value)])`
    #[verifier::external_body]
    pub fn from(a: [(String, String); 1]) -> (r: MetaMap) ensures r.m@ == Map::<Seq<char>, Seq<char>>::empty().insert(a@[0].0@, a@[0].1@) { unimplemented!() }
}
impl MetaMap {
    #[verifier::external_body]
    pub fn insert(&mut self, k: String, v: String) -> (r: Option<String>) ensures final(self).m@ == old(self).m@.insert(k@, v@) { unimplemented!() }
    /// `HashMap::get(key)` with a `&str` key
    #[verifier::external_body]
    pub fn get(&self, k: &str) -> (r: Option<&String>)
        ensures match r { Some(v) => self.m@.contains_key(k@) && self.m@[k@] == v@, None => !self.m@.contains_key(k@) },
    { unimplemented!() }
}

/// kube::core::ObjectMeta (the fields read here) and the `GameServer` type that `#[derive(CustomResource)]` generates
pub struct ObjectMeta { pub name: Option<String>, pub labels: Option<MetaMap>, pub annotations: Option<MetaMap> }
pub struct GameServerSpec {}
pub struct GameServer { pub metadata: ObjectMeta, pub spec: GameServerSpec, pub status: Option<GameServerStatus> }
pub open spec fn opt_map(o: Option<MetaMap>) -> Map<Seq<char>, Seq<char>> { match o { Some(m) => m.m@, None => Map::empty() } }
impl GameServer {
    /// kube::ResourceExt::labels / annotations: the map of the metadata, an empty map if there is none
    #[verifier::external_body]
    pub fn labels(&self) -> (r: &MetaMap) ensures r.m@ == opt_map(self.metadata.labels) { unimplemented!() }
    #[verifier::external_body]
    pub fn annotations(&self) -> (r: &MetaMap) ensures r.m@ == opt_map(self.metadata.annotations) { unimplemented!() }
}
pub struct Cause {}
#[verifier::external_body] pub fn vx_cause() -> Cause { unimplemented!() }

} // verus!
