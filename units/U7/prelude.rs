// U7 prelude: the HTTP boundary. The request leaves /repo through `Client::get`; C12 is its precondition.
verus! {

/// percent / form encoding of one parameter value by the `url` crate: uninterpreted. Assumed (trusted): a conforming
/// server decodes `form_encode(pairs)` to exactly `pairs`, and an encoded value contains no '&', '=', '#', '?' or '/'.
pub uninterp spec fn pct(v: Seq<char>) -> Seq<char>;
pub open spec fn form_encode(ps: Seq<(Seq<char>, Seq<char>)>) -> Seq<char>
    decreases ps.len()
{
    if ps.len() == 0 { Seq::empty() }
    else if ps.len() == 1 { ps[0].0 + seq!['='] + pct(ps[0].1) }
    else { ps[0].0 + seq!['='] + pct(ps[0].1) + seq!['&'] + form_encode(ps.subrange(1, ps.len() as int)) }
}
pub open spec fn pairs_view(ps: Seq<(&str, &str)>) -> Seq<(Seq<char>, Seq<char>)> { Seq::new(ps.len(), |i: int| (ps[i].0@, ps[i].1@)) }

/// the request of *this* call: the user name the client claimed and this connection's server hash (rigid, arbitrary)
pub uninterp spec fn cur_user() -> Seq<char>;
pub uninterp spec fn cur_hash() -> Seq<char>;
pub open spec fn has_joined_base() -> Seq<char> { "https://sessionserver.mojang.com/session/minecraft/hasJoined"@ }
/// C12: fixed endpoint, exactly one username parameter that decodes to the claimed name, exactly one serverId parameter
/// equal to the hash, nothing else
pub open spec fn c12_request(url_text: Seq<char>) -> bool {
    url_text == has_joined_base() + seq!['?'] + form_encode(seq![("username"@, cur_user()), ("serverId"@, cur_hash())])
}

pub trait IntoUrl { spec fn url_text(&self) -> Seq<char>; }
impl IntoUrl for reqwest::Url { open spec fn url_text(&self) -> Seq<char> { self.text@ } }
impl IntoUrl for &String { open spec fn url_text(&self) -> Seq<char> { self@ } }
impl IntoUrl for String { open spec fn url_text(&self) -> Seq<char> { self@ } }
impl IntoUrl for &str { open spec fn url_text(&self) -> Seq<char> { self@ } }

pub mod reqwest {
    use vstd::prelude::*;
    use super::*;
    pub struct Url { pub text: Ghost<Seq<char>> }
    pub struct ParseError {}
    impl std::fmt::Debug for ParseError { #[verifier::external_body] fn fmt(&self, f: &mut std::fmt::Formatter<'_>) -> std::fmt::Result { unimplemented!() } }
    impl Url {
        /// url crate: appends `?k1=enc(v1)&k2=enc(v2)..` to the parsed input; fails only if the input does not parse
        #[verifier::external_body]
        pub fn parse_with_params(input: &str, params: &[(&str, &str)]) -> (r: Result<Url, ParseError>)
            ensures input@ == has_joined_base() ==> r is Ok,
                r matches Ok(u) ==> u.text@ == input@ + seq!['?'] + form_encode(pairs_view(params@)),
        { unimplemented!() }
    }
}
pub struct RequestBuilder {}
pub struct Client {}
impl Client {
    #[verifier::external_body]
    pub fn get<U: IntoUrl>(&self, url: U) -> (r: RequestBuilder)
        requires
            c12_request(url.url_text()), // @cl:C12+C01.get.request_is_exactly_claimed_name_and_hash
    { unimplemented!() }
}
#[verifier::external_body] pub fn http_client() -> &'static Client { unimplemented!() }
pub struct AdapterError {}
pub struct Profile {}
pub struct Uuid {}
pub struct SocketAddr {}
pub type Protocol = i32;
/// everything after `.get(url)`: send, status check, JSON decoding, error mapping (R17b) — not part of C12
#[verifier::external_body] pub fn vx_rest_of_request<T>(b: RequestBuilder) -> Result<T, AdapterError> { unimplemented!() }
pub mod passage_adapters { pub type Result<T> = std::result::Result<T, super::AdapterError>; }
pub assume_specification<T>[<T as From<T>>::from](t: T) -> (r: T) ensures r == t;

// format! pieces (R13): Display of a string is the string itself
pub fn vx_str(s: &str) -> (r: String) ensures r@ == s@ { s.to_string() }
#[verifier::external_body] pub fn vx_show_str(s: &str) -> (r: String) ensures r@ == s@ { unimplemented!() }
#[verifier::external_body] pub fn vx_fmt2(a: String, b: String) -> (r: String) ensures r@ == a@ + b@ { unimplemented!() }
pub trait Show { spec fn shown(&self) -> Seq<char>; }
impl Show for &str { open spec fn shown(&self) -> Seq<char> { self@ } }
impl Show for String { open spec fn shown(&self) -> Seq<char> { self@ } }
#[verifier::external_body] pub fn vx_show<T: Show>(v: &T) -> (r: String) ensures r@ == v.shown() { unimplemented!() }

} // verus!
