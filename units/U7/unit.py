"""U7 — the has-joined request (C12)."""
import os
import sys

HERE = os.path.dirname(os.path.abspath(__file__))
sys.path.insert(0, os.path.join(HERE, "..", "..", "lib"))
import vxlib  # noqa: E402

NAME = "U7"
SRC = "passage-adapters/http/src/mojang_adapter.rs"


def build(vacuity=False):
    vxlib.reset_vac()
    C = vxlib.load_contracts(os.path.join(HERE, "contracts.toml"))
    fc = vxlib.FnContract("mojang.authenticate", C["fn"]["mojang.authenticate"])
    C6 = vxlib.load_contracts(os.path.join(HERE, "..", "U6", "contracts.toml"))
    d6 = dict(C6["fn"]["authentication.minecraft_hash"])
    d6.pop("proof", None)
    f6 = vxlib.FnContract("authentication.minecraft_hash", d6)
    u = vxlib.Unit(NAME)
    u.default_props = ["C04"]
    # module-level string constants of the file are extracted when present (the URL may or may not be a named const)
    consts = []
    with open(os.path.join(vxlib.REPO, SRC)) as fh:
        import re
        for m in re.finditer(r"^(?:pub(?:\([a-z]+\))? )?const ([A-Z0-9_]+): &(?:'static )?str", fh.read(), re.M):
            consts.append(m.group(1))
    ex = vxlib.run_vx([
        {"key": "mojang.MojangAdapter", "file": SRC, "kind": "struct", "name": "MojangAdapter", "rules": ["attrs"]},
    ] + [{"key": f"mojang.const.{c}", "file": SRC, "kind": "const", "name": c, "rules": ["attrs", "const_static"]} for c in consts] + [
        {"key": "mojang.authenticate", "file": SRC, "kind": "impl_fn", "self_ty": "MojangAdapter", "trait": "AuthenticationAdapter", "name": "authenticate",
         "rules": ["deasync", "attrs", "statics", "format", "cut_chain", "try_desugar"], "statics": {"HTTP_CLIENT": "http_client()"},
         "cut_method": "get", "off_features": ["verif-hooks"], "anchors": vxlib.anchors_for(fc, vacuity)},
        {"key": "authentication.minecraft_hash", "file": "passage-adapters/src/authentication/mod.rs", "kind": "fn", "name": "minecraft_hash", "rules": ["attrs"]},
        {"key": "mojang.with_server_id", "file": SRC, "kind": "impl_fn", "self_ty": "MojangAdapter", "trait": "-", "name": "with_server_id", "rules": ["attrs", "mut_self"],
         "anchors": ["fn:begin"] if vacuity else []},
    ])
    with open(os.path.join(HERE, "..", "U6", "prelude.rs")) as f:
        u.raw(f.read())
    with open(os.path.join(HERE, "prelude.rs")) as f:
        u.raw(f.read())
    if vacuity:
        u.raw(vxlib.VAC_PRELUDE)
    u.raw("verus! {\n")
    # contract proved in U6, assumed here
    u.add_fn(ex["authentication.minecraft_hash"], f6, mode="external", indent="")
    u.raw("pub mod mojang_adapter {\n    use super::*;\n")
    u.modules.append("mojang_adapter")
    u.add_item_text(ex["mojang.MojangAdapter"])
    for c in consts:
        u.add_item_text(ex[f"mojang.const.{c}"])
    u.raw("    impl MojangAdapter {\n")
    ex["mojang.authenticate"]["vis"] = ""
    u.add_fn(ex["mojang.authenticate"], fc, vacuity=vacuity, indent="        ")
    ex["mojang.with_server_id"]["vis"] = ""
    u.add_fn(ex["mojang.with_server_id"], vxlib.FnContract("mojang.with_server_id", C["fn"]["mojang.with_server_id"]), vacuity=vacuity, indent="        ")
    u.raw("    }\n}\n} // verus!\nfn main() {}\n")
    return u
