"""U13 — passage-protocol/src/error.rs: the two From impls and as_label (C04: total functions, error kinds preserved).
Discharges what the connection prelude states as `axiom_io_conv` (an io error becomes ConnectionClosed or InternalIo)."""
import os
import sys

HERE = os.path.dirname(os.path.abspath(__file__))
sys.path.insert(0, os.path.join(HERE, "..", "..", "lib"))
import vxlib  # noqa: E402

NAME = "U13"
SRC = "passage-protocol/src/error.rs"
PK = "passage-packets/src/lib.rs"
SUBST = {"std::io::Error": "IoError", "serde_json::Error": "JsonError", "serde_json::error::Error": "JsonError", "crypto::Error": "CryptoError",
         "reqwest::Error": "ReqwestError", "passage_packets::fastnbt::error::Error": "NbtError", "fastnbt::error::Error": "NbtError",
         "passage_adapters::Error": "AdapterError"}


def build(vacuity=False):
    vxlib.reset_vac()
    C = vxlib.load_contracts(os.path.join(HERE, "contracts.toml"))
    fnc = {k: vxlib.FnContract(k, v) for k, v in C.get("fn", {}).items()}
    u = vxlib.Unit(NAME)
    u.default_props = ["C04"]
    items = [
        {"key": "error.Error", "file": SRC, "kind": "enum", "name": "Error", "rules": ["attrs", "generics"], "subst": SUBST},
        {"key": "packets.Error", "file": PK, "kind": "enum", "name": "Error", "rules": ["attrs", "generics"], "subst": SUBST},
        {"key": "error.from_io", "file": SRC, "kind": "impl_fn", "self_ty": "Error", "trait": "From<std::io::Error>", "name": "from", "rules": ["attrs", "generics"],
         "subst": SUBST, "anchors": vxlib.anchors_for(fnc["error.from_io"], vacuity)},
        {"key": "error.from_packets", "file": SRC, "kind": "impl_fn", "self_ty": "Error", "trait": "From<passage_packets::Error>", "name": "from", "rules": ["attrs", "generics"],
         "subst": SUBST, "anchors": vxlib.anchors_for(fnc["error.from_packets"], vacuity)},
        {"key": "error.as_label", "file": SRC, "kind": "impl_fn", "self_ty": "Error", "trait": "-", "name": "as_label", "rules": ["attrs", "generics"],
         "subst": SUBST, "anchors": vxlib.anchors_for(fnc["error.as_label"], vacuity)},
    ]
    ex = vxlib.run_vx(items)
    with open(os.path.join(HERE, "prelude.rs")) as f:
        u.raw(f.read())
    if vacuity:
        u.raw(vxlib.VAC_PRELUDE)
    u.raw("verus! {\npub mod passage_packets {\n    use super::*;\n")
    u.add_item_text(ex["packets.Error"])
    u.raw("}\npub mod error {\n    use super::*;\n")
    u.modules.append("error")
    u.add_item_text(ex["error.Error"])
    u.raw("""    impl vstd::std_specs::convert::FromSpecImpl<IoError> for Error { open spec fn obeys_from_spec() -> bool { false } open spec fn from_spec(v: IoError) -> Error { arbitrary() } }
    impl vstd::std_specs::convert::FromSpecImpl<passage_packets::Error> for Error { open spec fn obeys_from_spec() -> bool { false } open spec fn from_spec(v: passage_packets::Error) -> Error { arbitrary() } }
    impl From<IoError> for Error {
""")
    u.add_fn(ex["error.from_io"], fnc["error.from_io"], vacuity=vacuity, indent="        ")
    u.raw("    }\n    impl From<passage_packets::Error> for Error {\n")
    u.add_fn(ex["error.from_packets"], fnc["error.from_packets"], vacuity=vacuity, indent="        ")
    u.raw("    }\n    impl Error {\n")
    u.add_fn(ex["error.as_label"], fnc["error.as_label"], vacuity=vacuity, indent="        ")
    u.raw("    }\n}\n} // verus!\nfn main() {}\n")
    return u
