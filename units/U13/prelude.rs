// U13 prelude: std::io::Error as (kind), the ErrorKind variants error.rs names, opaque foreign errors. Assumptions.
use vstd::prelude::*;

verus! {

pub type VarInt = i32;
#[derive(Clone, Copy, PartialEq, Eq, Structural)]
pub enum ErrorKind {
    ConnectionRefused, ConnectionReset, HostUnreachable, NetworkUnreachable, ConnectionAborted, NotConnected, NetworkDown,
    BrokenPipe, TimedOut, WriteZero, UnexpectedEof,
    /// every other kind of std's (non-exhaustive) enum
    Other,
}
pub struct IoError { pub k: ErrorKind }
impl IoError { pub fn kind(&self) -> (r: ErrorKind) ensures r == self.k { self.k } }
pub struct JsonError {}
pub struct CryptoError {}
pub struct ReqwestError {}
pub struct NbtError {}
pub struct AdapterError {}

} // verus!
