"""U9 — Listener::handle: operator configuration (C14) and admission on the effective address (C15)."""
import copy
import os
import sys

HERE = os.path.dirname(os.path.abspath(__file__))
sys.path.insert(0, os.path.join(HERE, "..", "..", "lib"))
sys.path.insert(0, os.path.join(HERE, "..", "conn"))
import vxlib  # noqa: E402
import common  # noqa: E402

NAME = "U9"
RLIMIT = 30
PL = "passage-protocol/src/listener.rs"
BUILDERS = ["with_rate_limiter", "with_proxy_protocol", "with_connection_timeout", "with_auth_secret", "with_max_packet_length", "with_auth_cookie_expiry"]
CONN_CALLEES = ["new", "with_max_packet_length", "with_auth_cookie_expiry", "with_auth_secret", "with_client_address"]
L_GENERICS = ["Stat", "Disc", "Filt", "Stra", "Auth", "Loca"]
L_SUBST = {"RateLimiter<IpAddr>": "RateLimiter"}
L_RULES = ["deasync", "attrs", "log", "let_chain", "closure_wild", "spawn_inline", "mut_self", "generics", "map_field"]
L_USES = """
    use super::*;
    use super::error::Error;
    use super::connection::{Connection, DEFAULT_AUTH_COOKIE_EXPIRY, DEFAULT_MAX_PACKET_LENGTH};
    use super::connection::opt_bytes;
    use std::sync::Arc;
"""


def build(vacuity=False, u11=None):
    """u11: None for U9 itself; for U11 a callback(u, ex, items-phase) object that adds the accept loop and start()."""
    vxlib.reset_vac()
    C = vxlib.load_contracts(os.path.join(HERE, "contracts.toml"))
    fnc = {k: vxlib.FnContract(k, v) for k, v in C.get("fn", {}).items()}
    C4 = vxlib.load_contracts(os.path.join(HERE, "..", "U4", "contracts.toml"))
    fnc4 = {k: vxlib.FnContract(k, v) for k, v in C4.get("fn", {}).items()}
    C3 = vxlib.load_contracts(os.path.join(HERE, "..", "U3", "contracts.toml"))
    d3 = copy.deepcopy(C3["fn"]["connection.listen"])
    d3.pop("loops", None)
    d3.pop("proof", None)
    # C14: every connection is handled under the operator's configuration: obligations at the call of listen()
    d3["requires"] = [
        {"id": "C14.listen.max_packet_length_forwarded", "props": ["C14"], "text": "old(self).spec_max_len() == cfg_max_len()"},
        {"id": "C14.listen.auth_cookie_expiry_forwarded", "props": ["C14"], "text": "old(self).spec_expiry() == cfg_expiry()"},
        {"id": "C14.listen.auth_secret_forwarded", "props": ["C14"], "text": "old(self).spec_secret() == cfg_secret()"},
    ] + list(d3["requires"])
    listen_c = vxlib.FnContract("connection.listen", d3)

    u, fnc2 = common.start_unit(NAME if u11 is None else u11.NAME, vacuity)
    u.default_props = ["C04"]
    items = common.base_items()
    for f in CONN_CALLEES + ["listen"]:
        items.append(common.conn_fn_item(f"connection.{f}", f, vxlib.FnContract("_", {}), False))
    items.append({"key": "listener.Listener", "file": PL, "kind": "struct", "name": "Listener", "rules": ["attrs", "generics"],
                  "subst": L_SUBST, "drop_generics": L_GENERICS})
    items.append({"key": "listener.DEFAULT_CONNECTION_TIMEOUT", "file": PL, "kind": "const", "name": "DEFAULT_CONNECTION_TIMEOUT", "rules": ["attrs"]})
    for f in ["new", "handle"] + BUILDERS:
        items.append({"key": f"listener.{f}", "file": PL, "kind": "impl_fn", "self_ty": "Listener<Stat,Disc,Filt,Stra,Auth,Loca>", "name": f,
                      "rules": L_RULES, "subst": L_SUBST, "anchors": vxlib.anchors_for(fnc[f"listener.{f}"], vacuity)})
    if u11 is not None:
        items += u11.items(vacuity)
    ex = vxlib.run_vx(items)
    common.emit_base(u, ex, fnc2)
    with open(os.path.join(HERE, "..", "U3", "spec.rs")) as f:
        u.raw(f.read())
    with open(os.path.join(HERE, "spec.rs")) as f:
        u.raw(f.read())
    u.raw("""
    /// a freshly built connection satisfies the preconditions of listen() that do not depend on the configuration
    pub proof fn lemma_fresh_ready(c: &Connection)
        requires c.fresh()
        ensures c.wf(), c.ka_inv(), c.ev().len() == 0, c.key() is None,
            c.spec_max_len() <= alloc_budget() ==> c.budget_ok(),
            cfg_of(c).expiry == c.spec_expiry(), cfg_of(c).secret == c.spec_secret(), cfg_of(c).addr == c.spec_addr(),
    { reveal(outstanding); }
""")
    u.raw("    impl Connection {\n")
    for f in CONN_CALLEES:
        u.add_fn(ex[f"connection.{f}"], fnc4[f"connection.{f}"], mode="external", indent="        ")
    u.add_fn(ex["connection.listen"], listen_c, mode="external", indent="        ")
    u.raw("    }\n}\n")  # closes mod connection
    u.raw("pub use connection::{cfg_max_len, cfg_expiry, cfg_secret, effective, limiter_calls};\n")
    u.raw("impl PError { #[verifier::external_body] pub fn as_label(&self) -> &'static str { unimplemented!() } }\n")
    u.raw("pub mod listener {\n" + L_USES)
    u.add_item_text(ex["listener.Listener"])
    # a const initialised by a function call must be an `exec const` in Verus (value not needed by any contract)
    ex["listener.DEFAULT_CONNECTION_TIMEOUT"]["text"] = ex["listener.DEFAULT_CONNECTION_TIMEOUT"]["text"].replace("const DEFAULT_CONNECTION_TIMEOUT", "exec const DEFAULT_CONNECTION_TIMEOUT", 1)
    u.add_item_text(ex["listener.DEFAULT_CONNECTION_TIMEOUT"])
    u.raw("    impl Listener {\n")
    for f in ["new", "handle"] + BUILDERS:
        ex[f"listener.{f}"]["vis"] = ""  # contracts mention the private fields; nothing outside this module calls these
        if u11 is None:
            u.add_fn(ex[f"listener.{f}"], fnc[f"listener.{f}"], vacuity=vacuity, indent="        ")
        else:
            u.add_fn(ex[f"listener.{f}"], fnc[f"listener.{f}"], mode="external", indent="        ")
    if u11 is not None:
        u11.emit_impl(u, ex, vacuity)
    u.raw("    }\n")
    if u11 is not None:
        u11.emit_app(u, ex, vacuity)
    u.raw("}\n} // verus!\nfn main() {}\n")
    u.modules = ["listener"] if u11 is None else ["listener", "listener::app"]
    u.verify_only = list(u.modules)
    return u
