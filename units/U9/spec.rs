// U9 specification: operator configuration as rigid constants (C14) and the effective client address (C15).

    /// the operator's configuration (arbitrary but fixed): every obligation below is proved for all values
    pub uninterp spec fn cfg_max_len() -> i32;
    pub uninterp spec fn cfg_expiry() -> u64;
    pub uninterp spec fn cfg_secret() -> Option<Seq<u8>>;

    /// C15: the source address announced in the PROXY header when that protocol is enabled (None: no valid header),
    /// otherwise the TCP peer
    pub open spec fn effective(pp: Option<ParseConfig>, stream: TcpStream, peer: SocketAddr) -> Option<SocketAddr> {
        match pp {
            None => Some(peer),
            Some(c) => match proxy_parse(stream, c) {
                Err(_) => None,
                Ok(Some(a)) => Some(a.source),
                Ok(None) => Some(peer),
            },
        }
    }
    pub open spec fn limiter_calls(rl: Option<RateLimiter>) -> Seq<IpAddr> { match rl { Some(r) => r.calls@, None => Seq::empty() } }
