"""U3 — Connection::listen against the reference automaton (C01, C02, C03, C06, C10; parts of C04, C07)."""
import os
import sys

HERE = os.path.dirname(os.path.abspath(__file__))
sys.path.insert(0, os.path.join(HERE, "..", "..", "lib"))
sys.path.insert(0, os.path.join(HERE, "..", "conn"))
import vxlib  # noqa: E402
import common  # noqa: E402

NAME = "U3"
RLIMIT = 40
# functions of Connection that listen calls: contracts proved in U4, assumed here
CALLEES = ["send_packet", "handle_keep_alive", "apply_encryption", "receive_packet", "keep_alive"]


def build(vacuity=False):
    vxlib.reset_vac()
    C = vxlib.load_contracts(os.path.join(HERE, "contracts.toml"))
    fnc = {k: vxlib.FnContract(k, v) for k, v in C.get("fn", {}).items()}
    C4 = vxlib.load_contracts(os.path.join(HERE, "..", "U4", "contracts.toml"))
    fnc4 = {k: vxlib.FnContract(k, v) for k, v in C4.get("fn", {}).items()}
    u, fnc2 = common.start_unit(NAME, vacuity)
    u.default_props = ["C04"]
    items = common.base_items()
    for f in CALLEES:
        items.append(common.conn_fn_item(f"connection.{f}", f, vxlib.FnContract("_", {}), False))
    items.append(common.conn_fn_item("connection.listen", "listen", fnc["connection.listen"], vacuity))
    items.append({"key": "login_in.decode", "file": "passage-packets/src/login.rs", "modpath": ["serverbound"], "kind": "impl_fn",
                  "self_ty": "CookieResponsePacket", "trait": "-", "name": "decode", "rules": ["attrs", "generics"],
                  "subst": {"bound:Deserialize<'a>": "serde_json::JsonDe", "serde_json::Error": "JsonError"}})
    ex = vxlib.run_vx(items)
    common.emit_base(u, ex, fnc2)
    with open(os.path.join(HERE, "spec.rs")) as f:
        u.raw(f.read())
    u.raw("    impl Connection {\n")
    for f in CALLEES:
        u.add_fn(ex[f"connection.{f}"], fnc4[f"connection.{f}"], mode="external", indent="        ")
    # R8c: `keep_alive()` losing a `select!` of listen: stopped between two iterations (its loop invariant, proved in U4)
    u.add_fn(vxlib.cancelled_item(ex["connection.keep_alive"], "keep_alive"), vxlib.cancelled_contract(fnc4["connection.keep_alive"]),
             mode="external", indent="        ")
    u.add_fn(ex["connection.listen"], fnc["connection.listen"], vacuity=vacuity, indent="        ")
    u.raw("    }\n")
    # CookieResponsePacket::decode (real body, verified here)
    dc = vxlib.FnContract("login_in.decode", {"props": ["C04", "C10"], "ensures": [
        {"id": "C10.decode.none", "props": ["C10"], "text": "self.payload is None ==> r == Ok::<Option<T>, JsonError>(None)"},
        {"id": "C10.decode.some", "props": ["C10"], "text": "self.payload matches Some(p) ==> r == serde_json::opt_parse::<T>(p@)"}]})
    u.raw("    impl login_in::CookieResponsePacket {\n")
    u.add_fn(ex["login_in.decode"], dc, vacuity=vacuity, indent="        ")
    u.raw("    }\n")
    u.raw("}\n} // verus!\nfn main() {}\n")
    u.modules = ["connection"]
    u.verify_only = ["connection"]
    return u
