// U3 specification: the reference automaton of one connection, written from the property statements
// C01, C02, C03, C06, C10 (not from the code). `Connection::listen` must produce only event traces the
// automaton accepts, for every client byte stream, every adapter behaviour and every clock value.
//
// Events (ghost log, see conn/prelude.rs): Recv(id, body) — a frame taken from the client; Send(p) — a packet
// handed to the socket; Tick / Echo — keep-alive timer and echoes; Clock(t) — a wall-clock read;
// Routing(k) — a routing adapter is about to be consulted.
// Decoding is a deterministic function of the frame body (`decode_of`), adapters / RSA / HMAC / JSON are
// uninterpreted functions of their arguments, so the automaton can say exactly what must be sent.

    /// configuration of the connection at the moment `listen` is entered
    pub struct Cfg {
        pub secret: Option<Seq<u8>>,
        pub addr: SocketAddr,
        pub expiry: u64,
        pub locale0: Option<Seq<char>>,
    }

    /// data carried through a login / transfer
    pub struct D {
        pub hs_addr: Seq<char>,
        pub hs_port: u16,
        pub pv: i32,
        pub transfer: bool,
        /// the client presented no session cookie
        pub sess_none: bool,
        /// name / uuid: the claim of Login Start until an authenticated identity exists, then that identity
        pub name: Seq<char>,
        pub id: Uuid,
        pub props: Vec<ProfileProperty>,
        /// the client is told to authenticate (no valid cookie)
        pub should_auth: bool,
        /// shared secret that keys the connection (known after the encryption response)
        pub ss: Seq<u8>,
    }

    pub enum L {
        Start,
        StatusReq { hs: hand_in::HandshakePacket },
        StatusResp { hs: hand_in::HandshakePacket },
        StatusPing,
        StatusPong { payload: u64 },
        LoginStart { hs: hand_in::HandshakePacket },
        SessReq { d: D },
        SessResp { d: D },
        /// session cookie seen; next is the auth Cookie Request (transfer intent with a secret) or the Encryption Request
        AfterSess { d: D },
        AuthResp { d: D },
        /// auth cookie response seen (payload = what was presented); an optional clock read, then the Encryption Request
        PreEnc { d: D, cookie: Option<Seq<u8>>, clock: Option<u64> },
        EncSent { d: D, token: Seq<u8> },
        EncGot { d: D, token: Seq<u8>, ss_ct: Seq<u8>, tok_ct: Seq<u8> },
        LoggedIn { d: D },
        Config { d: D },
        /// client information received: routing may run; stage counts the cookies stored so far
        Info { d: D, locale: Seq<char>, stage: int },
        Done,
        /// the connection must end without another event (protocol violation by the client, decode error)
        Dead,
        Bad,
    }

    pub closed spec fn cfg_of(c: &Connection) -> Cfg {
        Cfg { secret: opt_bytes(c.auth_secret), addr: c.client_address, expiry: c.auth_cookie_expiry, locale0: opt_str(c.client_locale) }
    }

    pub open spec fn opt_bytes(o: Option<Vec<u8>>) -> Option<Seq<u8>> { match o { Some(v) => Some(v@), None => None } }

    // ---- C02: when may authentication be skipped --------------------------------------------------------
    pub open spec fn cookie_accept(cfg: Cfg, d: D, cookie: Option<Seq<u8>>, clock: Option<u64>) -> bool {
        &&& d.transfer
        &&& cfg.secret matches Some(k)
        &&& cookie matches Some(c)
        &&& tag_ok(c, k)
        &&& parse_auth(c.subrange(32, c.len() as int)) matches Ok(ck)
        &&& ck.client_addr.ipaddr == cfg.addr.ipaddr
        &&& clock matches Some(now)
        &&& ck.timestamp + cfg.expiry >= now
    }
    pub open spec fn cookie_of(cookie: Option<Seq<u8>>) -> AuthCookie {
        let c = cookie->0;
        parse_auth(c.subrange(32, c.len() as int))->Ok_0
    }

    /// the identity the connection runs under once the cookie decision is made: the accepted cookie's, else still the claim
    pub open spec fn after_cookie(cfg: Cfg, d: D, cookie: Option<Seq<u8>>, clock: Option<u64>) -> D {
        if cookie_accept(cfg, d, cookie, clock) {
            D { name: cookie_of(cookie).user_name@, id: cookie_of(cookie).user_id, props: cookie_of(cookie).profile_properties, should_auth: false, ..d }
        } else { D { should_auth: true, ..d } }
    }
    /// the identity after the encryption response: what the authentication service vouches for, or the cookie identity
    pub open spec fn admitted(cfg: Cfg, d: D, ss: Seq<u8>) -> D {
        if d.should_auth {
            match auth_oracle(cfg.addr, (d.hs_addr, d.hs_port), d.pv, (d.name, d.id), ss, pub_key()) {
                Ok(p) => D { name: p.name@, id: p.id, props: p.properties, ss, ..d },
                Err(_) => D { ss, ..d },
            }
        } else { D { ss, ..d } }
    }

    // ---- C03: what routing decides ------------------------------------------------------------------------
    pub open spec fn routing(cfg: Cfg, d: D) -> Result<Option<Target>, ()> {
        match discover_oracle() {
            Ok(t0) => match filter_oracle(cfg.addr, (d.hs_addr, d.hs_port), d.pv, (d.name, d.id), t0) {
                Ok(t1) => match select_oracle(cfg.addr, (d.hs_addr, d.hs_port), d.pv, (d.name, d.id), t1) {
                    Ok(o) => Ok(o),
                    Err(_) => Err(()),
                },
                Err(_) => Err(()),
            },
            Err(_) => Err(()),
        }
    }

    // ---- C10: what the cookies must contain ---------------------------------------------------------------
    pub open spec fn auth_cookie_payload(cfg: Cfg, d: D, t: Target, ts: u64, k: Seq<u8>) -> Seq<u8> {
        signed_with(encode_utf8(json_auth(AuthView {
            timestamp: ts, client_addr: cfg.addr, user_name: d.name, user_id: d.id,
            target: Some(t.identifier@), props: d.props, extra: default_extra(),
        })), k)
    }
    pub open spec fn session_cookie_payload_ok(d: D, payload: Seq<u8>) -> bool {
        exists |id: Uuid, trace: Seq<char>| payload == encode_utf8(#[trigger] json_session(SessionView {
            id, server_address: d.hs_addr, server_port: d.hs_port, trace_id: Some(trace) }))
    }
    pub open spec fn auth_due(cfg: Cfg, d: D) -> bool { d.should_auth && cfg.secret is Some }

    pub open spec fn ignored_config_id(id: VarInt) -> bool { id == 0x04 || id == 0x02 || id == 0x06 || id == 0x01 }

    // ---- the automaton ----------------------------------------------------------------------------------------
    pub open spec fn step(cfg: Cfg, s: L, e: Ev) -> L {
        match s {
            L::Start => match e {
                Ev::Recv(id, body) => if id != 0x00 { L::Dead } else {
                    match decode_of::<hand_in::HandshakePacket>(body) {
                        Ok(hs) => if hs.next_state == State::Status { L::StatusReq { hs } } else { L::LoginStart { hs } },
                        Err(_) => L::Dead,
                    }
                },
                _ => L::Bad,
            },
            // ------------------------------------------------------------------ status (C06)
            L::StatusReq { hs } => match e {
                Ev::Recv(id, body) => if id != 0x00 { L::Dead } else {
                    match decode_of::<status_in::StatusRequestPacket>(body) { Ok(_) => L::StatusResp { hs }, Err(_) => L::Dead }
                },
                _ => L::Bad,
            },
            L::StatusResp { hs } => match e {
                Ev::Send(Sent::StatusResponse { body }) =>
                    if status_oracle(cfg.addr, (hs.server_address@, hs.server_port), hs.protocol_version) matches Ok(st) && body == json_status(st) { L::StatusPing } else { L::Bad },
                _ => L::Bad,
            },
            L::StatusPing => match e {
                Ev::Recv(id, body) => if id != 0x01 { L::Dead } else {
                    match decode_of::<status_in::PingPacket>(body) { Ok(p) => L::StatusPong { payload: p.payload }, Err(_) => L::Dead }
                },
                _ => L::Bad,
            },
            L::StatusPong { payload } => match e {
                Ev::Send(Sent::Pong { payload: p2 }) => if p2 == payload { L::Done } else { L::Bad },
                _ => L::Bad,
            },
            // ------------------------------------------------------------------ login (C06, C01, C02)
            L::LoginStart { hs } => match e {
                Ev::Recv(id, body) => if id != 0x00 { L::Dead } else {
                    match decode_of::<login_in::LoginStartPacket>(body) {
                        Ok(ls) => L::SessReq { d: D {
                            hs_addr: hs.server_address@, hs_port: hs.server_port, pv: hs.protocol_version, transfer: hs.next_state == State::Transfer,
                            sess_none: false, name: ls.user_name@, id: ls.user_id, props: arbitrary(), should_auth: true, ss: Seq::empty() } },
                        Err(_) => L::Dead,
                    }
                },
                _ => L::Bad,
            },
            L::SessReq { d } => match e {
                Ev::Send(Sent::LoginCookieRequest { key }) => if key == SESSION_COOKIE_KEY@ { L::SessResp { d } } else { L::Bad },
                _ => L::Bad,
            },
            L::SessResp { d } => match e {
                Ev::Recv(id, body) => if id != 0x04 { L::Dead } else {
                    match decode_of::<login_in::CookieResponsePacket>(body) {
                        Ok(p) => match p.payload {
                            None => L::AfterSess { d: D { sess_none: true, ..d } },
                            Some(pl) => match serde_json::opt_parse::<SessionCookie>(pl@) {
                                Ok(None) => L::AfterSess { d: D { sess_none: true, ..d } },
                                Ok(Some(_)) => L::AfterSess { d: D { sess_none: false, ..d } },
                                Err(_) => L::Dead,
                            },
                        },
                        Err(_) => L::Dead,
                    }
                },
                _ => L::Bad,
            },
            L::AfterSess { d } => match e {
                // the authentication cookie is only ever requested for a transfer with a secret configured
                Ev::Send(Sent::LoginCookieRequest { key }) =>
                    if key == AUTH_COOKIE_KEY@ && d.transfer && cfg.secret is Some { L::AuthResp { d } } else { L::Bad },
                // without that request no cookie was presented
                _ => step_pre_enc(cfg, d, None, None, e),
            },
            L::AuthResp { d } => match e {
                Ev::Recv(id, body) => if id != 0x04 { L::Dead } else {
                    match decode_of::<login_in::CookieResponsePacket>(body) {
                        Ok(p) => L::PreEnc { d, cookie: (match p.payload { Some(v) => Some(v@), None => None }), clock: None },
                        Err(_) => L::Dead,
                    }
                },
                _ => L::Bad,
            },
            L::PreEnc { d, cookie, clock } => step_pre_enc(cfg, d, cookie, clock, e),
            L::EncSent { d, token } => match e {
                Ev::Recv(id, body) => if id != 0x01 { L::Dead } else {
                    match decode_of::<login_in::EncryptionResponsePacket>(body) {
                        Ok(p) => L::EncGot { d, token, ss_ct: p.shared_secret@, tok_ct: p.verify_token@ },
                        Err(_) => L::Dead,
                    }
                },
                _ => L::Bad,
            },
            L::EncGot { d, token, ss_ct, tok_ct } => match e {
                // C01: Login Success only for the verify token issued on this connection, encrypted to the server key,
                // and only under the identity the authentication service (asked with the shared secret and the server's
                // public key) or the accepted cookie vouches for
                Ev::Send(Sent::LoginSuccess { user_name, user_id }) => {
                    if !(rsa_decrypt(tok_ct) matches Ok(v) && v@ == token) { L::Bad }
                    else if !(rsa_decrypt(ss_ct) is Ok) { L::Bad }
                    else {
                        let ss = rsa_decrypt(ss_ct)->Ok_0@;
                        if d.should_auth {
                            match auth_oracle(cfg.addr, (d.hs_addr, d.hs_port), d.pv, (d.name, d.id), ss, pub_key()) {
                                Ok(p) => if user_name == p.name@ && user_id == p.id {
                                    L::LoggedIn { d: D { name: p.name@, id: p.id, props: p.properties, ss, ..d } }
                                } else { L::Bad },
                                Err(_) => L::Bad,
                            }
                        } else if user_name == d.name && user_id == d.id { L::LoggedIn { d: D { ss, ..d } } } else { L::Bad }
                    }
                },
                _ => L::Bad,
            },
            L::LoggedIn { d } => match e {
                Ev::Recv(id, body) => if id != 0x03 { L::Dead } else {
                    match decode_of::<login_in::LoginAcknowledgedPacket>(body) { Ok(_) => L::Config { d }, Err(_) => L::Dead }
                },
                _ => L::Bad,
            },
            // ------------------------------------------------------------------ configuration (C06, C07 traffic)
            L::Config { d } => match e {
                Ev::Recv(id, body) =>
                    if id == 0x00 {
                        match decode_of::<conf_in::ClientInformationPacket>(body) {
                            Ok(ci) => L::Info { d, locale: ci.locale@, stage: 0 },
                            Err(_) => L::Dead,
                        }
                    } else if ignored_config_id(id) { L::Config { d } } else { L::Dead },
                Ev::Tick => L::Config { d },
                Ev::Echo(_) => L::Config { d },
                Ev::Send(Sent::KeepAlive { .. }) => L::Config { d },
                Ev::Send(Sent::Disconnect { .. }) => if timeout_disc(e, cfg.locale0) { L::Done } else { L::Bad },
                _ => L::Bad,
            },
            // ------------------------------------------------------------------ routing (C03, C10)
            L::Info { d, locale, stage } => match e {
                Ev::Recv(_, _) => s,
                Ev::Tick => s,
                Ev::Echo(_) => s,
                Ev::Routing(_) => if stage == 0 { s } else { L::Bad },
                Ev::Send(Sent::KeepAlive { .. }) => if stage == 0 { s } else { L::Bad },
                Ev::Send(Sent::Disconnect { reason }) =>
                    if stage != 0 { L::Bad }
                    else if timeout_disc(e, Some(locale)) || timeout_disc(e, cfg.locale0) { L::Done }
                    // C03: no target chosen: the configured message for the locale the client reported
                    else if routing(cfg, d) == Ok::<Option<Target>, ()>(None)
                        && (localize_oracle(Some(locale), "disconnect_no_target"@) matches Ok(m) && m@ == reason) { L::Done }
                    else { L::Bad },
                Ev::Send(Sent::StoreCookie { key, payload }) => match routing(cfg, d) {
                    Ok(Some(t)) =>
                        if key == AUTH_COOKIE_KEY@ {
                            // C10: only for a fresh authentication with a secret; tag + JSON of exactly these facts
                            if stage == 0 && auth_due(cfg, d)
                                && (exists |ts: u64| payload == #[trigger] auth_cookie_payload(cfg, d, t, ts, cfg.secret->0)) { L::Info { d, locale, stage: 1 } } else { L::Bad }
                        } else if key == SESSION_COOKIE_KEY@ {
                            // C10: exactly when the client presented none; after the auth cookie if one is due
                            if d.sess_none && (stage == 1 || (stage == 0 && !auth_due(cfg, d))) && session_cookie_payload_ok(d, payload) {
                                L::Info { d, locale, stage: 2 }
                            } else { L::Bad }
                        } else { L::Bad },
                    _ => L::Bad,
                },
                // C03: exactly the address and port of the target the strategy chose; all due cookies stored before
                Ev::Send(Sent::Transfer { host, port }) => match routing(cfg, d) {
                    Ok(Some(t)) =>
                        if host == ip_text(t.address.ipaddr) && port == t.address.portno
                            && (auth_due(cfg, d) ==> stage >= 1) && (d.sess_none ==> stage == 2) && (!d.sess_none ==> stage <= 1) { L::Done } else { L::Bad },
                    _ => L::Bad,
                },
                _ => L::Bad,
            },
            L::Done => L::Bad,
            L::Dead => L::Bad,
            L::Bad => L::Bad,
        }
    }

    /// C02: from the point where the (possibly absent) authentication cookie is known up to the Encryption Request
    pub open spec fn step_pre_enc(cfg: Cfg, d: D, cookie: Option<Seq<u8>>, clock: Option<u64>, e: Ev) -> L {
        match e {
            Ev::Clock(t) => L::PreEnc { d, cookie, clock: Some(t) },
            Ev::Send(Sent::EncryptionRequest { server_id, public_key, verify_token, should_authenticate }) => {
                let accept = cookie_accept(cfg, d, cookie, clock);
                if public_key != pub_key() { L::Bad }
                // C01: the verify token issued on this connection is a fresh draw from the OS RNG (never a constant, a reused or a derived value)
                else if !from_os_rng(verify_token) { L::Bad }
                // authentication is skipped exactly for a valid, unexpired, same-IP signed cookie
                else if should_authenticate != !accept { L::Bad }
                else if accept {
                    let ck = cookie_of(cookie);
                    L::EncSent { d: D { name: ck.user_name@, id: ck.user_id, props: ck.profile_properties, should_auth: false, ..d }, token: verify_token }
                } else { L::EncSent { d: D { should_auth: true, ..d }, token: verify_token } }
            },
            _ => L::Bad,
        }
    }

    #[verifier::opaque]
    pub open spec fn st(cfg: Cfg, ev: Seq<Ev>) -> L
        decreases ev.len()
    {
        if ev.len() == 0 { L::Start } else { step(cfg, st(cfg, ev.drop_last()), ev.last()) }
    }

    pub open spec fn key_of(s: L) -> Option<Seq<u8>> {
        match s {
            L::LoggedIn { d } => Some(d.ss),
            L::Config { d } => Some(d.ss),
            L::Info { d, .. } => Some(d.ss),
            _ => None,
        }
    }

    pub broadcast proof fn lemma_st_pushed_b(cfg: Cfg, old_ev: Seq<Ev>, new_ev: Seq<Ev>, e: Ev)
        requires #[trigger] pushed(old_ev, new_ev, e)
        ensures #[trigger] st(cfg, new_ev) == step(cfg, st(cfg, old_ev), e)
    { lemma_st_pushed(cfg, old_ev, new_ev, e); }

    /// `receive_packet(true)` while the automaton is in `Config` (trigger form, no hint needed at `?` exits)
    pub broadcast proof fn lemma_config_recv_b(cfg: Cfg, ev0: Seq<Ev>, ev1: Seq<Ev>, ok: Option<(VarInt, Seq<u8>)>, missed: bool)
        requires #[trigger] recv_ka(ev0, ev1, ok, missed, cfg.locale0), st(cfg, ev0) is Config
        ensures
            ok matches Some(f) ==> #[trigger] st(cfg, ev1) == step(cfg, st(cfg, ev0), Ev::Recv(f.0, f.1)),
            ok is None ==> st(cfg, ev1) == st(cfg, ev0) || st(cfg, ev1) == L::Done,
    {
        let d = st(cfg, ev0)->Config_d;
        lemma_config_recv(cfg, d, ev0, ev1, ok, missed);
    }
    /// `keep_alive()` while routing runs
    pub broadcast proof fn lemma_info_service_b(cfg: Cfg, ev0: Seq<Ev>, ev1: Seq<Ev>, loc: Option<Seq<char>>)
        requires #[trigger] ka_service(ev0, ev1, loc),
            st(cfg, ev0) matches L::Info { d, locale, stage } && stage == 0 && (loc == Some(locale) || loc == cfg.locale0),
        ensures #[trigger] st(cfg, ev1) == st(cfg, ev0) || st(cfg, ev1) == L::Done
    { lemma_info_service(cfg, st(cfg, ev0), ev0, ev1, loc); }

    pub proof fn lemma_st_push(cfg: Cfg, ev: Seq<Ev>, e: Ev)
        ensures st(cfg, ev.push(e)) == step(cfg, st(cfg, ev), e)
    {
        reveal(st);
        assert(ev.push(e).drop_last() =~= ev);
    }
    pub proof fn lemma_st_empty(cfg: Cfg, ev: Seq<Ev>)
        requires ev.len() == 0
        ensures st(cfg, ev) == L::Start
    { reveal(st); }
    pub proof fn lemma_st_pushed(cfg: Cfg, old_ev: Seq<Ev>, new_ev: Seq<Ev>, e: Ev)
        requires pushed(old_ev, new_ev, e)
        ensures st(cfg, new_ev) == step(cfg, st(cfg, old_ev), e)
    {
        assert(new_ev =~= old_ev.push(e));
        lemma_st_push(cfg, old_ev, e);
    }

    /// keep-alive traffic in the configuration phase leaves the automaton in `Config`
    pub proof fn lemma_config_mid(cfg: Cfg, d: D, ev0: Seq<Ev>, ev1: Seq<Ev>)
        requires st(cfg, ev0) == (L::Config { d }), extends(ev0, ev1),
            forall |i: int| ev0.len() <= i < ev1.len() ==> #[trigger] ka_kind(ev1[i]),
        ensures st(cfg, ev1) == (L::Config { d })
        decreases ev1.len()
    {
        reveal(st);
        if ev1.len() == ev0.len() { assert(ev1 =~= ev0); }
        else {
            let p = ev1.drop_last();
            assert(extends(ev0, p));
            assert forall |i: int| ev0.len() <= i < p.len() implies #[trigger] ka_kind(p[i]) by { assert(p[i] == ev1[i]); assert(ka_kind(ev1[i])); }
            lemma_config_mid(cfg, d, ev0, p);
            assert(ka_kind(ev1[ev1.len() - 1]));
        }
    }
    /// `receive_packet(true)` in the configuration phase
    pub proof fn lemma_config_recv(cfg: Cfg, d: D, ev0: Seq<Ev>, ev1: Seq<Ev>, ok: Option<(VarInt, Seq<u8>)>, missed: bool)
        requires st(cfg, ev0) == (L::Config { d }), recv_ka(ev0, ev1, ok, missed, cfg.locale0),
        ensures
            ok matches Some(f) ==> st(cfg, ev1) == step(cfg, L::Config { d }, Ev::Recv(f.0, f.1)),
            ok is None ==> st(cfg, ev1) == (L::Config { d }) || st(cfg, ev1) == L::Done,
    {
        reveal(st);
        if ev1.len() == ev0.len() { assert(ev1 =~= ev0); }
        else {
            let p = ev1.drop_last();
            let last = ev1[ev1.len() - 1];
            assert(extends(ev0, p));
            if ka_kind(last) {
                assert forall |i: int| ev0.len() <= i < ev1.len() implies #[trigger] ka_kind(ev1[i]) by {
                    if i < ev1.len() - 1 { assert(ka_kind(ev1[i]) || i == ev1.len() - 1); }
                }
                lemma_config_mid(cfg, d, ev0, ev1);
                // a Tick / KeepAlive is never a Recv: ok must be None in this case
            } else {
                assert forall |i: int| ev0.len() <= i < p.len() implies #[trigger] ka_kind(p[i]) by { assert(p[i] == ev1[i]); assert(ka_kind(ev1[i]) || i == ev1.len() - 1); }
                lemma_config_mid(cfg, d, ev0, p);
            }
        }
    }
    /// keep-alive service while routing runs leaves the automaton in `Info` (or ends it with the timeout Disconnect)
    pub proof fn lemma_info_service(cfg: Cfg, s: L, ev0: Seq<Ev>, ev1: Seq<Ev>, loc: Option<Seq<char>>)
        requires st(cfg, ev0) == s, s matches L::Info { d, locale, stage } && stage == 0 && (loc == Some(locale) || loc == cfg.locale0),
            ka_service(ev0, ev1, loc),
        ensures st(cfg, ev1) == s || st(cfg, ev1) == L::Done
        decreases ev1.len()
    {
        reveal(st);
        if ev1.len() == ev0.len() { assert(ev1 =~= ev0); }
        else {
            let p = ev1.drop_last();
            let last = ev1[ev1.len() - 1];
            assert(extends(ev0, p));
            assert forall |i: int| ev0.len() <= i < p.len() implies #[trigger] ka_mid_kind(p[i]) by { assert(p[i] == ev1[i]); assert(ka_mid_kind(ev1[i]) || i == ev1.len() - 1); }
            lemma_info_mid(cfg, s, ev0, p);
            assert(ka_mid_kind(last) || timeout_disc(last, loc));
        }
    }
    pub proof fn lemma_info_mid(cfg: Cfg, s: L, ev0: Seq<Ev>, ev1: Seq<Ev>)
        requires st(cfg, ev0) == s, s matches L::Info { d, locale, stage } && stage == 0, extends(ev0, ev1),
            forall |i: int| ev0.len() <= i < ev1.len() ==> #[trigger] ka_mid_kind(ev1[i]),
        ensures st(cfg, ev1) == s
        decreases ev1.len()
    {
        reveal(st);
        if ev1.len() == ev0.len() { assert(ev1 =~= ev0); }
        else {
            let p = ev1.drop_last();
            assert(extends(ev0, p));
            assert forall |i: int| ev0.len() <= i < p.len() implies #[trigger] ka_mid_kind(p[i]) by { assert(p[i] == ev1[i]); assert(ka_mid_kind(ev1[i])); }
            lemma_info_mid(cfg, s, ev0, p);
            assert(ka_mid_kind(ev1[ev1.len() - 1]));
        }
    }

    /// C10 (second half): a cookie issued by the automaton's rule is accepted on the next transfer from the same IP
    /// within the expiry, and yields the same identity. Needs only that JSON parsing inverts JSON printing.
    pub proof fn lemma_c10_reaccept(cfg: Cfg, d: D, t: Target, ts: u64, k: Seq<u8>, cfg2: Cfg, d2: D, now2: u64)
        requires
            cfg.secret == Some(k), cfg2.secret == Some(k), cfg2.addr.ipaddr == cfg.addr.ipaddr, d2.transfer,
            ts + cfg2.expiry >= now2,
            // assumption on serde_json: parse(print(v)) yields a cookie with the same content
            forall |v: AuthView| (#[trigger] parse_auth(encode_utf8(json_auth(v)))) matches Ok(c) && auth_view(c) == v,
        ensures
            cookie_accept(cfg2, d2, Some(auth_cookie_payload(cfg, d, t, ts, k)), Some(now2)), // @cl:C10.reaccept.accepted
            cookie_of(Some(auth_cookie_payload(cfg, d, t, ts, k))).user_name@ == d.name, // @cl:C10.reaccept.same_name
            cookie_of(Some(auth_cookie_payload(cfg, d, t, ts, k))).user_id == d.id, // @cl:C10.reaccept.same_id
    {
        let v = AuthView { timestamp: ts, client_addr: cfg.addr, user_name: d.name, user_id: d.id, target: Some(t.identifier@), props: d.props, extra: default_extra() };
        let m = encode_utf8(json_auth(v));
        lemma_sign_then_verify(m, k);
        let c = auth_cookie_payload(cfg, d, t, ts, k);
        assert(c == signed_with(m, k));
        assert(parse_auth(m) matches Ok(ck) && auth_view(ck) == v);
    }
