// U1: packet traits. `Packet`, `WritePacket`, `ReadPacket` mirror the traits of passage-packets/src/lib.rs
// (async erased, S := Vec<u8> / Reader); the contracts on them are the C09 statement per packet.
verus! {

pub trait Packet { const ID: VarInt; }

/// Abstract (typed) view of the clientbound packets the router sends; the vocabulary of the
/// connection-level properties (C01, C02, C03, C06, C07, C10).
pub enum Sent {
    StatusResponse { body: Seq<char> },
    Pong { payload: u64 },
    LoginCookieRequest { key: Seq<char> },
    EncryptionRequest { server_id: Seq<char>, public_key: Seq<u8>, verify_token: Seq<u8>, should_authenticate: bool },
    LoginSuccess { user_name: Seq<char>, user_id: Uuid },
    KeepAlive { id: u64 },
    Disconnect { reason: Seq<char> },
    StoreCookie { key: Seq<char>, payload: Seq<u8> },
    Transfer { host: Seq<char>, port: u16 },
    Other { id: int, body: Seq<u8> },
}

/// Protocol-side description of a packet type (from contracts.toml, written from the protocol).
pub trait WireSpec: Sized {
    /// wire layout of the packet body followed by `tail` (right-nested so that decoders compose)
    spec fn enc_then(&self, tail: Seq<u8>) -> Seq<u8>;
    /// field values within protocol limits
    spec fn in_limits(&self) -> bool;
    /// field-wise equality of the decoded value and the original
    spec fn same(&self, o: &Self) -> bool;
    /// the packet id the protocol assigns
    spec fn proto_id() -> int;
    /// typed abstract view (only meaningful for the packets the router sends)
    spec fn view_sent(&self) -> Sent;
}

pub trait WritePacket: Packet + WireSpec {
    fn write_to_buffer(&self, buffer: &mut Vec<u8>) -> (r: Result<(), Error>)
        ensures
            self.in_limits() ==> r is Ok, // @cl:C09.packet.write.ok
            self.in_limits() ==> final(buffer)@ == old(buffer)@ + self.enc_then(Seq::empty()), // @cl:C09.packet.write.layout
    ;
}

pub trait ReadPacket: Packet + WireSpec {
    fn read_from_buffer(buffer: &mut Reader) -> (r: Result<Self, Error>)
        requires
            old(buffer).wf(),
            old(buffer).rest().len() <= alloc_budget(),
        ensures
            final(buffer).advanced(old(buffer)), // @cl:C04+C09.packet.read.frame
            forall |p: Self, tail: Seq<u8>| old(buffer).rest() == #[trigger] p.enc_then(tail) && p.in_limits() ==> (r matches Ok(q) && q.same(&p)) && final(buffer).rest() == tail, // @cl:C09.packet.read.inverse
    ;
}

/// Decoding is a deterministic function of the bytes in the buffer. Used only by the connection-level units
/// (the interface variant of `ReadPacket::read_from_buffer` adds `r == decode_of::<Self>(rest)` as an assumption).
pub uninterp spec fn decode_of<T>(body: Seq<u8>) -> Result<T, Error>;

/// frame = VarInt(length of id + body) ++ VarInt(id) ++ body
pub open spec fn frame(id: VarInt, body: Seq<u8>) -> Seq<u8> {
    enc_varint((enc_varint(id).len() + body.len()) as i32) + (enc_varint(id) + body)
}

} // verus!
