// U1: packet traits. `Packet`, `WritePacket`, `ReadPacket` mirror the traits of passage-packets/src/lib.rs
// (async erased, S := Vec<u8> / Reader); the contracts on them are the C09 statement per packet.
verus! {

pub trait Packet { const ID: VarInt; }

/// Protocol-side description of a packet type (from contracts.toml, written from the protocol).
pub trait WireSpec: Sized {
    /// wire layout of the packet body followed by `tail` (right-nested so that decoders compose)
    spec fn enc_then(&self, tail: Seq<u8>) -> Seq<u8>;
    /// field values within protocol limits
    spec fn in_limits(&self) -> bool;
    /// field-wise equality of the decoded value and the original
    spec fn same(&self, o: &Self) -> bool;
    /// the packet id the protocol assigns
    spec fn proto_id() -> int;
}

pub trait WritePacket: Packet + WireSpec {
    fn write_to_buffer(&self, buffer: &mut Vec<u8>) -> (r: Result<(), Error>)
        requires
            self.in_limits(),
        ensures
            r is Ok, // @cl:C09.packet.write.ok
            final(buffer)@ == old(buffer)@ + self.enc_then(Seq::empty()), // @cl:C09.packet.write.layout
    ;
}

pub trait ReadPacket: Packet + WireSpec {
    fn read_from_buffer(buffer: &mut Reader) -> (r: Result<Self, Error>)
        requires
            old(buffer).wf(),
            old(buffer).rest().len() <= alloc_budget(),
        ensures
            final(buffer).advanced(old(buffer)), // @cl:C04+C09.packet.read.frame
            forall |p: Self, tail: Seq<u8>| old(buffer).rest() == #[trigger] p.enc_then(tail) && p.in_limits() ==> (r matches Ok(q) && q.same(&p)) && final(buffer).rest() == tail, // @cl:C09.packet.read.inverse
    ;
}

/// frame = VarInt(length of id + body) ++ VarInt(id) ++ body
pub open spec fn frame(id: VarInt, body: Seq<u8>) -> Seq<u8> {
    enc_varint((enc_varint(id).len() + body.len()) as i32) + (enc_varint(id) + body)
}

} // verus!
