// U1: enum ordinal tables, written from the protocol description (not from the code). The real
// `From`/`TryFrom` impls of passage-packets/src/lib.rs are extracted next to these and Verus checks each
// against the table through vstd's From/TryFrom specification traits.
verus! {

pub open spec fn state_ord(s: State) -> VarInt { match s { State::Status => 1, State::Login => 2, State::Transfer => 3 } }
pub open spec fn state_of(v: VarInt) -> Result<State, Error> {
    if v == 1 { Ok(State::Status) } else if v == 2 { Ok(State::Login) } else if v == 3 { Ok(State::Transfer) }
    else { Err(Error::IllegalEnumValue { kind: "State", value: v }) }
}
impl vstd::std_specs::convert::FromSpecImpl<State> for VarInt { open spec fn obeys_from_spec() -> bool { true } open spec fn from_spec(s: State) -> VarInt { state_ord(s) } }
impl vstd::std_specs::convert::TryFromSpecImpl<VarInt> for State { open spec fn obeys_try_from_spec() -> bool { true } open spec fn try_from_spec(v: VarInt) -> Result<State, Error> { state_of(v) } }

pub open spec fn rpr_ord(s: ResourcePackResult) -> VarInt { match s {
    ResourcePackResult::Success => 0, ResourcePackResult::Declined => 1, ResourcePackResult::DownloadFailed => 2, ResourcePackResult::Accepted => 3,
    ResourcePackResult::Downloaded => 4, ResourcePackResult::InvalidUrl => 5, ResourcePackResult::ReloadFailed => 6, ResourcePackResult::Discorded => 7 } }
pub open spec fn rpr_of(v: VarInt) -> Result<ResourcePackResult, Error> {
    if v == 0 { Ok(ResourcePackResult::Success) } else if v == 1 { Ok(ResourcePackResult::Declined) } else if v == 2 { Ok(ResourcePackResult::DownloadFailed) }
    else if v == 3 { Ok(ResourcePackResult::Accepted) } else if v == 4 { Ok(ResourcePackResult::Downloaded) } else if v == 5 { Ok(ResourcePackResult::InvalidUrl) }
    else if v == 6 { Ok(ResourcePackResult::ReloadFailed) } else if v == 7 { Ok(ResourcePackResult::Discorded) }
    else { Err(Error::IllegalEnumValue { kind: "ResourcePackResult", value: v }) }
}
impl vstd::std_specs::convert::FromSpecImpl<ResourcePackResult> for VarInt { open spec fn obeys_from_spec() -> bool { true } open spec fn from_spec(s: ResourcePackResult) -> VarInt { rpr_ord(s) } }
impl vstd::std_specs::convert::TryFromSpecImpl<VarInt> for ResourcePackResult { open spec fn obeys_try_from_spec() -> bool { true } open spec fn try_from_spec(v: VarInt) -> Result<ResourcePackResult, Error> { rpr_of(v) } }

pub open spec fn chat_ord(s: ChatMode) -> VarInt { match s { ChatMode::Enabled => 0, ChatMode::CommandsOnly => 1, ChatMode::Hidden => 2 } }
pub open spec fn chat_of(v: VarInt) -> Result<ChatMode, Error> {
    if v == 0 { Ok(ChatMode::Enabled) } else if v == 1 { Ok(ChatMode::CommandsOnly) } else if v == 2 { Ok(ChatMode::Hidden) }
    else { Err(Error::IllegalEnumValue { kind: "ChatMode", value: v }) }
}
impl vstd::std_specs::convert::FromSpecImpl<ChatMode> for VarInt { open spec fn obeys_from_spec() -> bool { true } open spec fn from_spec(s: ChatMode) -> VarInt { chat_ord(s) } }
impl vstd::std_specs::convert::TryFromSpecImpl<VarInt> for ChatMode { open spec fn obeys_try_from_spec() -> bool { true } open spec fn try_from_spec(v: VarInt) -> Result<ChatMode, Error> { chat_of(v) } }

pub open spec fn hand_ord(s: MainHand) -> VarInt { match s { MainHand::Left => 0, MainHand::Right => 1 } }
pub open spec fn hand_of(v: VarInt) -> Result<MainHand, Error> {
    if v == 0 { Ok(MainHand::Left) } else if v == 1 { Ok(MainHand::Right) }
    else { Err(Error::IllegalEnumValue { kind: "MainHand", value: v }) }
}
impl vstd::std_specs::convert::FromSpecImpl<MainHand> for VarInt { open spec fn obeys_from_spec() -> bool { true } open spec fn from_spec(s: MainHand) -> VarInt { hand_ord(s) } }
impl vstd::std_specs::convert::TryFromSpecImpl<VarInt> for MainHand { open spec fn obeys_try_from_spec() -> bool { true } open spec fn try_from_spec(v: VarInt) -> Result<MainHand, Error> { hand_of(v) } }

pub open spec fn particle_ord(s: ParticleStatus) -> VarInt { match s { ParticleStatus::All => 0, ParticleStatus::Decreased => 1, ParticleStatus::Minimal => 2 } }
pub open spec fn particle_of(v: VarInt) -> Result<ParticleStatus, Error> {
    if v == 0 { Ok(ParticleStatus::All) } else if v == 1 { Ok(ParticleStatus::Decreased) } else if v == 2 { Ok(ParticleStatus::Minimal) }
    else { Err(Error::IllegalEnumValue { kind: "ParticleStatus", value: v }) }
}
impl vstd::std_specs::convert::FromSpecImpl<ParticleStatus> for VarInt { open spec fn obeys_from_spec() -> bool { true } open spec fn from_spec(s: ParticleStatus) -> VarInt { particle_ord(s) } }
impl vstd::std_specs::convert::TryFromSpecImpl<VarInt> for ParticleStatus { open spec fn obeys_try_from_spec() -> bool { true } open spec fn try_from_spec(v: VarInt) -> Result<ParticleStatus, Error> { particle_of(v) } }

// C09: ordinals outside the defined range are rejected, and try_from inverts from (spec level, for all values)
pub proof fn lemma_enum_tables()
    ensures
        forall |s: State| state_of(state_ord(s)) == Ok::<State, Error>(s), // @cl:C09.enum.State.inverse
        forall |v: VarInt| !(1 <= v <= 3) ==> state_of(v) is Err, // @cl:C09.enum.State.reject
        forall |s: ResourcePackResult| rpr_of(rpr_ord(s)) == Ok::<ResourcePackResult, Error>(s), // @cl:C09.enum.ResourcePackResult.inverse
        forall |v: VarInt| !(0 <= v <= 7) ==> rpr_of(v) is Err, // @cl:C09.enum.ResourcePackResult.reject
        forall |s: ChatMode| chat_of(chat_ord(s)) == Ok::<ChatMode, Error>(s), // @cl:C09.enum.ChatMode.inverse
        forall |v: VarInt| !(0 <= v <= 2) ==> chat_of(v) is Err, // @cl:C09.enum.ChatMode.reject
        forall |s: MainHand| hand_of(hand_ord(s)) == Ok::<MainHand, Error>(s), // @cl:C09.enum.MainHand.inverse
        forall |v: VarInt| !(0 <= v <= 1) ==> hand_of(v) is Err, // @cl:C09.enum.MainHand.reject
        forall |s: ParticleStatus| particle_of(particle_ord(s)) == Ok::<ParticleStatus, Error>(s), // @cl:C09.enum.ParticleStatus.inverse
        forall |v: VarInt| !(0 <= v <= 2) ==> particle_of(v) is Err, // @cl:C09.enum.ParticleStatus.reject
{
}

} // verus!
