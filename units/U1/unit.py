"""U1 — codec: reader/writer primitives, enum tables, all packet (de)serialisers of passage-packets."""
import os
import re
import sys

HERE = os.path.dirname(os.path.abspath(__file__))
sys.path.insert(0, os.path.join(HERE, "..", "..", "lib"))
import vxlib  # noqa: E402

NAME = "U1"
RLIMIT = 30
PROPS = ["C09", "C04"]

PK = "passage-packets/src/"
ERR_SUBST = {
    "std::io::Error": "IoError",
    "serde_json::error::Error": "JsonError",
    "fastnbt::error::Error": "NbtError",
}
FN_RULES = ["deasync", "attrs", "closure_wild", "generics", "vec_alloc", "str_pattern", "take_read", "statics"]
# decoding paths: capacity requests sized by client input carry the C04 allocation bound too (R19b)
RD_RULES = FN_RULES + ["alloc_reserve"]
STATICS = {"std::io::ErrorKind::UnexpectedEof.into()": "vx_eof_error()"}

READER_FNS = ["read_varint", "read_varlong", "read_string", "read_bool", "read_uuid", "read_text_component", "read_bytes"]
WRITER_FNS = ["write_packet", "write_varint", "write_varlong", "write_string", "write_uuid", "write_bool", "write_text_component", "write_bytes"]
ENUMS = ["State", "ResourcePackResult", "ChatMode", "MainHand", "ParticleStatus"]
# spec tables of enums.rs (ordinal-of, value-of)
ENUM_SPEC = {"State": ("state_ord", "state_of"), "ResourcePackResult": ("rpr_ord", "rpr_of"), "ChatMode": ("chat_ord", "chat_of"),
             "MainHand": ("hand_ord", "hand_of"), "ParticleStatus": ("particle_ord", "particle_of")}


def read_text(name):
    with open(os.path.join(HERE, name)) as f:
        return f.read()


PACKET_FILES = ["handshake", "status", "login", "configuration"]


def same_expr(fields):
    parts = []
    for name, ty in fields:
        t = ty.replace(" ", "")
        f = name if name else "0"
        if t in ("String", "Vec<u8>", "VerifyToken"):
            parts.append(f"self.{f}@ == o.{f}@")
        elif t in ("Option<Vec<u8>>", "Option<String>"):
            parts.append(f"(match (self.{f}, o.{f}) {{ (Some(a), Some(b)) => a@ == b@, (None, None) => true, _ => false }})")
        else:
            parts.append(f"self.{f} == o.{f}")
    return " && ".join(parts) if parts else "true"


def discover_packets():
    """All `impl Packet for X` of the four packet files, with module path."""
    out = []
    for pf in PACKET_FILES:
        for it in vxlib.vx_list(PK + pf + ".rs"):
            if it["kind"] == "impl" and it["trait_"] == "Packet":
                out.append((pf, it["modpath"], it["self_ty"]))
    return out


def build(vacuity=False, only=None, interface=False):
    """interface=True: same text, but every extracted function is emitted as external_body with its U1 contract
    (used by the units that *call* the codec; the contracts are proved here, in U1)."""
    vxlib.reset_vac()
    C = vxlib.load_contracts(os.path.join(HERE, "contracts.toml"))
    fnc = {k: vxlib.FnContract(k, v) for k, v in C.get("fn", {}).items()}
    pkc = C.get("packet", {})
    u = vxlib.Unit(NAME)
    u.default_props = ["C04"]

    items = []
    # --- plain items of lib.rs
    for n in ["VarInt", "VarLong", "VerifyToken"]:
        items.append({"key": f"type.{n}", "file": PK + "lib.rs", "kind": "type", "name": n, "rules": ["attrs"]})
    items.append({"key": "const.INITIAL_BUFFER_SIZE", "file": PK + "lib.rs", "kind": "const", "name": "INITIAL_BUFFER_SIZE", "rules": ["attrs"]})
    items.append({"key": "enum.Error", "file": PK + "lib.rs", "kind": "enum", "name": "Error", "rules": ["attrs", "generics"], "subst": ERR_SUBST})
    items.append({"key": "struct.DisplayedSkinParts", "file": PK + "lib.rs", "kind": "struct", "name": "DisplayedSkinParts", "rules": ["attrs"]})
    for e in ENUMS:
        items.append({"key": f"enum.{e}", "file": PK + "lib.rs", "kind": "enum", "name": e, "rules": ["attrs"]})
        items.append({"key": f"enum.{e}.from", "file": PK + "lib.rs", "kind": "impl_fn", "self_ty": "VarInt", "trait": f"From<{e}>", "name": "from", "rules": ["attrs"],
                      "anchors": ["fn:begin"] if vacuity else []})
        items.append({"key": f"enum.{e}.try_from", "file": PK + "lib.rs", "kind": "impl_fn", "self_ty": e, "trait": "TryFrom<VarInt>", "name": "try_from", "rules": ["attrs"],
                      "anchors": ["fn:begin"] if vacuity else []})
    # --- reader / writer fns
    for f in READER_FNS:
        key = f"reader.{f}"
        items.append({"key": key, "file": PK + "reader.rs", "kind": "impl_fn", "trait": "AsyncReadPacket", "name": f,
                      "rules": RD_RULES, "statics": STATICS, "anchors": vxlib.anchors_for(fnc[key], vacuity)})
    for f in WRITER_FNS:
        key = f"writer.{f}"
        items.append({"key": key, "file": PK + "writer.rs", "kind": "impl_fn", "trait": "AsyncWritePacket", "name": f,
                      "rules": FN_RULES, "anchors": vxlib.anchors_for(fnc[key], vacuity)})
    # --- every module-level const of the packet files (new named limits etc.)
    pconsts = {}
    for pf in PACKET_FILES:
        ci, where = vxlib.const_items(PK + pf + ".rs")
        items += ci
        for modpath, key in where:
            pconsts.setdefault((pf,) + modpath, []).append(key)
    # --- packets
    packets = discover_packets()
    empty = vxlib.FnContract("_", {})
    for pf, modpath, ty in packets:
        pk = ".".join([pf] + modpath + [ty])
        base = {"file": PK + pf + ".rs", "modpath": modpath}
        items.append({**base, "key": f"{pk}.struct", "kind": "struct", "name": ty, "rules": ["attrs"]})
        items.append({**base, "key": f"{pk}.ID", "kind": "impl_const", "self_ty": ty, "trait": "Packet", "name": "ID", "rules": ["attrs"]})
        anch = ["fn:begin"] if vacuity else []
        items.append({**base, "key": f"{pk}.write_to_buffer", "kind": "impl_fn", "self_ty": ty, "trait": "WritePacket", "name": "write_to_buffer",
                      "rules": FN_RULES, "subst": {"S": "Vec<u8>"}, "drop_generics": ["S"], "anchors": ["fn:begin"]})
        items.append({**base, "key": f"{pk}.read_from_buffer", "kind": "impl_fn", "self_ty": ty, "trait": "ReadPacket", "name": "read_from_buffer",
                      "rules": RD_RULES, "subst": {"S": "Reader"}, "drop_generics": ["S"], "anchors": anch})
    ex = vxlib.run_vx(items)

    u.raw(read_text("prelude.rs"))
    u.raw(read_text("lemmas.rs"))
    if vacuity:
        u.raw(vxlib.VAC_PRELUDE)
    u.raw("verus! {\n")
    for n in ["VarInt", "VarLong", "VerifyToken"]:
        u.add_item_text(ex[f"type.{n}"])
    u.add_item_text(ex["const.INITIAL_BUFFER_SIZE"])
    u.add_item_text(ex["enum.Error"])
    u.raw("#[derive(Clone, Copy, PartialEq, Eq, Structural)]\n")
    u.add_item_text(ex["struct.DisplayedSkinParts"])
    for e in ENUMS:
        u.raw("#[derive(Clone, Copy, PartialEq, Eq, Structural)]\n")
        u.add_item_text(ex[f"enum.{e}"])
        ordf, off = ENUM_SPEC[e]
        fi = ex[f"enum.{e}.from"]
        pname = re.search(r"fn from\((\w+):", fi["sig"]).group(1)
        fc = vxlib.FnContract(f"enum.{e}.from", {"props": ["C09"], "ensures": [
            {"id": f"C09.enum.{e}.from_table", "props": ["C09"], "text": f"r == {ordf}({pname})"}]})
        u.raw(f"pub mod enum_impl_{e} {{\n    use super::*;\n")
        u.modules.append(f"enum_impl_{e}")
        u.raw(f"impl From<{e}> for VarInt {{\n")
        u.add_fn(fi, fc, mode=("external" if interface else "verify"), vacuity=vacuity, indent="    ")
        u.raw("}\n")
        ti = ex[f"enum.{e}.try_from"]
        tname = re.search(r"fn try_from\((\w+):", ti["sig"]).group(1)
        tc = vxlib.FnContract(f"enum.{e}.try_from", {"props": ["C09"], "ensures": [
            {"id": f"C09.enum.{e}.try_from_table", "props": ["C09"], "text": f"r == {off}({tname})"}]})
        u.raw(f"impl TryFrom<VarInt> for {e} {{\n    type Error = Error;\n")
        u.add_fn(ti, tc, mode=("external" if interface else "verify"), vacuity=vacuity, indent="    ")
        u.raw("}\n}\n")
    u.raw("} // verus!\n")
    u.raw(read_text("enums.rs"))
    traits = read_text("traits.rs")
    if interface:
        # assumption for callers: decoding is a function of the buffer contents
        marker = "forall |p: Self, tail: Seq<u8>| old(buffer).rest() == #[trigger] p.enc_then(tail)"
        assert marker in traits
        traits = traits.replace("            " + marker, "            r == decode_of::<Self>(old(buffer).rest()), // @cl:assume.packet.read.deterministic\n            " + marker)
    u.raw(traits)
    u.raw("verus! {\n")

    # reader
    u.modules += ["reader", "writer"]
    u.raw("pub mod reader {\n    use super::*;\n    use super::fastnbt::{DeOpts, Value};\n    impl Reader {\n")
    for f in READER_FNS:
        key = f"reader.{f}"
        ex[key]["vis"] = "pub"  # trait methods are public; emitted here as inherent methods of the model reader
        u.add_fn(ex[key], fnc[key], mode=("external" if interface else "verify"), vacuity=vacuity, indent="        ")
    u.raw("    }\n}\n")

    # writer: trait declaration carries the contracts, the impl for Vec<u8> carries the real bodies
    u.raw("pub trait AsyncWritePacket: AsyncWriteExt {\n")
    for f in WRITER_FNS:
        key = f"writer.{f}"
        u.add_fn(ex[key], fnc[key], mode="decl", indent="    ")
    u.raw("}\n")
    u.raw("pub mod writer {\n    use super::*;\n    use super::fastnbt::SerOpts;\n    use super::serde_json::Value;\n    impl AsyncWritePacket for Vec<u8> {\n")
    for f in WRITER_FNS:
        key = f"writer.{f}"
        u.add_fn(ex[key], fnc[key], mode=("body_external" if interface else "body"), vacuity=vacuity, indent="        ")
    u.raw("    }\n}\n")

    # packets, in their real module structure
    by_mod = {}
    for pf, modpath, ty in packets:
        by_mod.setdefault((pf,) + tuple(modpath), []).append(ty)
    files = {}
    for path, tys in by_mod.items():
        files.setdefault(path[0], []).append((path[1:], tys))
    for pf, mods in files.items():
        u.raw(f"pub mod {pf} {{\n    use super::*;\n")
        for key in pconsts.get((pf,), []):
            u.add_item_text(ex[key])
        for modpath, tys in mods:
            for m in modpath:
                u.raw(f"    pub mod {m} {{\n    use super::*;\n")
            u.modules.append("::".join([pf] + list(modpath)))
            for key in pconsts.get((pf,) + tuple(modpath), []):
                u.add_item_text(ex[key])
            for ty in tys:
                pk = ".".join([pf] + list(modpath) + [ty])
                st = ex[f"{pk}.struct"]
                pc = pkc.get(pk)
                if pc is None:
                    if st["fields"]:
                        raise vxlib.ToolTrouble(f"packet {pk} has fields but no layout contract in contracts.toml")
                    pc = {}
                if "id" not in pc:
                    raise vxlib.ToolTrouble(f"packet {pk} has no protocol id in contracts.toml")
                enc = pc.get("enc", "tail")
                limits = pc.get("limits", "true")
                u.add_item_text(st)
                u.raw(f"    impl Packet for {ty} {{\n")
                u.add_item_text(ex[f"{pk}.ID"])
                u.raw("    }\n")
                u.raw(f"    impl WireSpec for {ty} {{\n"
                      f"        open spec fn enc_then(&self, tail: Seq<u8>) -> Seq<u8> {{ {enc} }}\n"
                      f"        open spec fn in_limits(&self) -> bool {{ {limits} }}\n"
                      f"        open spec fn same(&self, o: &Self) -> bool {{ {same_expr(st['fields'])} }}\n"
                      f"        open spec fn proto_id() -> int {{ {pc['id']} }}\n"
                      f"        open spec fn view_sent(&self) -> Sent {{ {pc.get('view', 'Sent::Other { id: Self::proto_id(), body: self.enc_then(Seq::empty()) }')} }}\n"
                      f"    }}\n")
                cid = f"C09.{pk}.id"
                u.add_clause(vxlib.Clause(cid, "ensures", "id", ["C09"], f"{pk}.ID"))
                u.raw(f"    // @fn-begin:{pk}.ID src={ex[pk + '.ID']['file']}:{ex[pk + '.ID']['line_start']}-{ex[pk + '.ID']['line_end']} mode=verify\n"
                      f"    pub proof fn vx_id_check_{ty}()\n        ensures\n"
                      f"            <{ty} as Packet>::ID == <{ty} as WireSpec>::proto_id(), // @cl:{cid}\n    {{}}\n"
                      f"    // @fn-end:{pk}.ID\n")
                u.fn_meta[f"{pk}.ID"] = {"file": ex[pk + ".ID"]["file"], "lines": [ex[pk + ".ID"]["line_start"], ex[pk + ".ID"]["line_end"]], "mode": "verify", "props": ["C09"], "loops": 0, "rules": {}}
                hint = {"fn:begin": "broadcast use {lemma_add_assoc, lemma_add_empty};"} if st["fields"] else {}
                wc = vxlib.FnContract(f"{pk}.write_to_buffer", {"props": ["C04", "C09"], "proof": hint})
                rc = vxlib.FnContract(f"{pk}.read_from_buffer", {"props": ["C04", "C09"]})
                u.raw(f"    impl WritePacket for {ty} {{\n")
                u.add_fn(ex[f"{pk}.write_to_buffer"], wc, mode=("body_external" if interface else "body"), vacuity=vacuity, indent="        ")
                u.raw("    }\n")
                u.raw(f"    impl ReadPacket for {ty} {{\n")
                rmode = "body_external" if interface else "body"
                if pc.get("read") == "unsupported":
                    rmode = "body_external"
                    u.trusted_notes.append(f"{pk}.read_from_buffer NOT under contract (left as external_body): {pc.get('read_note', '')}")
                u.add_fn(ex[f"{pk}.read_from_buffer"], rc, mode=rmode, vacuity=vacuity, indent="        ")
                u.raw("    }\n")
            for m in modpath:
                u.raw("    }\n")
        u.raw("}\n")
    if interface:
        u.raw("} // verus!\n")
        u.modules = []
        return u
    u.raw("} // verus!\nfn main() {}\n")
    return u
