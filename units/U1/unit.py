"""U1 — codec: reader/writer primitives, enum tables, all packet (de)serialisers of passage-packets."""
import os
import sys

HERE = os.path.dirname(os.path.abspath(__file__))
sys.path.insert(0, os.path.join(HERE, "..", "..", "lib"))
import vxlib  # noqa: E402

NAME = "U1"
PROPS = ["C09", "C04"]

PK = "passage-packets/src/"
ERR_SUBST = {
    "std::io::Error": "IoError",
    "serde_json::error::Error": "JsonError",
    "fastnbt::error::Error": "NbtError",
}
FN_RULES = ["deasync", "attrs", "closure_wild", "generics", "vec_alloc", "str_pattern"]

READER_FNS = ["read_varint", "read_varlong", "read_string", "read_bool", "read_uuid", "read_text_component", "read_bytes"]
WRITER_FNS = ["write_packet", "write_varint", "write_varlong", "write_string", "write_uuid", "write_bool", "write_text_component", "write_bytes"]
ENUMS = ["State", "ResourcePackResult", "ChatMode", "MainHand", "ParticleStatus"]


def read_text(name):
    with open(os.path.join(HERE, name)) as f:
        return f.read()


def build(vacuity=False, only=None):
    vxlib.reset_vac()
    C = vxlib.load_contracts(os.path.join(HERE, "contracts.toml"))
    fnc = {k: vxlib.FnContract(k, v) for k, v in C.get("fn", {}).items()}
    u = vxlib.Unit(NAME)
    u.default_props = ["C04"]

    items = []
    # --- plain items of lib.rs
    for n in ["VarInt", "VarLong", "VerifyToken"]:
        items.append({"key": f"type.{n}", "file": PK + "lib.rs", "kind": "type", "name": n, "rules": ["attrs"]})
    items.append({"key": "const.INITIAL_BUFFER_SIZE", "file": PK + "lib.rs", "kind": "const", "name": "INITIAL_BUFFER_SIZE", "rules": ["attrs"]})
    items.append({"key": "enum.Error", "file": PK + "lib.rs", "kind": "enum", "name": "Error", "rules": ["attrs", "generics"], "subst": ERR_SUBST})
    # --- reader fns
    for f in READER_FNS:
        key = f"reader.{f}"
        if key not in fnc:
            continue
        items.append({"key": key, "file": PK + "reader.rs", "kind": "impl_fn", "trait": "AsyncReadPacket", "name": f,
                      "rules": FN_RULES, "anchors": vxlib.anchors_for(fnc[key], vacuity)})
    ex = vxlib.run_vx(items)

    u.raw(read_text("prelude.rs"))
    u.raw(read_text("lemmas.rs"))
    if vacuity:
        u.raw(vxlib.VAC_PRELUDE)
    u.raw("verus! {\n")
    for n in ["VarInt", "VarLong", "VerifyToken"]:
        u.add_item_text(ex[f"type.{n}"])
    u.add_item_text(ex["const.INITIAL_BUFFER_SIZE"])
    u.add_item_text(ex["enum.Error"])

    # reader
    u.raw("pub mod reader {\n    use super::*;\n    use super::fastnbt::{DeOpts, Value};\n    impl Reader {\n")
    for f in READER_FNS:
        key = f"reader.{f}"
        if key in fnc:
            u.add_fn(ex[key], fnc[key], vacuity=vacuity, indent="        ")
    u.raw("    }\n}\n")
    u.raw("} // verus!\nfn main() {}\n")
    return u
