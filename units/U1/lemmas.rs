// U1 lemmas: VarInt/VarLong bit-level facts (all discharged by Verus, nothing assumed).
verus! {

// --- 32-bit ---------------------------------------------------------------------------
pub open spec fn enc_b(u: u32) -> Seq<u8>
    decreases u via enc_b_dec
{
    if u < 128 { seq![u as u8] } else { seq![((u & 0x7f) | 0x80) as u8] + enc_b(u >> 7) }
}
#[via_fn]
proof fn enc_b_dec(u: u32) { assert(u >= 128 ==> (u >> 7) < u) by (bit_vector); }

pub proof fn lemma_enc_b_nat(u: u32)
    ensures enc_b(u) == enc_nat(u as nat)
    decreases u
{
    if u < 128 {
    } else {
        assert((u >> 7) < u) by (bit_vector) requires u >= 128;
        assert(((u & 0x7f) | 0x80) == (u % 128) + 128) by (bit_vector);
        assert((u >> 7) == u / 128) by (bit_vector);
        lemma_enc_b_nat(u >> 7);
        assert(enc_b(u) =~= enc_nat(u as nat));
    }
}
pub proof fn lemma_varint_b(v: i32)
    ensures enc_varint(v) == enc_b(v as u32)
{
    assert(v >= 0 ==> (v as u32) as int == v as int) by (bit_vector);
    assert(v < 0 ==> (v as u32) as int == v as int + 0x1_0000_0000) by (bit_vector);
    lemma_enc_b_nat(v as u32);
}
pub proof fn lemma_enc_head(q: u32)
    ensures enc_b(q).len() >= 1,
        q < 128 ==> enc_b(q) =~= seq![q as u8],
        q >= 128 ==> enc_b(q)[0] == ((q & 0x7f) | 0x80) as u8 && enc_b(q).subrange(1, enc_b(q).len() as int) =~= enc_b(q >> 7)
{ reveal_with_fuel(enc_b, 2); }

pub open spec fn vi_state(v: i32, tail: Seq<u8>, i: int, ans: i32, rest: Seq<u8>) -> bool {
    &&& (ans as u32) == (v as u32) & (((1u32 << ((7 * i) as u32)) - 1) as u32)
    &&& rest == enc_b((v as u32) >> ((7 * i) as u32)) + tail
}
pub proof fn lemma_step(uu: u32, ans: i32, b: u8, i: i32)
    requires 0 <= i < 5,
        (ans as u32) == uu & (((1u32 << ((7 * i) as u32)) - 1) as u32),
        ({ let q = uu >> ((7 * i) as u32); if q < 128 { b == q as u8 } else { b == ((q & 0x7f) | 0x80) as u8 } }),
    ensures ({
        let q = uu >> ((7 * i) as u32);
        let r = ans | (((b & 0b0111_1111) as i32) << ((7 * i) as u32));
        &&& (q < 128 <==> b & 0b1000_0000 == 0)
        &&& (q < 128 ==> (r as u32) == uu)
        &&& (q >= 128 ==> i < 4 && (r as u32) == uu & (((1u32 << ((7 * (i + 1)) as u32)) - 1) as u32) && (q >> 7) == uu >> ((7 * (i + 1)) as u32))
    })
{
    assert(0 <= i < 5 && (ans as u32) == uu & (((1u32 << ((7 * i) as u32)) - 1) as u32)
        && (if (uu >> ((7 * i) as u32)) < 128 { b == (uu >> ((7 * i) as u32)) as u8 } else { b == (((uu >> ((7 * i) as u32)) & 0x7f) | 0x80) as u8 })
        ==> (((uu >> ((7 * i) as u32)) < 128) <==> (b & 0b1000_0000 == 0))
         && (((uu >> ((7 * i) as u32)) < 128) ==> ((ans | (((b & 0b0111_1111) as i32) << ((7 * i) as u32))) as u32) == uu)
         && (((uu >> ((7 * i) as u32)) >= 128) ==> i < 4 && ((ans | (((b & 0b0111_1111) as i32) << ((7 * i) as u32))) as u32) == uu & (((1u32 << ((7 * (i + 1)) as u32)) - 1) as u32) && ((uu >> ((7 * i) as u32)) >> 7) == uu >> ((7 * (i + 1)) as u32))
    ) by (bit_vector);
}
pub proof fn lemma_inj(a: i32, b: i32) ensures (a as u32) == (b as u32) ==> a == b
{ assert((a as u32) == (b as u32) ==> a == b) by (bit_vector); }
pub proof fn lemma_zero(uu: u32) ensures uu & (((1u32 << 0) - 1) as u32) == 0, (0i32 as u32) == 0, uu >> 0 == uu
{ assert(uu & (((1u32 << 0) - 1) as u32) == 0) by (bit_vector); assert((0i32 as u32) == 0) by (bit_vector); assert(uu >> 0 == uu) by (bit_vector); }

// --- 64-bit ---------------------------------------------------------------------------
pub open spec fn enc_b64(u: u64) -> Seq<u8>
    decreases u via enc_b64_dec
{
    if u < 128 { seq![u as u8] } else { seq![((u & 0x7f) | 0x80) as u8] + enc_b64(u >> 7) }
}
#[via_fn]
proof fn enc_b64_dec(u: u64) { assert(u >= 128 ==> (u >> 7) < u) by (bit_vector); }

pub proof fn lemma_enc_b64_nat(u: u64)
    ensures enc_b64(u) == enc_nat(u as nat)
    decreases u
{
    if u < 128 {
    } else {
        assert((u >> 7) < u) by (bit_vector) requires u >= 128;
        assert(((u & 0x7f) | 0x80) == (u % 128) + 128) by (bit_vector);
        assert((u >> 7) == u / 128) by (bit_vector);
        lemma_enc_b64_nat(u >> 7);
        assert(enc_b64(u) =~= enc_nat(u as nat));
    }
}
pub proof fn lemma_varlong_b(v: i64)
    ensures enc_varlong(v) == enc_b64(v as u64)
{
    assert(v >= 0 ==> (v as u64) as int == v as int) by (bit_vector);
    assert(v < 0 ==> (v as u64) as int == v as int + 0x1_0000_0000_0000_0000) by (bit_vector);
    lemma_enc_b64_nat(v as u64);
}
pub proof fn lemma_enc_head64(q: u64)
    ensures enc_b64(q).len() >= 1,
        q < 128 ==> enc_b64(q) =~= seq![q as u8],
        q >= 128 ==> enc_b64(q)[0] == ((q & 0x7f) | 0x80) as u8 && enc_b64(q).subrange(1, enc_b64(q).len() as int) =~= enc_b64(q >> 7)
{ reveal_with_fuel(enc_b64, 2); }

pub open spec fn vl_state(v: i64, tail: Seq<u8>, i: int, ans: i64, rest: Seq<u8>) -> bool {
    &&& (ans as u64) == (v as u64) & (((1u64 << ((7 * i) as u64)) - 1) as u64)
    &&& rest == enc_b64((v as u64) >> ((7 * i) as u64)) + tail
}
pub proof fn lemma_step64(uu: u64, ans: i64, b: u8, i: i32)
    requires 0 <= i < 10,
        (ans as u64) == uu & (((1u64 << ((7 * i) as u64)) - 1) as u64),
        ({ let q = uu >> ((7 * i) as u64); if q < 128 { b == q as u8 } else { b == ((q & 0x7f) | 0x80) as u8 } }),
    ensures ({
        let q = uu >> ((7 * i) as u64);
        let r = ans | (((b & 0b0111_1111) as i64) << ((7 * i) as u64));
        &&& (q < 128 <==> b & 0b1000_0000 == 0)
        &&& (q < 128 ==> (r as u64) == uu)
        &&& (q >= 128 ==> i < 9 && (r as u64) == uu & (((1u64 << ((7 * (i + 1)) as u64)) - 1) as u64) && (q >> 7) == uu >> ((7 * (i + 1)) as u64))
    })
{
    assert(0 <= i < 10 && (ans as u64) == uu & (((1u64 << ((7 * i) as u64)) - 1) as u64)
        && (if (uu >> ((7 * i) as u64)) < 128 { b == (uu >> ((7 * i) as u64)) as u8 } else { b == (((uu >> ((7 * i) as u64)) & 0x7f) | 0x80) as u8 })
        ==> (((uu >> ((7 * i) as u64)) < 128) <==> (b & 0b1000_0000 == 0))
         && (((uu >> ((7 * i) as u64)) < 128) ==> ((ans | (((b & 0b0111_1111) as i64) << ((7 * i) as u64))) as u64) == uu)
         && (((uu >> ((7 * i) as u64)) >= 128) ==> i < 9 && ((ans | (((b & 0b0111_1111) as i64) << ((7 * i) as u64))) as u64) == uu & (((1u64 << ((7 * (i + 1)) as u64)) - 1) as u64) && ((uu >> ((7 * i) as u64)) >> 7) == uu >> ((7 * (i + 1)) as u64))
    ) by (bit_vector);
}
pub proof fn lemma_inj64(a: i64, b: i64) ensures (a as u64) == (b as u64) ==> a == b
{ assert((a as u64) == (b as u64) ==> a == b) by (bit_vector); }
pub proof fn lemma_zero64(uu: u64) ensures uu & (((1u64 << 0) - 1) as u64) == 0, (0i64 as u64) == 0, uu >> 0 == uu
{ assert(uu & (((1u64 << 0) - 1) as u64) == 0) by (bit_vector); assert((0i64 as u64) == 0) by (bit_vector); assert(uu >> 0 == uu) by (bit_vector); }

// --- writer side ----------------------------------------------------------------------
pub proof fn lemma_wstep(value: i32)
    ensures
        unsigned32(((value >> 7) & (i32::MAX >> 6))) == unsigned32(value) / 128,
        ((value & 0b0111_1111) as u8) as nat == unsigned32(value) % 128,
        (((value & 0b0111_1111) as u8) | 0b1000_0000u8) as nat == unsigned32(value) % 128 + 128,
        ((value >> 7) & (i32::MAX >> 6)) >= 0,
{
    let n = (value >> 7) & (i32::MAX >> 6);
    assert(n >= 0 && (n as u32) == (value as u32) >> 7) by (bit_vector) requires n == (value >> 7) & (i32::MAX >> 6);
    assert(value >= 0 ==> (value as u32) as int == value as int) by (bit_vector);
    assert(value < 0 ==> (value as u32) as int == value as int + 0x1_0000_0000) by (bit_vector);
    assert(n >= 0 ==> (n as u32) as int == n as int) by (bit_vector);
    let u = value as u32;
    assert((u >> 7) == u / 128) by (bit_vector);
    let b = (value & 0b0111_1111) as u8;
    assert(b as u32 == u % 128 && b < 128) by (bit_vector) requires b == (value & 0b0111_1111) as u8, u == value as u32;
    assert(b < 128 ==> (b | 0b1000_0000u8) == b + 128) by (bit_vector);
}
pub proof fn lemma_wstep64(value: i64)
    ensures
        unsigned64(((value >> 7) & (i64::MAX >> 6))) == unsigned64(value) / 128,
        ((value & 0b0111_1111) as u8) as nat == unsigned64(value) % 128,
        (((value & 0b0111_1111) as u8) | 0b1000_0000u8) as nat == unsigned64(value) % 128 + 128,
        ((value >> 7) & (i64::MAX >> 6)) >= 0,
{
    let n = (value >> 7) & (i64::MAX >> 6);
    assert(n >= 0 && (n as u64) == (value as u64) >> 7) by (bit_vector) requires n == (value >> 7) & (i64::MAX >> 6);
    assert(value >= 0 ==> (value as u64) as int == value as int) by (bit_vector);
    assert(value < 0 ==> (value as u64) as int == value as int + 0x1_0000_0000_0000_0000) by (bit_vector);
    assert(n >= 0 ==> (n as u64) as int == n as int) by (bit_vector);
    let u = value as u64;
    assert((u >> 7) == u / 128) by (bit_vector);
    let b = (value & 0b0111_1111) as u8;
    assert(b as u64 == u % 128 && b < 128) by (bit_vector) requires b == (value & 0b0111_1111) as u8, u == value as u64;
    assert(b < 128 ==> (b | 0b1000_0000u8) == b + 128) by (bit_vector);
}

// --- sequence concatenation (used by the packet writers) -------------------------------
pub broadcast proof fn lemma_add_assoc(a: Seq<u8>, b: Seq<u8>, c: Seq<u8>)
    ensures #[trigger] ((a + b) + c) == a + (b + c)
{ assert((a + b) + c =~= a + (b + c)); }
pub broadcast proof fn lemma_add_empty(a: Seq<u8>)
    ensures #[trigger] (a + Seq::<u8>::empty()) == a
{ assert(a + Seq::<u8>::empty() =~= a); }

// --- length bounds (C09: at most 5 / 10 groups) -----------------------------------------
pub proof fn lemma_enc_nat_len(n: nat, k: nat)
    requires n < pow128(k), k >= 1
    ensures 1 <= enc_nat(n).len() <= k
    decreases k
{
    reveal_with_fuel(pow128, 2);
    if n < 128 {
    } else {
        if k == 1 { assert(pow128(1) == 128); }
        else {
            assert(n / 128 < pow128((k - 1) as nat)) by (nonlinear_arith) requires n < 128 * pow128((k - 1) as nat);
            lemma_enc_nat_len(n / 128, (k - 1) as nat);
        }
    }
}
pub open spec fn pow128(k: nat) -> nat decreases k { if k == 0 { 1 } else { 128 * pow128((k - 1) as nat) } }
pub proof fn lemma_varint_len(v: i32) ensures 1 <= enc_varint(v).len() <= 5
{ reveal_with_fuel(pow128, 7); lemma_enc_nat_len(unsigned32(v), 5); }
pub proof fn lemma_varlong_len(v: i64) ensures 1 <= enc_varlong(v).len() <= 10
{ reveal_with_fuel(pow128, 12); lemma_enc_nat_len(unsigned64(v), 10); }

} // verus!
