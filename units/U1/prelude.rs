#![feature(allocator_api)]
#![allow(unused)]
// U1 prelude: byte-stream models (verified), wire-format spec functions written from the
// Minecraft protocol description, lemmas, and contracts for the external crates the codec calls.
use vstd::prelude::*;
use vstd::utf8::*;
use vstd::string::StringSliceAdditionalSpecFns;

verus! {

// ------------------------------------------------------------------ external value types
/// std::io::Error: the real type, opaque to the proof.
#[verifier::external_type_specification]
#[verifier::external_body]
pub struct ExIoError(std::io::Error);
pub type IoError = std::io::Error;
/// `std::io::ErrorKind::UnexpectedEof.into()` (R12 routes that expression here)
#[verifier::external_body]
pub fn vx_eof_error() -> std::io::Error { std::io::ErrorKind::UnexpectedEof.into() }
/// serde_json::Error, fastnbt::error::Error: opaque.
pub struct JsonError {}
pub struct NbtError {}

/// uuid::Uuid is a 128-bit value; `from_u128` / `as_u128` are inverse bijections (assumed).
#[derive(Clone, Copy, PartialEq, Eq, Structural)]
pub struct Uuid { pub v: u128 }
impl Uuid {
    pub fn from_u128(v: u128) -> (r: Uuid) ensures r.v == v { Uuid { v } }
    pub fn as_u128(&self) -> (r: u128) ensures r == self.v { self.v }
}

// thiserror `#[from]` conversions of passage_packets::Error (mirrors the derive)
impl vstd::std_specs::convert::FromSpecImpl<IoError> for Error { open spec fn obeys_from_spec() -> bool { true } open spec fn from_spec(e: IoError) -> Error { Error::Io(e) } }
impl From<IoError> for Error { fn from(e: IoError) -> (r: Error) { Error::Io(e) } }
impl vstd::std_specs::convert::FromSpecImpl<JsonError> for Error { open spec fn obeys_from_spec() -> bool { true } open spec fn from_spec(e: JsonError) -> Error { Error::Json(e) } }
impl From<JsonError> for Error { fn from(e: JsonError) -> (r: Error) { Error::Json(e) } }
impl vstd::std_specs::convert::FromSpecImpl<NbtError> for Error { open spec fn obeys_from_spec() -> bool { true } open spec fn from_spec(e: NbtError) -> Error { Error::Nbt(e) } }
impl From<NbtError> for Error { fn from(e: NbtError) -> (r: Error) { Error::Nbt(e) } }

// value-preserving widenings that vstd does not specify
pub assume_specification [<i32 as From<u8>>::from](v: u8) -> (r: i32) ensures r == v as i32;
pub assume_specification [<i64 as From<u8>>::from](v: u8) -> (r: i64) ensures r == v as i64;
pub assume_specification [<i32 as From<u16>>::from](v: u16) -> (r: i32) ensures r == v as i32;
pub assume_specification [<u8 as From<bool>>::from](v: bool) -> (r: u8) ensures r == (if v { 1u8 } else { 0u8 });

#[verifier::external_type_specification]
#[verifier::external_body]
pub struct ExFromUtf8Error(std::string::FromUtf8Error);
pub assume_specification [std::string::String::from_utf8] (v: std::vec::Vec<u8>) -> (r: std::result::Result<std::string::String, std::string::FromUtf8Error>)
    ensures r is Ok <==> valid_utf8(v@), r matches Ok(s) ==> s@ == decode_utf8(v@);
/// `String::into_bytes`: the UTF-8 encoding (std documentation)
pub assume_specification [std::string::String::into_bytes] (s: std::string::String) -> (r: std::vec::Vec<u8>)
    ensures r@ == encode_utf8(s@);
/// `String::len` is the length in bytes of the UTF-8 encoding (std documentation)
pub assume_specification [std::string::String::len] (s: &std::string::String) -> (r: usize)
    ensures r == encode_utf8(s@).len();


// ------------------------------------------------------------------ fastnbt / serde_json (opaque)
// Used only by the compound (non string-tag) text-component branch, about which nothing is claimed.
pub mod fastnbt {
    use vstd::prelude::*;
    use super::NbtError;
    pub struct Value {}
    pub struct DeOpts {}
    pub struct SerOpts {}
    impl DeOpts { #[verifier::external_body] pub fn network_nbt() -> DeOpts { unimplemented!() } }
    impl SerOpts { #[verifier::external_body] pub fn network_nbt() -> SerOpts { unimplemented!() } }
    #[verifier::external_body]
    pub fn from_bytes_with_opts(input: &Vec<u8>, opts: DeOpts) -> Result<Value, NbtError> { unimplemented!() }
    #[verifier::external_body]
    pub fn to_bytes_with_opts(v: &super::serde_json::Value, opts: SerOpts) -> Result<Vec<u8>, NbtError> { unimplemented!() }
}
pub mod serde_json {
    use vstd::prelude::*;
    use vstd::utf8::*;
    use super::JsonError;
    pub struct Value {}
    /// serde `Serialize` / `Deserialize` through serde_json: uninterpreted text per value, partial parser per type
    pub trait JsonSer { spec fn json_text(&self) -> Seq<char>; }
    pub trait JsonDe: Sized { spec fn json_parse(b: Seq<u8>) -> Result<Self, JsonError>; }
    #[verifier::external_body]
    pub fn to_string<T: JsonSer>(v: &T) -> (r: Result<String, JsonError>)
        ensures r matches Ok(s) ==> s@ == v.json_text()
    { unimplemented!() }
    /// (a Vec never exceeds isize::MAX bytes)
    #[verifier::external_body]
    pub fn to_vec<T: JsonSer>(v: &T) -> (r: Result<Vec<u8>, JsonError>)
        ensures r matches Ok(b) ==> b@ == encode_utf8(v.json_text()) && b@.len() + 32 <= usize::MAX
    { unimplemented!() }
    #[verifier::external_body]
    pub fn from_slice<T: JsonDe>(b: &[u8]) -> (r: Result<T, JsonError>)
        ensures r == T::json_parse(b@)
    { unimplemented!() }
    #[verifier::external_body]
    pub fn from_str(s: &str) -> Result<Value, JsonError> { unimplemented!() }
    pub uninterp spec fn nbt_json_text(v: super::fastnbt::Value) -> Seq<char>;
    impl JsonSer for super::fastnbt::Value { open spec fn json_text(&self) -> Seq<char> { nbt_json_text(*self) } }
    pub uninterp spec fn opt_parse<T: JsonDe>(b: Seq<u8>) -> Result<Option<T>, JsonError>;
    impl<T: JsonDe> JsonDe for Option<T> { open spec fn json_parse(b: Seq<u8>) -> Result<Option<T>, JsonError> { opt_parse::<T>(b) } }
}

// ------------------------------------------------------------------ allocation budget (C04)
/// Arbitrary but fixed bound on the bytes still available to a decoder. Every decoder is
/// verified under `rest().len() <= alloc_budget()`, for every value of the budget, so
/// `n <= alloc_budget()` at an allocation site means: never more than the input still holds.
pub uninterp spec fn alloc_budget() -> nat;
pub open spec fn alloc_ok(n: nat) -> bool { n <= alloc_budget() || n <= 0xffff }

pub fn vx_alloc_zeroed(n: usize) -> (r: Vec<u8>)
    requires
        alloc_ok(n as nat), // @cl:C04.alloc.bound
    ensures r@.len() == n, forall |i: int| 0 <= i < n ==> r@[i] == 0u8,
{ vec![0u8; n] }

/// C04 (R19): asking the allocator for capacity sized by client input is bounded like an allocation of that size
/// (std: these calls request room for at least `len + additional` elements; elements are bytes in the codec's buffers)
pub trait VxReserve: Sized {
    spec fn vx_len(&self) -> nat;
    fn vx_reserve(&mut self, additional: usize)
        requires
            alloc_ok(old(self).vx_len() + additional as nat), // @cl:C04.alloc.bound.reserve
        ensures *final(self) == *old(self);
    fn vx_reserve_exact(&mut self, additional: usize)
        requires
            alloc_ok(old(self).vx_len() + additional as nat), // @cl:C04.alloc.bound.reserve_exact
        ensures *final(self) == *old(self);
    fn vx_try_reserve(&mut self, additional: usize) -> (r: Result<(), std::collections::TryReserveError>)
        requires
            alloc_ok(old(self).vx_len() + additional as nat), // @cl:C04.alloc.bound.try_reserve
        ensures *final(self) == *old(self);
    fn vx_try_reserve_exact(&mut self, additional: usize) -> (r: Result<(), std::collections::TryReserveError>)
        requires
            alloc_ok(old(self).vx_len() + additional as nat), // @cl:C04.alloc.bound.try_reserve_exact
        ensures *final(self) == *old(self);
}
impl<T> VxReserve for Vec<T> {
    open spec fn vx_len(&self) -> nat { self@.len() }
    #[verifier::external_body] fn vx_reserve(&mut self, additional: usize) { unimplemented!() }
    #[verifier::external_body] fn vx_reserve_exact(&mut self, additional: usize) { unimplemented!() }
    #[verifier::external_body] fn vx_try_reserve(&mut self, additional: usize) -> (r: Result<(), std::collections::TryReserveError>) { unimplemented!() }
    #[verifier::external_body] fn vx_try_reserve_exact(&mut self, additional: usize) -> (r: Result<(), std::collections::TryReserveError>) { unimplemented!() }
}
#[verifier::external_body]
pub fn vx_with_capacity<T>(n: usize) -> (r: Vec<T>)
    requires
        alloc_ok(n as nat), // @cl:C04.alloc.bound.with_capacity
    ensures r@.len() == 0
{ unimplemented!() }

pub fn vx_starts_with_char(s: &str, c: char) -> (r: bool)
    ensures r == (s@.len() > 0 && s@[0] == c)
{
    if s.unicode_len() == 0 { false } else { s.get_char(0) == c }
}

// ------------------------------------------------------------------ wire format (from the protocol)
pub open spec fn enc_nat(n: nat) -> Seq<u8>
    decreases n
{
    if n < 128 { seq![n as u8] } else { seq![((n % 128) + 128) as u8] + enc_nat(n / 128) }
}
pub open spec fn unsigned32(v: i32) -> nat { if v >= 0 { v as nat } else { (v + 0x1_0000_0000) as nat } }
pub open spec fn unsigned64(v: i64) -> nat { if v >= 0 { v as nat } else { (v + 0x1_0000_0000_0000_0000) as nat } }
pub open spec fn enc_varint(v: i32) -> Seq<u8> { enc_nat(unsigned32(v)) }
pub open spec fn enc_varlong(v: i64) -> Seq<u8> { enc_nat(unsigned64(v)) }
pub open spec fn enc_u8(v: u8) -> Seq<u8> { seq![v] }
pub open spec fn enc_bool(b: bool) -> Seq<u8> { seq![if b { 1u8 } else { 0u8 }] }
pub open spec fn be16(x: u16) -> Seq<u8> { be_bytes(x as nat, 2) }
pub open spec fn be_bytes(x: nat, n: nat) -> Seq<u8>
    decreases n
{
    if n == 0 { Seq::<u8>::empty() } else { be_bytes(x / 256, (n - 1) as nat).push((x % 256) as u8) }
}
pub open spec fn be32(x: u32) -> Seq<u8> { be_bytes(x as nat, 4) }
pub open spec fn be64(x: u64) -> Seq<u8> { be_bytes(x as nat, 8) }
pub open spec fn be128(x: u128) -> Seq<u8> { be_bytes(x as nat, 16) }
pub open spec fn enc_i8(x: i8) -> Seq<u8> { seq![(if x >= 0 { x as int } else { x + 256 }) as u8] }
pub open spec fn enc_i32be(x: i32) -> Seq<u8> { be_bytes(unsigned32(x), 4) }
pub open spec fn enc_uuid(u: Uuid) -> Seq<u8> { be128(u.v) }
pub open spec fn enc_bytes(b: Seq<u8>) -> Seq<u8> { enc_varint(b.len() as i32) + b }
pub open spec fn enc_string(s: Seq<char>) -> Seq<u8> { enc_bytes(encode_utf8(s)) }
/// Text component, string-tag form (TAG_String 0x08, u16 length, UTF-8). The compound form is
/// produced by fastnbt and is not specified here.
pub open spec fn text_is_plain(s: Seq<char>) -> bool { !(s.len() > 0 && s[0] == '{') }
#[verifier::opaque]
pub open spec fn enc_text(s: Seq<char>) -> Seq<u8> { seq![8u8] + (be16(encode_utf8(s).len() as u16) + encode_utf8(s)) }

pub open spec fn str_ok(s: Seq<char>) -> bool { encode_utf8(s).len() <= 0x7fff_ffff }
/// length of a string in UTF-16 code units, which is how the protocol states its string limits (`String (n)`)
pub open spec fn utf16_units(s: Seq<char>) -> nat
    decreases s.len()
{ if s.len() == 0 { 0 } else { utf16_units(s.drop_last()) + (if s.last() as u32 >= 0x10000 { 2nat } else { 1nat }) } }
/// a protocol string of at most `n` UTF-16 units
pub open spec fn pstr_ok(s: Seq<char>, n: nat) -> bool { str_ok(s) && utf16_units(s) <= n }
pub open spec fn bytes_ok(b: Seq<u8>) -> bool { b.len() <= 0x7fff_ffff }
pub open spec fn text_ok(s: Seq<char>) -> bool { text_is_plain(s) && encode_utf8(s).len() <= 0xffff }

// ------------------------------------------------------------------ reader model
/// R := a cursor over an in-memory byte vector (what `Cursor<Vec<u8>>` is; for the socket it is the
/// sequence of bytes the client will have sent). tokio's AsyncReadExt methods on it are *implemented
/// and verified* here, not assumed.
pub struct Reader { pub data: Vec<u8>, pub pos: usize }
impl Reader {
    pub open spec fn wf(&self) -> bool { self.pos <= self.data.len() }
    pub open spec fn rest(&self) -> Seq<u8> { self.data@.subrange(self.pos as int, self.data.len() as int) }
    pub open spec fn advanced(&self, o: &Reader) -> bool { self.data == o.data && self.pos >= o.pos && self.wf() }

    pub fn read_exact(&mut self, buf: &mut [u8]) -> (r: Result<usize, IoError>)
        requires old(self).wf()
        ensures final(self).advanced(old(self)), final(buf)@.len() == old(buf)@.len(),
            match r {
                Ok(n) => old(self).rest().len() >= old(buf)@.len() && final(self).pos == old(self).pos + old(buf)@.len()
                          && final(buf)@ == old(self).rest().subrange(0, old(buf)@.len() as int) && n == old(buf)@.len(),
                Err(_) => old(self).rest().len() < old(buf)@.len(),
            }
    {
        let n = buf.len();
        if self.data.len() - self.pos < n { return Err(vx_eof_error()); }
        let mut k: usize = 0;
        while k < n
            invariant self.wf(), self.data == old(self).data, self.pos == old(self).pos, k <= n, n == buf@.len(), self.data.len() - self.pos >= n,
                forall |j: int| 0 <= j < k ==> buf@[j] == self.data@[self.pos + j],
            decreases n - k
        {
            buf[k] = self.data[self.pos + k];
            k += 1;
        }
        self.pos = self.pos + n;
        proof { assert(buf@ =~= old(self).rest().subrange(0, n as int)); }
        Ok(n)
    }
    pub fn read_u8(&mut self) -> (r: Result<u8, IoError>)
        requires old(self).wf()
        ensures final(self).advanced(old(self)),
            match r { Ok(v) => old(self).rest().len() >= 1 && v == old(self).rest()[0] && final(self).rest() == old(self).rest().subrange(1, old(self).rest().len() as int),
                      Err(_) => old(self).rest().len() < 1 },
            forall |w: u8, tail: Seq<u8>| old(self).rest() == #[trigger] (enc_u8(w) + tail) ==> (r matches Ok(x) && x == w) && final(self).rest() == tail,
    {
        if self.pos < self.data.len() {
            let v = self.data[self.pos];
            self.pos = self.pos + 1;
            proof {
                assert(self.rest() =~= old(self).rest().subrange(1, old(self).rest().len() as int));
                assert forall |w: u8, tail: Seq<u8>| old(self).rest() == #[trigger] (enc_u8(w) + tail) implies v == w && self.rest() == tail by {
                    assert((enc_u8(w) + tail)[0] == w);
                    assert((enc_u8(w) + tail).subrange(1, (enc_u8(w) + tail).len() as int) =~= tail);
                }
            }
            Ok(v)
        } else {
            proof {
                assert forall |w: u8, tail: Seq<u8>| old(self).rest() == #[trigger] (enc_u8(w) + tail) implies false by {
                    assert((enc_u8(w) + tail).len() >= 1);
                }
            }
            Err(vx_eof_error())
        }
    }
    /// big-endian unsigned integer of `n` bytes (n <= 16)
    fn read_be(&mut self, n: usize) -> (r: Result<u128, IoError>)
        requires old(self).wf(), 1 <= n <= 16
        ensures final(self).advanced(old(self)),
            match r {
                Ok(v) => old(self).rest().len() >= n && final(self).rest() == old(self).rest().subrange(n as int, old(self).rest().len() as int)
                         && old(self).rest().subrange(0, n as int) == be_bytes(v as nat, n as nat) && (v as nat) < pow256(n as nat),
                Err(_) => old(self).rest().len() < n },
            forall |w: nat, tail: Seq<u8>| w < pow256(n as nat) && old(self).rest() == #[trigger] (be_bytes(w, n as nat) + tail) ==> (r matches Ok(x) && x as nat == w) && final(self).rest() == tail,
    {
        if self.data.len() - self.pos < n {
            proof {
                assert forall |w: nat, tail: Seq<u8>| old(self).rest() == #[trigger] (be_bytes(w, n as nat) + tail) implies false by {
                    lemma_be_len(w, n as nat);
                    assert((be_bytes(w, n as nat) + tail).len() >= n);
                    assert(old(self).rest().len() == self.data.len() - self.pos);
                }
            }
            return Err(vx_eof_error());
        }
        let mut v: u128 = 0;
        let mut k: usize = 0;
        proof { assert(old(self).rest().subrange(0, 0) =~= be_bytes(0, 0)); reveal_with_fuel(pow256, 2); }
        while k < n
            invariant self.wf(), self.data == old(self).data, self.pos == old(self).pos, k <= n <= 16, self.data.len() - self.pos >= n,
                old(self).rest().subrange(0, k as int) == be_bytes(v as nat, k as nat),
                (v as nat) < pow256(k as nat),
            decreases n - k
        {
            let b = self.data[self.pos + k];
            proof {
                lemma_pow256_bound(k as nat);
                assert(old(self).rest().subrange(0, k + 1) =~= old(self).rest().subrange(0, k as int).push(b));
                assert(((v as nat) * 256 + b as nat) / 256 == v as nat) by (nonlinear_arith) requires (b as nat) < 256;
                assert(((v as nat) * 256 + b as nat) % 256 == b as nat) by (nonlinear_arith) requires (b as nat) < 256;
                assert((v as nat) * 256 + (b as nat) < pow256(k as nat) * 256) by (nonlinear_arith) requires (v as nat) < pow256(k as nat), (b as nat) < 256;
                reveal_with_fuel(pow256, 2);
                reveal_with_fuel(be_bytes, 2);
                assert(pow256((k + 1) as nat) == pow256(k as nat) * 256);
                lemma_pow256_bound((k + 1) as nat);
            }
            v = v * 256 + (b as u128);
            k += 1;
        }
        self.pos = self.pos + n;
        proof {
            assert(self.rest() =~= old(self).rest().subrange(n as int, old(self).rest().len() as int));
            assert forall |w: nat, tail: Seq<u8>| w < pow256(n as nat) && old(self).rest() == #[trigger] (be_bytes(w, n as nat) + tail) implies v as nat == w && self.rest() == tail by {
                lemma_be_len(w, n as nat);
                assert((be_bytes(w, n as nat) + tail).subrange(0, n as int) =~= be_bytes(w, n as nat));
                lemma_be_inj(v as nat, w, n as nat);
                assert((be_bytes(w, n as nat) + tail).subrange(n as int, (be_bytes(w, n as nat) + tail).len() as int) =~= tail);
            }
        }
        Ok(v)
    }
    pub fn read_u16(&mut self) -> (r: Result<u16, IoError>)
        requires old(self).wf()
        ensures final(self).advanced(old(self)), r is Err ==> old(self).rest().len() < 2,
            r is Ok ==> old(self).rest().len() >= 2 && final(self).rest() == old(self).rest().subrange(2, old(self).rest().len() as int),
            forall |w: u16, tail: Seq<u8>| old(self).rest() == #[trigger] (be16(w) + tail) ==> (r matches Ok(x) && x == w) && final(self).rest() == tail,
    { proof { reveal_with_fuel(pow256, 4); } let v = self.read_be(2)?; Ok(v as u16) }
    pub fn read_u64(&mut self) -> (r: Result<u64, IoError>)
        requires old(self).wf()
        ensures final(self).advanced(old(self)), r is Err ==> old(self).rest().len() < 8,
            forall |w: u64, tail: Seq<u8>| old(self).rest() == #[trigger] (be64(w) + tail) ==> (r matches Ok(x) && x == w) && final(self).rest() == tail,
    { proof { reveal_with_fuel(pow256, 10); } let v = self.read_be(8)?; Ok(v as u64) }
    pub fn read_u128(&mut self) -> (r: Result<u128, IoError>)
        requires old(self).wf()
        ensures final(self).advanced(old(self)), r is Err ==> old(self).rest().len() < 16,
            forall |w: u128, tail: Seq<u8>| old(self).rest() == #[trigger] (be128(w) + tail) ==> (r matches Ok(x) && x == w) && final(self).rest() == tail,
    { proof { reveal_with_fuel(pow256, 18); } self.read_be(16) }
    pub fn read_i8(&mut self) -> (r: Result<i8, IoError>)
        requires old(self).wf()
        ensures final(self).advanced(old(self)), r is Err ==> old(self).rest().len() < 1,
            forall |w: i8, tail: Seq<u8>| old(self).rest() == #[trigger] (enc_i8(w) + tail) ==> (r matches Ok(x) && x == w) && final(self).rest() == tail,
    {
        let b = self.read_u8()?;
        let v = b as i8;
        proof {
            assert(b < 128 ==> (b as i8) as int == b as int) by (bit_vector);
            assert(b >= 128 ==> (b as i8) as int == b as int - 256) by (bit_vector);
            assert forall |w: i8, tail: Seq<u8>| old(self).rest() == #[trigger] (enc_i8(w) + tail) implies v == w && self.rest() == tail by {
                assert((enc_i8(w) + tail)[0] == enc_i8(w)[0]);
                assert((enc_i8(w) + tail).subrange(1, (enc_i8(w) + tail).len() as int) =~= tail);
            }
        }
        Ok(v)
    }
    pub fn read_i32(&mut self) -> (r: Result<i32, IoError>)
        requires old(self).wf()
        ensures final(self).advanced(old(self)), r is Err ==> old(self).rest().len() < 4,
            forall |w: i32, tail: Seq<u8>| old(self).rest() == #[trigger] (enc_i32be(w) + tail) ==> (r matches Ok(x) && x == w) && final(self).rest() == tail,
    {
        proof { reveal_with_fuel(pow256, 6); }
        let u = self.read_be(4)?;
        let w = u as u32;
        let v = w as i32;
        proof {
            assert(w < 0x8000_0000u32 ==> (w as i32) as int == w as int) by (bit_vector);
            assert(w >= 0x8000_0000u32 ==> (w as i32) as int == w as int - 0x1_0000_0000) by (bit_vector);
        }
        Ok(v)
    }
    /// `self.take(limit).read_to_end(buf)` (R21): appends min(limit, remaining) bytes
    pub fn vx_take_read_to_end(&mut self, limit: u64, buf: &mut Vec<u8>) -> (r: Result<usize, IoError>)
        requires old(self).wf()
        ensures final(self).advanced(old(self)), r matches Ok(n) && ({
            let m = if limit < old(self).rest().len() { limit as int } else { old(self).rest().len() as int };
            &&& n == m
            &&& final(buf)@ == old(buf)@ + old(self).rest().subrange(0, m)
            &&& final(self).rest() == old(self).rest().subrange(m, old(self).rest().len() as int)
        }),
    {
        let avail = self.data.len() - self.pos;
        let n: usize = if limit < avail as u64 { limit as usize } else { avail };
        let mut k: usize = 0;
        while k < n
            invariant self.wf(), self.data == old(self).data, self.pos == old(self).pos, k <= n, n <= self.data.len() - self.pos,
                buf@ == old(buf)@ + old(self).rest().subrange(0, k as int),
            decreases n - k
        {
            buf.push(self.data[self.pos + k]);
            proof { assert(old(self).rest().subrange(0, k + 1) =~= old(self).rest().subrange(0, k as int).push(self.data@[self.pos + k])); }
            k += 1;
        }
        self.pos = self.pos + n;
        proof { assert(self.rest() =~= old(self).rest().subrange(n as int, old(self).rest().len() as int)); }
        Ok(n)
    }
    /// reads everything that is left (tokio: until EOF) and appends it
    pub fn read_to_end(&mut self, buf: &mut Vec<u8>) -> (r: Result<usize, IoError>)
        requires old(self).wf()
        ensures final(self).advanced(old(self)), r is Ok, final(buf)@ == old(buf)@ + old(self).rest(), final(self).rest().len() == 0,
    {
        let n = self.data.len() - self.pos;
        let mut k: usize = 0;
        while k < n
            invariant self.wf(), self.data == old(self).data, self.pos == old(self).pos, k <= n, n == self.data.len() - self.pos,
                buf@ == old(buf)@ + old(self).rest().subrange(0, k as int),
            decreases n - k
        {
            buf.push(self.data[self.pos + k]);
            proof { assert(old(self).rest().subrange(0, k + 1) =~= old(self).rest().subrange(0, k as int).push(self.data@[self.pos + k])); }
            k += 1;
        }
        proof { assert(old(self).rest().subrange(0, n as int) =~= old(self).rest()); }
        self.pos = self.data.len();
        Ok(n)
    }
}

pub open spec fn pow256(n: nat) -> nat decreases n { if n == 0 { 1 } else { 256 * pow256((n - 1) as nat) } }
pub proof fn lemma_be_len(x: nat, n: nat)
    ensures be_bytes(x, n).len() == n
    decreases n
{ if n > 0 { lemma_be_len(x / 256, (n - 1) as nat); } }
pub proof fn lemma_be_inj(x: nat, y: nat, n: nat)
    requires x < pow256(n), y < pow256(n), be_bytes(x, n) == be_bytes(y, n)
    ensures x == y
    decreases n
{
    if n == 0 {
    } else {
        let m = (n - 1) as nat;
        lemma_be_len(x / 256, m); lemma_be_len(y / 256, m);
        assert(be_bytes(x, n)[m as int] == (x % 256) as u8);
        assert(be_bytes(y, n)[m as int] == (y % 256) as u8);
        assert(be_bytes(x / 256, m) =~= be_bytes(x, n).subrange(0, m as int));
        assert(be_bytes(y / 256, m) =~= be_bytes(y, n).subrange(0, m as int));
        assert(x / 256 < pow256(m)) by (nonlinear_arith) requires x < 256 * pow256(m);
        assert(y / 256 < pow256(m)) by (nonlinear_arith) requires y < 256 * pow256(m);
        lemma_be_inj(x / 256, y / 256, m);
    }
}
proof fn lemma_pow256_bound(n: nat)
    requires n <= 16
    ensures pow256(n) <= 0x1_0000_0000_0000_0000_0000_0000_0000_0000, n < 16 ==> pow256(n) * 256 <= 0x1_0000_0000_0000_0000_0000_0000_0000_0000
{ reveal_with_fuel(pow256, 18); }

// ------------------------------------------------------------------ writer model
/// W := Vec<u8> (tokio implements AsyncWrite for Vec<u8> by appending). The AsyncWriteExt methods the
/// codec uses are implemented and verified here.
pub trait AsyncWriteExt {
    spec fn wv(&self) -> Seq<u8>;
    fn write_all(&mut self, buf: &[u8]) -> (r: Result<(), IoError>)
        ensures r is Ok, final(self).wv() == old(self).wv() + buf@;
    fn write_u8(&mut self, v: u8) -> (r: Result<(), IoError>)
        ensures r is Ok, final(self).wv() == old(self).wv() + enc_u8(v);
    fn write_i8(&mut self, v: i8) -> (r: Result<(), IoError>)
        ensures r is Ok, final(self).wv() == old(self).wv() + enc_i8(v);
    fn write_u16(&mut self, v: u16) -> (r: Result<(), IoError>)
        ensures r is Ok, final(self).wv() == old(self).wv() + be16(v);
    fn write_i32(&mut self, v: i32) -> (r: Result<(), IoError>)
        ensures r is Ok, final(self).wv() == old(self).wv() + enc_i32be(v);
    fn write_u64(&mut self, v: u64) -> (r: Result<(), IoError>)
        ensures r is Ok, final(self).wv() == old(self).wv() + be64(v);
    fn write_u128(&mut self, v: u128) -> (r: Result<(), IoError>)
        ensures r is Ok, final(self).wv() == old(self).wv() + be128(v);
}
fn write_be(out: &mut Vec<u8>, v: u128, n: usize)
    requires n <= 16
    ensures final(out)@ == old(out)@ + be_bytes(v as nat, n as nat)
    decreases n
{
    if n == 0 {
        proof { assert(out@ =~= old(out)@ + be_bytes(v as nat, 0)); }
        return;
    }
    write_be(out, v / 256, n - 1);
    out.push((v % 256) as u8);
    proof {
        assert(out@ =~= old(out)@ + be_bytes(v as nat, n as nat));
    }
}

impl AsyncWriteExt for Vec<u8> {
    open spec fn wv(&self) -> Seq<u8> { self@ }
    fn write_all(&mut self, buf: &[u8]) -> (r: Result<(), IoError>) { self.extend_from_slice(buf); Ok(()) }
    fn write_u8(&mut self, v: u8) -> (r: Result<(), IoError>) { self.push(v); proof { assert(self@ =~= old(self)@ + enc_u8(v)); } Ok(()) }
    fn write_i8(&mut self, v: i8) -> (r: Result<(), IoError>) {
        let b = v as u8;
        proof {
            assert(v >= 0 ==> (v as u8) as int == v as int) by (bit_vector);
            assert(v < 0 ==> (v as u8) as int == v as int + 256) by (bit_vector);
        }
        self.push(b);
        proof { assert(self@ =~= old(self)@ + enc_i8(v)); }
        Ok(())
    }
    fn write_u16(&mut self, v: u16) -> (r: Result<(), IoError>) { proof { reveal_with_fuel(pow256, 4); } write_be(self, v as u128, 2); Ok(()) }
    fn write_i32(&mut self, v: i32) -> (r: Result<(), IoError>) {
        let w = v as u32;
        proof {
            reveal_with_fuel(pow256, 6);
            assert(v >= 0 ==> (v as u32) as int == v as int) by (bit_vector);
            assert(v < 0 ==> (v as u32) as int == v as int + 0x1_0000_0000) by (bit_vector);
        }
        write_be(self, w as u128, 4); Ok(())
    }
    fn write_u64(&mut self, v: u64) -> (r: Result<(), IoError>) { proof { reveal_with_fuel(pow256, 10); } write_be(self, v as u128, 8); Ok(()) }
    fn write_u128(&mut self, v: u128) -> (r: Result<(), IoError>) { write_be(self, v, 16); Ok(()) }
}

} // verus!
