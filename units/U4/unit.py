"""U4 — framing and keep-alive functions of Connection."""
import os
import sys

HERE = os.path.dirname(os.path.abspath(__file__))
sys.path.insert(0, os.path.join(HERE, "..", "..", "lib"))
sys.path.insert(0, os.path.join(HERE, "..", "conn"))
import vxlib  # noqa: E402
import common  # noqa: E402

NAME = "U4"
RLIMIT = 30
FNS = ["send_packet", "handle_keep_alive", "apply_encryption", "receive_packet", "keep_alive",
       "new", "with_max_packet_length", "with_auth_cookie_expiry", "with_auth_secret", "with_client_address"]


def build(vacuity=False):
    vxlib.reset_vac()
    C = vxlib.load_contracts(os.path.join(HERE, "contracts.toml"))
    fnc = {k: vxlib.FnContract(k, v) for k, v in C.get("fn", {}).items()}
    u, fnc2 = common.start_unit(NAME, vacuity)
    u.default_props = ["C04"]
    items = common.base_items()
    for f in FNS:
        items.append(common.conn_fn_item(f"connection.{f}", f, fnc[f"connection.{f}"], vacuity))
    ex = vxlib.run_vx(items)
    common.emit_base(u, ex, fnc2)
    u.raw("    impl Connection {\n")
    for f in FNS:
        u.add_fn(ex[f"connection.{f}"], fnc[f"connection.{f}"], vacuity=vacuity, indent="        ")
    u.raw("    }\n}\n} // verus!\nfn main() {}\n")
    u.modules = ["connection"]
    u.verify_only = ["connection"]
    return u
