// Connection-level prelude (units U3, U4, U9): models of everything outside /repo's own functions that
// `Connection` / `Listener` touch. Everything here is an *assumption* unless marked "verified".
// It is appended to the U1 codec interface (prelude + wire specs + packet types with their U1 contracts).

verus! {

pub type Protocol = i32;

// ------------------------------------------------------------------ std::net
//@include netmodel.rs
pub broadcast axiom fn axiom_ip_text_small(ip: IpAddr)
    ensures #[trigger] encode_utf8(ip_text(ip)).len() <= 45;

// ------------------------------------------------------------------ opaque external values
pub struct ServerStatus {}
pub struct MetaMap {}
pub struct ExtraMap {}
pub uninterp spec fn default_extra() -> ExtraMap;
impl Default for ExtraMap { #[verifier::external_body] fn default() -> (r: ExtraMap) ensures r == default_extra() { unimplemented!() } }
pub struct CryptoError {}
pub struct ReqwestError {}
pub struct AdapterError {}
pub struct PrivKey {}
pub struct Instant {}
impl Instant { #[verifier::external_body] pub fn now() -> Instant { unimplemented!() } }
/// tokio::time::Interval: its configuration and a ghost *phase* (which changes whenever the schedule of future ticks is
/// moved by `reset*`); waiting for a tick changes neither
pub struct Interval { pub period: Duration, pub behavior: tokio::time::MissedTickBehavior, pub phase: Ghost<int> }
impl Interval {
    /// completes when the next keep-alive period has elapsed (wall-clock: not modelled)
    #[verifier::external_body] pub fn tick(&mut self) -> Instant
        ensures *final(self) == *old(self)
    { unimplemented!() }
    pub fn set_missed_tick_behavior(&mut self, behavior: tokio::time::MissedTickBehavior)
        ensures final(self).behavior == behavior, final(self).period == old(self).period, final(self).phase == old(self).phase
    { self.behavior = behavior; }
    /// `reset`, `reset_immediately`, `reset_after`, `reset_at`: the next tick is rescheduled
    #[verifier::external_body] pub fn reset(&mut self)
        ensures final(self).period == old(self).period, final(self).behavior == old(self).behavior, final(self).phase@ == old(self).phase@ + 1
    { unimplemented!() }
    #[verifier::external_body] pub fn reset_immediately(&mut self)
        ensures final(self).period == old(self).period, final(self).behavior == old(self).behavior, final(self).phase@ == old(self).phase@ + 1
    { unimplemented!() }
    #[verifier::external_body] pub fn reset_after(&mut self, after: Duration)
        ensures final(self).period == old(self).period, final(self).behavior == old(self).behavior, final(self).phase@ == old(self).phase@ + 1
    { unimplemented!() }
    pub fn period(&self) -> (r: Duration) ensures r == self.period { self.period }
}
#[derive(Clone, Copy, PartialEq, Eq, Structural)]
pub enum MissedTickBehavior { Burst, Delay, Skip }
pub fn vx_interval(period: Duration) -> (r: Interval) ensures r.period == period, r.behavior == MissedTickBehavior::Burst
{ Interval { period, behavior: MissedTickBehavior::Burst, phase: Ghost(0) } }
pub mod tokio {
    pub mod time {
        pub use super::super::MissedTickBehavior;
        pub use super::super::vx_interval as interval;
        pub use super::super::timeout;
        pub use super::super::vx_sleep as sleep;
    }
    pub mod io {
        pub use super::super::{Sink, vx_sink as sink, vx_copy as copy};
    }
}
/// C14: a wait on the client's socket made by the listener task itself (not through `Connection::listen`, which
/// Listener::handle runs under `timeout(connection_timeout, ..)`) is bounded by nothing: it is allowed only where the
/// code is known to be under the connection deadline. The predicate is uninterpreted and nothing establishes it in
/// `Listener::handle`, so such a wait there is an unprovable obligation.
pub uninterp spec fn vx_under_deadline() -> bool;
/// C16: the code runs in the connection's own task (R14 marks the beginning of the block handed to `tracker.spawn`). What runs
/// before that point runs in the accept loop's task, where waiting for one client delays every other client.
pub uninterp spec fn vx_in_connection_task() -> bool;
#[verifier::external_body] pub fn vx_task_begin() ensures vx_in_connection_task() { unimplemented!() }
pub struct Sink {}
pub fn vx_sink() -> Sink { Sink {} }
#[verifier::external_body]
pub fn vx_copy(reader: &mut ProxiedStream, writer: &mut Sink) -> (r: Result<u64, IoError>)
    requires
        vx_under_deadline(), // @cl:C14+C16.socket_wait.under_connection_deadline.copy
    ensures final(reader).header == old(reader).header, final(reader).shut == old(reader).shut
{ unimplemented!() }
/// tokio::time::sleep: a wait the client cannot end; inside the listener task it extends the life of the connection
#[verifier::external_body]
pub fn vx_sleep(duration: Duration)
    requires
        vx_under_deadline(), // @cl:C14+C16.socket_wait.under_connection_deadline.sleep
{ unimplemented!() }
impl Uuid { #[verifier::external_body] pub fn new_v4() -> Uuid { unimplemented!() } }
#[verifier::external_body] pub fn vx_trace_id_string() -> String { unimplemented!() }
/// which arm of a `tokio::select!` completes first: unconstrained (R8)
#[verifier::external_body] pub fn vx_select_nondet() -> bool { unimplemented!() }

// SystemTime::now().duration_since(UNIX_EPOCH).expect(..).as_secs(): an arbitrary u64
pub struct SystemTime {}
#[derive(Clone, Copy, PartialEq, Eq, Structural)]
pub struct Duration { pub secs: u64 }
#[derive(Debug)]
pub struct SystemTimeError {}
pub const UNIX_EPOCH: SystemTime = SystemTime {};
impl SystemTime {
    #[verifier::external_body] pub fn now() -> SystemTime { unimplemented!() }
    #[verifier::external_body] pub fn duration_since(&self, earlier: SystemTime) -> (r: Result<Duration, SystemTimeError>) ensures r is Ok { unimplemented!() }
}
impl Duration {
    pub fn as_secs(&self) -> (r: u64) ensures r == self.secs { self.secs }
    pub const fn from_secs(secs: u64) -> (r: Duration) ensures r.secs == secs { Duration { secs } }
    /// sub-second constructors: some duration (the model counts whole seconds only)
    #[verifier::external_body] pub fn from_millis(ms: u64) -> Duration { unimplemented!() }
    #[verifier::external_body] pub fn from_micros(us: u64) -> Duration { unimplemented!() }
    #[verifier::external_body] pub fn from_nanos(ns: u64) -> Duration { unimplemented!() }
}
/// `"127.0.0.1:8080".parse().expect(..)`: parsing a literal socket address (R25); succeeds for this literal (assumed)
pub struct AddrParseError {}
impl std::fmt::Debug for AddrParseError { #[verifier::external_body] fn fmt(&self, f: &mut std::fmt::Formatter<'_>) -> std::fmt::Result { unimplemented!() } }
#[verifier::external_body]
pub fn vx_parse_lit(s: &str) -> (r: Result<SocketAddr, AddrParseError>) ensures r is Ok { unimplemented!() }

pub assume_specification<T> [std::option::Option::<T>::as_deref] (_0: &std::option::Option<T>) -> (r: std::option::Option<&<T as std::ops::Deref>::Target>)
    where T: std::ops::Deref;
pub open spec fn opt_str(o: Option<String>) -> Option<Seq<char>> { match o { Some(s) => Some(s@), None => None } }
/// `Option<String>::as_deref()` as used for the locale
#[verifier::external_body]
pub fn vx_as_deref(o: &Option<String>) -> (r: Option<&str>)
    ensures match (r, *o) { (Some(a), Some(b)) => a@ == b@, (None, None) => true, _ => false }
{ o.as_deref() }

// ------------------------------------------------------------------ errors of the other crates (thiserror #[from] mirrors)
impl vstd::std_specs::convert::FromSpecImpl<JsonError> for PError { open spec fn obeys_from_spec() -> bool { true } open spec fn from_spec(e: JsonError) -> PError { PError::Json(e) } }
impl From<JsonError> for PError { fn from(e: JsonError) -> (r: PError) { PError::Json(e) } }
impl vstd::std_specs::convert::FromSpecImpl<CryptoError> for PError { open spec fn obeys_from_spec() -> bool { true } open spec fn from_spec(e: CryptoError) -> PError { PError::CryptographyFailed(e) } }
impl From<CryptoError> for PError { fn from(e: CryptoError) -> (r: PError) { PError::CryptographyFailed(e) } }
impl vstd::std_specs::convert::FromSpecImpl<AdapterError> for PError { open spec fn obeys_from_spec() -> bool { true } open spec fn from_spec(e: AdapterError) -> PError { PError::AdapterError(e) } }
impl From<AdapterError> for PError { fn from(e: AdapterError) -> (r: PError) { PError::AdapterError(e) } }
/// `impl From<std::io::Error> for Error` and `impl From<passage_packets::Error> for Error` (error.rs): total
/// functions; which variant they produce is not used by any contract (only that the result is an error).
/// `impl From<std::io::Error> for Error` (error.rs) sorts by ErrorKind into ConnectionClosed / InternalIo (assumed)
pub uninterp spec fn io_conv(e: IoError) -> PError;
pub broadcast axiom fn axiom_io_conv(e: IoError)
    ensures (#[trigger] io_conv(e)) is ConnectionClosed || io_conv(e) is InternalIo;
impl vstd::std_specs::convert::FromSpecImpl<IoError> for PError { open spec fn obeys_from_spec() -> bool { true } open spec fn from_spec(e: IoError) -> PError { io_conv(e) } }
impl From<IoError> for PError { #[verifier::external_body] fn from(e: IoError) -> (r: PError) { unimplemented!() } }
impl From<Error> for PError { #[verifier::external_body] fn from(e: Error) -> (r: PError) { unimplemented!() } }

/// `impl<T> From<T> for T` is the identity (std)
pub assume_specification<T>[<T as From<T>>::from](t: T) -> (r: T) ensures r == t;

// ------------------------------------------------------------------ std functions without a vstd specification
// Sound but partial contracts (everything stated is true of std; not everything true is stated). They exist so that
// code using these functions is *analysed* instead of being rejected as unsupported.
pub assume_specification [u32::ilog2] (v: u32) -> (r: u32)
    requires v > 0
    ensures r <= 31, vstd::arithmetic::power2::pow2(r as nat) <= v, (v as int) < vstd::arithmetic::power2::pow2((r + 1) as nat);
/// in-place list surgery: the result is never longer and contains only elements that were there before
pub open spec fn from_old<T>(new: Seq<T>, old: Seq<T>) -> bool {
    new.len() <= old.len() && forall |i: int| 0 <= i < new.len() ==> old.contains(#[trigger] new[i])
}
pub assume_specification<T, A, F> [std::vec::Vec::<T, A>::dedup_by] (v: &mut std::vec::Vec<T, A>, f: F)
    where A: std::alloc::Allocator, F: std::ops::FnMut(&mut T, &mut T) -> bool
    ensures from_old(final(v)@, old(v)@), old(v)@.len() > 0 ==> final(v)@.len() > 0 && final(v)@[0] == old(v)@[0];
pub assume_specification<T, A, F, K> [std::vec::Vec::<T, A>::dedup_by_key] (v: &mut std::vec::Vec<T, A>, f: F)
    where A: std::alloc::Allocator, F: std::ops::FnMut(&mut T) -> K, K: PartialEq
    ensures from_old(final(v)@, old(v)@);
pub assume_specification<T> [<[T]>::reverse] (v: &mut [T])
    ensures final(v)@.len() == old(v)@.len(), forall |i: int| 0 <= i < old(v)@.len() ==> final(v)@[i] == old(v)@[old(v)@.len() - 1 - i];

// ------------------------------------------------------------------ adapters as oracles
// Each adapter call is a deterministic uninterpreted function of its arguments. Nothing is lost for
// safety properties: the postconditions hold for every such function, i.e. for every adapter behaviour.
pub type User = (Seq<char>, Uuid);
pub type Srv = (Seq<char>, u16);
pub uninterp spec fn status_oracle(ca: SocketAddr, sa: Srv, pv: Protocol) -> Result<Option<ServerStatus>, AdapterError>;
pub uninterp spec fn discover_oracle() -> Result<Vec<Target>, AdapterError>;
pub uninterp spec fn filter_oracle(ca: SocketAddr, sa: Srv, pv: Protocol, u: User, t: Vec<Target>) -> Result<Vec<Target>, AdapterError>;
pub uninterp spec fn select_oracle(ca: SocketAddr, sa: Srv, pv: Protocol, u: User, t: Vec<Target>) -> Result<Option<Target>, AdapterError>;
pub uninterp spec fn auth_oracle(ca: SocketAddr, sa: Srv, pv: Protocol, u: User, ss: Seq<u8>, pk: Seq<u8>) -> Result<Profile, AdapterError>;
pub uninterp spec fn localize_oracle(locale: Option<Seq<char>>, key: Seq<char>) -> Result<String, AdapterError>;

pub struct Stat {} pub struct Disc {} pub struct Filt {} pub struct Stra {} pub struct Auth {} pub struct Loca {}
impl Stat { #[verifier::external_body] pub fn status(&self, client_addr: &SocketAddr, server_addr: (&str, u16), protocol: Protocol) -> (r: Result<Option<ServerStatus>, AdapterError>)
    ensures r == status_oracle(*client_addr, (server_addr.0@, server_addr.1), protocol) { unimplemented!() } }
impl Disc { #[verifier::external_body] pub fn discover(&self) -> (r: Result<Vec<Target>, AdapterError>) ensures r == discover_oracle() { unimplemented!() } }
impl Filt { #[verifier::external_body] pub fn filter(&self, client_addr: &SocketAddr, server_addr: (&str, u16), protocol: Protocol, user: (&str, &Uuid), targets: Vec<Target>) -> (r: Result<Vec<Target>, AdapterError>)
    ensures r == filter_oracle(*client_addr, (server_addr.0@, server_addr.1), protocol, (user.0@, *user.1), targets) { unimplemented!() } }
impl Stra { #[verifier::external_body] pub fn select(&self, client_addr: &SocketAddr, server_addr: (&str, u16), protocol: Protocol, user: (&str, &Uuid), targets: Vec<Target>) -> (r: Result<Option<Target>, AdapterError>)
    ensures r == select_oracle(*client_addr, (server_addr.0@, server_addr.1), protocol, (user.0@, *user.1), targets) { unimplemented!() } }
impl Auth { #[verifier::external_body] pub fn authenticate(&self, client_addr: &SocketAddr, server_addr: (&str, u16), protocol: Protocol, user: (&str, &Uuid), shared_secret: &[u8], encoded_public: &[u8]) -> (r: Result<Profile, AdapterError>)
    ensures r == auth_oracle(*client_addr, (server_addr.0@, server_addr.1), protocol, (user.0@, *user.1), shared_secret@, encoded_public@) { unimplemented!() } }
impl Loca { #[verifier::external_body] pub fn localize(&self, locale: Option<&str>, key: &str, params: &[(&'static str, String)]) -> (r: Result<String, AdapterError>)
    ensures r == localize_oracle(match locale { Some(l) => Some(l@), None => None }, key@) { unimplemented!() } }

// ------------------------------------------------------------------ crypto / cookie / json
pub uninterp spec fn rsa_decrypt(ct: Seq<u8>) -> Result<Vec<u8>, CryptoError>;
pub uninterp spec fn pub_key() -> Seq<u8>;
/// "these bytes are what one successful call of the operating-system RNG wrote" (uninterpreted; only `crypto::generate_token` produces it, U12)
pub uninterp spec fn from_os_rng(bytes: Seq<u8>) -> bool;
/// what serde_json prints depends on the *content* of a cookie (strings by value), not on object identity
pub struct AuthView { pub timestamp: u64, pub client_addr: SocketAddr, pub user_name: Seq<char>, pub user_id: Uuid, pub target: Option<Seq<char>>, pub props: Vec<ProfileProperty>, pub extra: ExtraMap }
pub open spec fn auth_view(c: AuthCookie) -> AuthView {
    AuthView { timestamp: c.timestamp, client_addr: c.client_addr, user_name: c.user_name@, user_id: c.user_id, target: opt_str(c.target), props: c.profile_properties, extra: c.extra }
}
pub struct SessionView { pub id: Uuid, pub server_address: Seq<char>, pub server_port: u16, pub trace_id: Option<Seq<char>> }
pub open spec fn session_view(c: SessionCookie) -> SessionView {
    SessionView { id: c.id, server_address: c.server_address@, server_port: c.server_port, trace_id: opt_str(c.trace_id) }
}
pub uninterp spec fn json_auth(c: AuthView) -> Seq<char>;
pub uninterp spec fn parse_auth(b: Seq<u8>) -> Result<AuthCookie, JsonError>;
pub uninterp spec fn json_session(c: SessionView) -> Seq<char>;
pub uninterp spec fn parse_session(b: Seq<u8>) -> Result<SessionCookie, JsonError>;
pub uninterp spec fn json_status(c: Option<ServerStatus>) -> Seq<char>;

pub mod crypto {
    use super::*;
    pub use super::CryptoError as Error;
    #[verifier::external_body] pub fn encoded_pub() -> (r: &'static Vec<u8>) ensures r@ == pub_key(), r@.len() <= 0xffff { unimplemented!() }
    #[verifier::external_body] pub fn private_key() -> &'static PrivKey { unimplemented!() }
    /// fresh random 32 bytes: any value, marked as the operating-system RNG's output (contract proved on the real function text in unit U12)
    #[verifier::external_body] pub fn generate_token() -> (r: Result<VerifyToken, CryptoError>) ensures r matches Ok(t) ==> from_os_rng(t@) { unimplemented!() }
    #[verifier::external_body] pub fn generate_keep_alive() -> u64 { unimplemented!() }
    #[verifier::external_body] pub fn decrypt(key: &PrivKey, value: &[u8]) -> (r: Result<Vec<u8>, CryptoError>) ensures r == rsa_decrypt(value@) { unimplemented!() }
    /// contract proved by Kani on the real function text (unit U2b)
    #[verifier::external_body] pub fn verify_token(expected: VerifyToken, actual: &[u8]) -> (r: bool) ensures r == (expected@ == actual@) { unimplemented!() }
}
// serde_json (de)serialisation of the cookie / status types: uninterpreted (see U1 prelude, mod serde_json)
impl serde_json::JsonSer for AuthCookie { open spec fn json_text(&self) -> Seq<char> { json_auth(auth_view(*self)) } }
impl serde_json::JsonDe for AuthCookie { open spec fn json_parse(b: Seq<u8>) -> Result<AuthCookie, JsonError> { parse_auth(b) } }
impl serde_json::JsonSer for SessionCookie { open spec fn json_text(&self) -> Seq<char> { json_session(session_view(*self)) } }
impl serde_json::JsonDe for SessionCookie { open spec fn json_parse(b: Seq<u8>) -> Result<SessionCookie, JsonError> { parse_session(b) } }
impl serde_json::JsonSer for Option<ServerStatus> { open spec fn json_text(&self) -> Seq<char> { json_status(*self) } }

// ------------------------------------------------------------------ cipher + socket
pub struct Aes128Cfb8Enc { pub key: Ghost<Seq<u8>>, pub reg: Ghost<Seq<u8>> }
pub struct Aes128Cfb8Dec { pub key: Ghost<Seq<u8>>, pub reg: Ghost<Seq<u8>> }
// `create_ciphers`: contract proved in unit U5, emitted here from U5's contracts.toml (see common.py)

// ------------------------------------------------------------------ listener side (U9): socket, PROXY protocol, limiter
pub struct TcpStream { pub id: int }
#[derive(Clone, Copy)]
pub struct ParseConfig { pub include_tlvs: bool, pub allow_v1: bool, pub allow_v2: bool }
/// proxy-header 0.1.2 `impl Default for ParseConfig`: everything on
impl Default for ParseConfig {
    fn default() -> (r: ParseConfig) ensures r.include_tlvs && r.allow_v1 && r.allow_v2 { ParseConfig { include_tlvs: true, allow_v1: true, allow_v2: true } }
}
#[derive(Clone, Copy)]
pub struct ProxiedAddress { pub source: SocketAddr, pub destination: SocketAddr }
pub struct ProxyHeader { pub addr: Option<ProxiedAddress> }
impl ProxyHeader {
    pub fn proxied_address(&self) -> (r: Option<&ProxiedAddress>)
        ensures match (r, self.addr) { (Some(a), Some(b)) => *a == b, (None, None) => true, _ => false }
    { self.addr.as_ref() }
}
/// what the proxy-header crate makes of the first bytes of this socket under this configuration:
/// Err (no valid header of an enabled version) or the announced addresses (None for a LOCAL header). Trusted.
pub uninterp spec fn proxy_parse(stream: TcpStream, config: ParseConfig) -> Result<Option<ProxiedAddress>, ()>;
pub struct ProxiedStream { pub header: ProxyHeader, pub shut: Ghost<bool> }
impl ProxiedStream {
    #[verifier::external_body]
    pub fn create_from_tokio(stream: TcpStream, config: ParseConfig) -> (r: Result<ProxiedStream, IoError>)
        requires
            vx_in_connection_task(), // @cl:C16.accept_loop.never_waits_for_a_client.proxy_header
        ensures match r { Ok(s) => proxy_parse(stream, config) == Ok::<Option<ProxiedAddress>, ()>(s.header.addr) && !s.shut@, Err(_) => proxy_parse(stream, config) is Err }
    { unimplemented!() }
    #[verifier::external_body]
    pub fn unproxied(stream: TcpStream) -> (r: ProxiedStream) ensures r.header.addr is None, !r.shut@ { unimplemented!() }
    pub fn proxy_header(&self) -> (r: &ProxyHeader) ensures *r == self.header { &self.header }
    #[verifier::external_body]
    pub fn shutdown(&mut self) -> (r: Result<(), IoError>) ensures final(self).shut@, final(self).header == old(self).header { unimplemented!() }
    // AsyncReadExt on the socket itself: waits for the client (C14, see vx_under_deadline)
    #[verifier::external_body]
    pub fn read(&mut self, buf: &mut [u8]) -> (r: Result<usize, IoError>)
        requires
            vx_under_deadline(), // @cl:C14+C16.socket_wait.under_connection_deadline.read
        ensures final(self).header == old(self).header, final(self).shut == old(self).shut
    { unimplemented!() }
    #[verifier::external_body]
    pub fn read_exact(&mut self, buf: &mut [u8]) -> (r: Result<usize, IoError>)
        requires
            vx_under_deadline(), // @cl:C14+C16.socket_wait.under_connection_deadline.read_exact
        ensures final(self).header == old(self).header, final(self).shut == old(self).shut
    { unimplemented!() }
    #[verifier::external_body]
    pub fn read_to_end(&mut self, buf: &mut Vec<u8>) -> (r: Result<usize, IoError>)
        requires
            vx_under_deadline(), // @cl:C14+C16.socket_wait.under_connection_deadline.read_to_end
        ensures final(self).header == old(self).header, final(self).shut == old(self).shut
    { unimplemented!() }
    #[verifier::external_body]
    pub fn read_u8(&mut self) -> (r: Result<u8, IoError>)
        requires
            vx_under_deadline(), // @cl:C14+C16.socket_wait.under_connection_deadline.read_u8
        ensures final(self).header == old(self).header, final(self).shut == old(self).shut
    { unimplemented!() }
}
/// `RateLimiter<IpAddr>`: the keys it was asked about, in order; its verdict is an uninterpreted function of that history
/// (the limiter itself is unit U8)
pub uninterp spec fn admit_oracle(history: Seq<IpAddr>, key: IpAddr) -> bool;
pub struct RateLimiter { pub calls: Ghost<Seq<IpAddr>>, pub dur: Ghost<Duration>, pub lim: Ghost<usize> }
impl RateLimiter {
    #[verifier::external_body]
    pub fn new(duration: Duration, limit: usize) -> (r: RateLimiter)
        ensures r.calls@.len() == 0, r.dur@ == duration, r.lim@ == limit
    { unimplemented!() }
    #[verifier::external_body]
    pub fn enqueue(&mut self, key: IpAddr) -> (r: bool)
        ensures final(self).calls@ == old(self).calls@.push(key), r == admit_oracle(old(self).calls@, key),
            final(self).dur == old(self).dur, final(self).lim == old(self).lim
    { unimplemented!() }
}
pub struct TaskTracker {}
impl TaskTracker { #[verifier::external_body] pub fn new() -> TaskTracker { unimplemented!() } }
pub struct Elapsed {}
/// tokio::time::timeout: the inner future either completes or the deadline passes (trusted); C14 makes the
/// *duration argument* an obligation at the call site
pub uninterp spec fn cfg_timeout() -> Duration;
/// C15 (U11): whether the operator enabled the limiter, and the PROXY settings
pub uninterp spec fn cfg_limiter_enabled() -> bool;
pub uninterp spec fn cfg_proxy() -> Option<ParseConfig>;
#[verifier::external_body]
pub fn timeout<T>(duration: Duration, value: T) -> (r: Result<T, Elapsed>)
    requires
        duration == cfg_timeout(), // @cl:C14.timeout.configured_deadline
    ensures r matches Ok(v) ==> v == value
{ unimplemented!() }

/// packet-level events of one connection (ghost)
pub enum Ev {
    /// a complete frame with this packet id and this body was taken from the client
    Recv(VarInt, Seq<u8>),
    /// this packet was handed to the socket (one complete frame, one write)
    Send(Sent),
    /// the keep-alive timer fired while keep-alives are being served
    Tick,
    /// the client echoed this keep-alive id
    Echo(u64),
    /// the wall clock was read (seconds since the epoch)
    Clock(u64),
    /// a routing adapter is about to be consulted: 0 discovery, 1 filter, 2 strategy
    Routing(int),
}

/// `CipherStream<S, Aes128Cfb8Enc, Aes128Cfb8Dec>`: the client's future input as a byte cursor, the plaintext
/// written so far, the installed cipher key, and the ghost event log.
pub struct Stream {
    pub inp: Reader,
    pub out: Ghost<Seq<u8>>,
    pub writes: Ghost<nat>,
    pub key: Ghost<Option<Seq<u8>>>,
    pub ev: Ghost<Seq<Ev>>,
}
impl Stream {
    pub open spec fn wf(&self) -> bool { self.inp.wf() }
    pub open spec fn rest(&self) -> Seq<u8> { self.inp.rest() }
    pub open spec fn same_out(&self, o: &Stream) -> bool { self.out == o.out && self.writes == o.writes && self.key == o.key && self.ev == o.ev }
    pub open spec fn advanced(&self, o: &Stream) -> bool { self.inp.advanced(&o.inp) && self.same_out(o) }
    /// socket write: may fail; on success the whole buffer has been accepted, in one piece
    #[verifier::external_body]
    pub fn write_all(&mut self, buf: &[u8]) -> (r: Result<(), IoError>)
        ensures final(self).inp == old(self).inp, final(self).key == old(self).key, final(self).ev == old(self).ev,
            r is Ok ==> final(self).out@ == old(self).out@ + buf@ && final(self).writes@ == old(self).writes@ + 1,
            r is Err ==> final(self).out == old(self).out && final(self).writes == old(self).writes,
    { unimplemented!() }
    /// `take(limit).read_to_end(buf)` (R21), same contract as the verified Reader model of U1
    pub fn vx_take_read_to_end(&mut self, limit: u64, buf: &mut Vec<u8>) -> (r: Result<usize, IoError>)
        requires old(self).wf()
        ensures final(self).advanced(old(self)), r matches Ok(n) && ({
            let m = if limit < old(self).rest().len() { limit as int } else { old(self).rest().len() as int };
            &&& n == m
            &&& final(buf)@ == old(buf)@ + old(self).rest().subrange(0, m)
            &&& final(self).rest() == old(self).rest().subrange(m, old(self).rest().len() as int)
        }),
    { self.inp.vx_take_read_to_end(limit, buf) }
    pub fn set_encryption(&mut self, encryptor: Option<Aes128Cfb8Enc>, decryptor: Option<Aes128Cfb8Dec>)
        ensures final(self).inp == old(self).inp, final(self).out == old(self).out, final(self).writes == old(self).writes, final(self).ev == old(self).ev,
            final(self).key@ == (match encryptor { Some(e) => Some(e.key@), None => None }),
    { proof { self.key@ = match encryptor { Some(e) => Some(e.key@), None => None }; } }
}
pub struct CipherStream {}
impl CipherStream {
    /// wraps the socket: nothing written, no cipher, empty event log; the bytes the client will send are arbitrary
    #[verifier::external_body]
    pub fn from_stream<S>(inner: S) -> (r: Stream)
        ensures r.wf(), r.out@ == Seq::<u8>::empty(), r.writes@ == 0, r.key@ is None, r.ev@ == Seq::<Ev>::empty()
    { unimplemented!() }
}
pub type Cursor = Reader;
impl Reader {
    pub fn new(data: Vec<u8>) -> (r: Reader) ensures r.data == data, r.pos == 0, r.wf(), r.rest() == data@
    { let r = Reader { data, pos: 0 }; proof { assert(r.rest() =~= data@); } r }
}

/// cookie timestamps are seconds since 1970 and far below 2^63 (assumption; only holders of the secret can
/// produce a cookie that passes the tag check at all)
pub broadcast axiom fn axiom_cookie_timestamp(b: Seq<u8>)
    ensures #[trigger] parse_auth(b) matches Ok(c) ==> c.timestamp < 0x8000_0000_0000_0000;

/// Rust guarantees that no allocation exceeds isize::MAX bytes (trusted language invariant)
pub broadcast axiom fn axiom_vec_u8_len(v: Vec<u8>)
    ensures #[trigger] v@.len() <= isize::MAX;

/// the localized timeout message for this locale was sent as a Disconnect (C07)
pub open spec fn timeout_disc(e: Ev, locale: Option<Seq<char>>) -> bool {
    e matches Ev::Send(Sent::Disconnect { reason }) && (localize_oracle(locale, "disconnect_timeout"@) matches Ok(s) && s@ == reason)
}

// ------------------------------------------------------------------ event-log vocabulary
pub open spec fn pushed(old_ev: Seq<Ev>, new_ev: Seq<Ev>, e: Ev) -> bool {
    &&& new_ev.len() == old_ev.len() + 1
    &&& new_ev[old_ev.len() as int] == e
    &&& forall |i: int| #![trigger new_ev[i]] #![trigger old_ev[i]] 0 <= i < old_ev.len() ==> new_ev[i] == old_ev[i]
}
pub open spec fn extends(old_ev: Seq<Ev>, new_ev: Seq<Ev>) -> bool {
    &&& old_ev.len() <= new_ev.len()
    &&& forall |i: int| #![trigger new_ev[i]] #![trigger old_ev[i]] 0 <= i < old_ev.len() ==> new_ev[i] == old_ev[i]
}
/// the keep-alive id that is unanswered after `ev`
#[verifier::opaque]
pub open spec fn outstanding(ev: Seq<Ev>) -> Option<u64>
    decreases ev.len()
{
    if ev.len() == 0 { None } else {
        let prev = outstanding(ev.drop_last());
        match ev.last() {
            Ev::Send(Sent::KeepAlive { id }) => Some(id),
            Ev::Echo(id) => if prev == Some(id) { None } else { prev },
            _ => prev,
        }
    }
}

} // verus!
