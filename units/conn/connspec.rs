// Specification vocabulary over the extracted `Connection` struct (U3, U4).
verus! {

impl Connection {
    /// configuration and identity fields: never changed by the protocol functions
    pub closed spec fn same_cfg(&self, o: &Connection) -> bool {
        &&& self.auth_secret == o.auth_secret
        &&& self.max_packet_length == o.max_packet_length
        &&& self.auth_cookie_expiry == o.auth_cookie_expiry
        &&& self.client_address == o.client_address
        &&& self.client_locale == o.client_locale
        // C07: the keep-alive timer (period, missed-tick behaviour and phase) is nobody's to touch after `new`
        &&& self.keep_alive_interval == o.keep_alive_interval
    }
    /// representation invariant of the keep-alive state (C07 a): the stored id is exactly the keep-alive
    /// that was sent and not yet echoed
    pub closed spec fn ka_inv(&self) -> bool { self.keep_alive_id == outstanding(self.stream.ev@) }
    pub closed spec fn wf(&self) -> bool { self.stream.wf() }
    /// C04: the configured maximum frame length is within the allocation budget the decoders are verified against
    pub closed spec fn budget_ok(&self) -> bool { self.max_packet_length <= alloc_budget() }
    pub closed spec fn ev(&self) -> Seq<Ev> { self.stream.ev@ }
    pub closed spec fn key(&self) -> Option<Seq<u8>> { self.stream.key@ }
    // operator-controlled configuration (C14, C15), readable from other modules
    pub closed spec fn spec_secret(&self) -> Option<Seq<u8>> { match self.auth_secret { Some(v) => Some(v@), None => None } }
    pub closed spec fn spec_max_len(&self) -> i32 { self.max_packet_length }
    pub closed spec fn spec_expiry(&self) -> u64 { self.auth_cookie_expiry }
    pub closed spec fn spec_addr(&self) -> SocketAddr { self.client_address }
    /// a connection on which nothing has happened yet
    pub closed spec fn fresh(&self) -> bool {
        self.stream.wf() && self.stream.ev@.len() == 0 && self.stream.key@ is None && self.keep_alive_id is None && self.stream.writes@ == 0
    }
    pub closed spec fn ka_period(&self) -> (u64, tokio::time::MissedTickBehavior) { (self.keep_alive_interval.period.secs, self.keep_alive_interval.behavior) }
    pub closed spec fn locale(&self) -> Option<Seq<char>> { opt_str(self.client_locale) }
}

/// C07: the frame most recently taken from the client is a configuration-phase Keep Alive (id 0x04) that carries `id`
pub open spec fn echo_frame_last(ev: Seq<Ev>, id: u64) -> bool {
    ev.len() > 0 && (ev.last() matches Ev::Recv(rid, body) && rid == 0x04
        && (decode_of::<conf_in::KeepAlivePacket>(body) matches Ok(p) && p.id == id))
}
/// no Keep Alive frame of the client is waiting to be recorded as an echo
pub open spec fn echo_settled(ev: Seq<Ev>) -> bool {
    !(ev.len() > 0 && (ev.last() matches Ev::Recv(rid, body) && rid == 0x04 && decode_of::<conf_in::KeepAlivePacket>(body) is Ok))
}

pub open spec fn ka_kind(e: Ev) -> bool { e is Tick || e matches Ev::Send(Sent::KeepAlive { .. }) }

/// what `receive_packet(true)` may append to the event log
pub open spec fn recv_ka(old_ev: Seq<Ev>, new_ev: Seq<Ev>, ok: Option<(VarInt, Seq<u8>)>, missed: bool, locale: Option<Seq<char>>) -> bool {
    &&& extends(old_ev, new_ev)
    &&& forall |i: int| old_ev.len() <= i < new_ev.len() ==> (#[trigger] ka_kind(new_ev[i])
            || (i == new_ev.len() - 1 && (ok matches Some(f) && new_ev[i] == Ev::Recv(f.0, f.1)))
            || (i == new_ev.len() - 1 && missed && timeout_disc(new_ev[i], locale)))
    &&& (ok matches Some(f) ==> new_ev.len() > old_ev.len() && new_ev.last() == Ev::Recv(f.0, f.1))
}

pub open spec fn ka_mid_kind(e: Ev) -> bool { ka_kind(e) || e is Recv || e is Echo }
/// keep-alive service still running: only ticks, keep-alives, received frames and echoes were appended
pub open spec fn ka_mid(old_ev: Seq<Ev>, new_ev: Seq<Ev>) -> bool {
    &&& extends(old_ev, new_ev)
    &&& forall |i: int| old_ev.len() <= i < new_ev.len() ==> #[trigger] ka_mid_kind(new_ev[i])
}
/// what serving keep-alives (`keep_alive()`, the client-information loop) may append: ticks, keep-alives, frames
/// taken from the client, echoes, and at the very end the timeout Disconnect
pub open spec fn ka_service(old_ev: Seq<Ev>, new_ev: Seq<Ev>, locale: Option<Seq<char>>) -> bool {
    &&& extends(old_ev, new_ev)
    &&& forall |i: int| old_ev.len() <= i < new_ev.len() ==> (#[trigger] ka_mid_kind(new_ev[i])
            || (i == new_ev.len() - 1 && timeout_disc(new_ev[i], locale)))
}

/// C07 trace predicate: a Keep Alive is only ever sent on a timer tick and only while none is unanswered; a Disconnect that
/// follows a timer tick (the inactivity timeout) is only sent while one is unanswered - a client that echoed is not dropped
#[verifier::opaque]
pub open spec fn ka_wf(ev: Seq<Ev>) -> bool {
    forall |i: int| 0 <= i < ev.len() ==> (
        ((#[trigger] ev[i]) matches Ev::Send(Sent::KeepAlive { .. }) ==> i >= 1 && ev[i - 1] is Tick && outstanding(ev.subrange(0, i)) is None)
        && (ev[i] matches Ev::Send(Sent::Disconnect { .. }) && i >= 1 && ev[i - 1] is Tick ==> outstanding(ev.subrange(0, i)) is Some)
    )
}
/// a Disconnect right after a timer tick needs an unanswered Keep Alive
pub open spec fn drop_allowed(ev: Seq<Ev>, e: Ev) -> bool {
    e matches Ev::Send(Sent::Disconnect { .. }) && ev.len() >= 1 && ev.last() is Tick ==> outstanding(ev) is Some
}
pub proof fn lemma_ka_wf_push_other(ev: Seq<Ev>, e: Ev)
    requires ka_wf(ev), !(e matches Ev::Send(Sent::KeepAlive { .. })), drop_allowed(ev, e)
    ensures ka_wf(ev.push(e))
{
    reveal(ka_wf);
    let n = ev.push(e);
    assert forall |i: int| 0 <= i < n.len() implies (((#[trigger] n[i]) matches Ev::Send(Sent::KeepAlive { .. }) ==> i >= 1 && n[i - 1] is Tick && outstanding(n.subrange(0, i)) is None)
        && (n[i] matches Ev::Send(Sent::Disconnect { .. }) && i >= 1 && n[i - 1] is Tick ==> outstanding(n.subrange(0, i)) is Some)) by {
        if i < ev.len() { assert(n[i] == ev[i]); assert(n.subrange(0, i) =~= ev.subrange(0, i)); if i >= 1 { assert(n[i - 1] == ev[i - 1]); } }
        else { assert(n.subrange(0, i) =~= ev); if i >= 1 { assert(n[i - 1] == ev[ev.len() - 1]); } }
    }
}
pub proof fn lemma_ka_wf_push_keepalive(ev: Seq<Ev>, id: u64)
    requires ka_wf(ev), ev.len() >= 1, ev.last() is Tick, outstanding(ev) is None
    ensures ka_wf(ev.push(Ev::Send(Sent::KeepAlive { id })))
{
    reveal(ka_wf);
    let e = Ev::Send(Sent::KeepAlive { id });
    let n = ev.push(e);
    assert forall |i: int| 0 <= i < n.len() implies (((#[trigger] n[i]) matches Ev::Send(Sent::KeepAlive { .. }) ==> i >= 1 && n[i - 1] is Tick && outstanding(n.subrange(0, i)) is None)
        && (n[i] matches Ev::Send(Sent::Disconnect { .. }) && i >= 1 && n[i - 1] is Tick ==> outstanding(n.subrange(0, i)) is Some)) by {
        if i < ev.len() { assert(n[i] == ev[i]); assert(n.subrange(0, i) =~= ev.subrange(0, i)); if i >= 1 { assert(n[i - 1] == ev[i - 1]); } }
        else { assert(n.subrange(0, i) =~= ev); assert(n[i - 1] == ev[ev.len() - 1]); }
    }
}
pub proof fn lemma_ka_wf_empty(ev: Seq<Ev>)
    requires ev.len() == 0
    ensures ka_wf(ev)
{ reveal(ka_wf); }
/// `pushed` form of the two lemmas (for callers that only know the pointwise relation)
pub proof fn lemma_ka_wf_pushed_other(old_ev: Seq<Ev>, new_ev: Seq<Ev>, e: Ev)
    requires ka_wf(old_ev), pushed(old_ev, new_ev, e), !(e matches Ev::Send(Sent::KeepAlive { .. })), drop_allowed(old_ev, e)
    ensures ka_wf(new_ev)
{ assert(new_ev =~= old_ev.push(e)); lemma_ka_wf_push_other(old_ev, e); }

pub proof fn lemma_outstanding_push(ev: Seq<Ev>, e: Ev)
    ensures outstanding(ev.push(e)) == (match e {
        Ev::Send(Sent::KeepAlive { id }) => Some(id),
        Ev::Echo(id) => if outstanding(ev) == Some(id) { None } else { outstanding(ev) },
        _ => outstanding(ev),
    })
{
    reveal(outstanding);
    assert(ev.push(e).drop_last() =~= ev);
}

} // verus!
