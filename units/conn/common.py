"""Shared base of the connection-level units (U3, U4, U9): U1 codec interface + U2 cookie contracts +
connection prelude + struct definitions extracted from /repo."""
import os
import sys

HERE = os.path.dirname(os.path.abspath(__file__))
sys.path.insert(0, os.path.join(HERE, "..", "..", "lib"))
import vxlib  # noqa: E402
import runner  # noqa: E402

PP = "passage-protocol/src/"
PA = "passage-adapters/src/"

ERR_SUBST = {
    "std::io::Error": "IoError",
    "serde_json::Error": "JsonError",
    "crypto::Error": "CryptoError",
    "reqwest::Error": "ReqwestError",
    "passage_packets::fastnbt::error::Error": "NbtError",
    "passage_adapters::Error": "AdapterError",
}
CONN_GENERICS = ["S", "Stat", "Disc", "Filt", "Stra", "Auth", "Loca"]
CONN_SUBST = {"CipherStream<S,Aes128Cfb8Enc,Aes128Cfb8Dec>": "Stream", "Cursor<Vec<u8>>": "Reader", "S": "&mut ProxiedStream"}
STATICS = {
    "crypto::ENCODED_PUB": "crypto::encoded_pub()",
    "crypto::KEY_PAIR.0": "crypto::private_key()",
}
# `use` lines of connection.rs, mirrored by hand (module aliases only)
CONN_USES = """
    use super::*;
    use super::error::Error;
    use super::handshake::serverbound as hand_in;
    use super::status::serverbound as status_in;
    use super::status::clientbound as status_out;
    use super::login::serverbound as login_in;
    use super::login::clientbound as login_out;
    use super::configuration::serverbound as conf_in;
    use super::configuration::clientbound as conf_out;
    use std::sync::Arc;
"""
CONN_RULES = ["deasync", "attrs", "log", "match_packet", "select", "const_pat", "let_chain", "closure_wild", "label_block",
              "statics", "mut_self", "generics", "take_read", "break_value", "as_deref", "try_desugar", "parse_lit"]


def read_text(*parts):
    with open(os.path.join(HERE, *parts)) as f:
        return f.read()


def conn_fn_item(key, name, contract, vacuity, extra_anchors=None):
    return {"key": key, "file": PP + "connection.rs", "kind": "impl_fn", "name": name, "rules": CONN_RULES,
            "macro_file": PP + "connection.rs", "statics": STATICS, "subst": CONN_SUBST, "select_cancel": ["keep_alive"],
            "anchors": vxlib.anchors_for(contract, vacuity) + (extra_anchors or [])}


def base_items():
    return [
        {"key": "error.Error", "file": PP + "error.rs", "kind": "enum", "name": "Error", "rules": ["attrs", "generics"], "subst": ERR_SUBST},
        {"key": "adapters.Target", "file": PA + "lib.rs", "kind": "struct", "name": "Target", "rules": ["attrs", "generics"], "subst": {"HashMap<String,String>": "MetaMap"}},
        {"key": "adapters.Profile", "file": PA + "authentication/mod.rs", "kind": "struct", "name": "Profile", "rules": ["attrs"]},
        {"key": "adapters.ProfileProperty", "file": PA + "authentication/mod.rs", "kind": "struct", "name": "ProfileProperty", "rules": ["attrs"]},
        {"key": "cookie.AuthCookie", "file": PP + "cookie.rs", "kind": "struct", "name": "AuthCookie", "rules": ["attrs", "generics"], "subst": {"HashMap<String,String>": "ExtraMap"}},
        {"key": "cookie.SessionCookie", "file": PP + "cookie.rs", "kind": "struct", "name": "SessionCookie", "rules": ["attrs"]},
        {"key": "cookie.AUTH_COOKIE_KEY", "file": PP + "cookie.rs", "kind": "const", "name": "AUTH_COOKIE_KEY", "rules": ["attrs", "const_static"]},
        {"key": "cookie.SESSION_COOKIE_KEY", "file": PP + "cookie.rs", "kind": "const", "name": "SESSION_COOKIE_KEY", "rules": ["attrs", "const_static"]},
        {"key": "connection.Connection", "file": PP + "connection.rs", "kind": "struct", "name": "Connection", "rules": ["attrs", "generics"],
         "subst": CONN_SUBST, "drop_generics": CONN_GENERICS},
        {"key": "connection.DEFAULT_MAX_PACKET_LENGTH", "file": PP + "connection.rs", "kind": "const", "name": "DEFAULT_MAX_PACKET_LENGTH", "rules": ["attrs"]},
        {"key": "connection.DEFAULT_AUTH_COOKIE_EXPIRY", "file": PP + "connection.rs", "kind": "const", "name": "DEFAULT_AUTH_COOKIE_EXPIRY", "rules": ["attrs"]},
        {"key": "connection.KEEP_ALIVE_INTERVAL", "file": PP + "connection.rs", "kind": "const", "name": "KEEP_ALIVE_INTERVAL", "rules": ["attrs"]},
        {"key": "cookie.sign", "file": PP + "cookie.rs", "kind": "fn", "name": "sign", "rules": ["attrs", "log"]},
        {"key": "cookie.verify", "file": PP + "cookie.rs", "kind": "fn", "name": "verify", "rules": ["attrs", "log"]},
        {"key": "stream.create_ciphers", "file": PP + "crypto/stream.rs", "kind": "fn", "name": "create_ciphers", "rules": ["attrs"]},
    ]


def start_unit(name, vacuity):
    """U1 interface + U2 prelude + conn prelude; returns (unit, U2 contracts)."""
    u1 = runner.load_unit("U1")
    u = u1.build(vacuity=False, interface=True)
    u.name = name
    with open(os.path.join(HERE, "..", "U2", "prelude.rs")) as f:
        u.raw(f.read())
    if vacuity:
        u.raw(vxlib.VAC_PRELUDE)
    c2 = vxlib.load_contracts(os.path.join(HERE, "..", "U2", "contracts.toml"))
    fnc2 = {k: vxlib.FnContract(k, v) for k, v in c2.get("fn", {}).items()}
    return u, fnc2


def stream_read_varint(u, vacuity=False):
    """`self.stream.read_varint()`: the U1 contract of read_varint, transposed to the socket model."""
    import copy
    u1dir = os.path.join(HERE, "..", "U1")
    c1 = vxlib.load_contracts(os.path.join(u1dir, "contracts.toml"))
    d = copy.deepcopy(c1["fn"]["reader.read_varint"])
    d.pop("loops", None)
    d.pop("proof", None)
    fc = vxlib.FnContract("stream.read_varint", d)
    # the U1 clause ids keep their names; the frame on the other stream fields is added
    fc.ensures.append(vxlib.Clause("stream.read_varint.frame", "ensures", "final(self).same_out(old(self))", ["C04"], "stream.read_varint"))
    ex = vxlib.run_vx([{"key": "reader.read_varint", "file": "passage-packets/src/reader.rs", "kind": "impl_fn", "trait": "AsyncReadPacket",
                        "name": "read_varint", "rules": ["deasync", "attrs"]}])
    it = ex["reader.read_varint"]
    it["vis"] = "pub"
    u.raw("impl Stream {\n")
    u.add_fn(it, fc, mode="external", indent="    ")
    u.raw("}\n")


def emit_base(u, ex, fnc2):
    """Everything between the codec interface and the unit's own functions."""
    u.raw("verus! {\n")
    u.raw("pub mod error {\n    use super::*;\n")
    u.add_item_text(ex["error.Error"])
    u.raw("}\npub use error::Error as PError;\npub mod passage_packets { pub use super::Error; }\n")
    for k in ["adapters.Target", "adapters.Profile", "adapters.ProfileProperty", "cookie.AuthCookie", "cookie.SessionCookie",
              "cookie.AUTH_COOKIE_KEY", "cookie.SESSION_COOKIE_KEY"]:
        u.add_item_text(ex[k])
    # cookie::sign / verify: contracts proved in U2, assumed here
    for f in ["sign", "verify"]:
        u.add_fn(ex[f"cookie.{f}"], fnc2[f"cookie.{f}"], mode="external", indent="")
    # crypto::stream::create_ciphers: contract proved in U5, assumed here
    c5 = vxlib.load_contracts(os.path.join(HERE, "..", "U5", "contracts.toml"))
    ex["stream.create_ciphers"]["ret"] = "Result<(Aes128Cfb8Enc, Aes128Cfb8Dec), CryptoError>"
    u.add_fn(ex["stream.create_ciphers"], vxlib.FnContract("stream.create_ciphers", c5["fn"]["stream.create_ciphers"]), mode="external", indent="")
    u.raw("} // verus!\n")
    u.raw(vxlib.with_includes(read_text("prelude.rs")))
    u.raw("verus! {\n")
    stream_read_varint(u)
    u.raw("pub mod connection {\n" + CONN_USES)
    u.add_item_text(ex["connection.Connection"])
    for k in ["connection.DEFAULT_MAX_PACKET_LENGTH", "connection.DEFAULT_AUTH_COOKIE_EXPIRY", "connection.KEEP_ALIVE_INTERVAL"]:
        u.add_item_text(ex[k])
    # module `connection` stays open: the unit appends connspec + its functions and closes it
    u.raw(read_text("connspec.rs").replace("verus! {", "").replace("} // verus!", ""))
