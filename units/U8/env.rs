// U8 environment (generated Kani crate): what `rate_limiter.rs` imports, modelled just far enough for the *unmodified*
// text of `RateLimiter::{new, enqueue}` to compile and run under Kani.
//   tokio::time::Instant  -> a Duration since an arbitrary epoch, `now()` reads the harness-controlled clock
//   std HashMap           -> a two-slot association list with the same entry/or_insert/retain/len interface
//   crate::metrics        -> no-ops
#![allow(dead_code, unused_variables, static_mut_refs)]
pub use std::time::Duration;
use std::hash::Hash;

#[derive(Clone, Copy, PartialEq, Eq, PartialOrd, Ord, Debug)]
pub struct Instant(pub Duration);
pub static mut NOW: Duration = Duration::ZERO;
impl Instant {
    pub fn now() -> Instant { unsafe { Instant(NOW) } }
    pub fn saturating_duration_since(&self, earlier: Instant) -> Duration { self.0.saturating_sub(earlier.0) }
    pub fn duration_since(&self, earlier: Instant) -> Duration { self.0.saturating_sub(earlier.0) }
    pub fn checked_add(&self, d: Duration) -> Option<Instant> { self.0.checked_add(d).map(Instant) }
    pub fn checked_sub(&self, d: Duration) -> Option<Instant> { self.0.checked_sub(d).map(Instant) }
    pub fn elapsed(&self) -> Duration { Instant::now().0.saturating_sub(self.0) }
}
// tokio's Instant arithmetic (panics on overflow like std's)
impl std::ops::Add<Duration> for Instant { type Output = Instant; fn add(self, d: Duration) -> Instant { Instant(self.0 + d) } }
impl std::ops::Sub<Duration> for Instant { type Output = Instant; fn sub(self, d: Duration) -> Instant { Instant(self.0 - d) } }
impl std::ops::Sub<Instant> for Instant { type Output = Duration; fn sub(self, o: Instant) -> Duration { self.0.saturating_sub(o.0) } }
impl std::ops::AddAssign<Duration> for Instant { fn add_assign(&mut self, d: Duration) { self.0 = self.0 + d; } }
impl std::ops::SubAssign<Duration> for Instant { fn sub_assign(&mut self, d: Duration) { self.0 = self.0 - d; } }


pub const SLOTS: usize = 2;
pub struct HashMap<K, V> { pub slots: [Option<(K, V)>; SLOTS] }
pub struct Entry<'a, K, V> { map: &'a mut HashMap<K, V>, key: K }
impl<K: Eq + Copy, V> HashMap<K, V> {
    pub fn new() -> Self { HashMap { slots: [None, None] } }
    pub fn entry(&mut self, key: K) -> Entry<'_, K, V> { Entry { map: self, key } }
    pub fn len(&self) -> usize { self.slots.iter().filter(|s| s.is_some()).count() }
    pub fn get(&self, key: &K) -> Option<&V> {
        for s in self.slots.iter() { if let Some((k, v)) = s { if k == key { return Some(v); } } }
        None
    }
    pub fn retain<F: FnMut(&K, &mut V) -> bool>(&mut self, mut f: F) {
        for s in self.slots.iter_mut() {
            let keep = match s { Some((k, v)) => f(k, v), None => true };
            if !keep { *s = None; }
        }
    }
}
impl<'a, K: Eq + Copy, V> Entry<'a, K, V> {
    pub fn or_insert(self, default: V) -> &'a mut V {
        let Entry { map, key } = self;
        let mut found: Option<usize> = None;
        let mut free: Option<usize> = None;
        let mut i = 0;
        while i < SLOTS {
            match &map.slots[i] {
                Some((k, _)) => { if *k == key { found = Some(i); } }
                None => { if free.is_none() { free = Some(i); } }
            }
            i += 1;
        }
        let idx = match found {
            Some(i) => i,
            None => {
                // the model map is full only if the harness made it so; harnesses keep one slot free
                let i = free.expect("model map has a free slot");
                map.slots[i] = Some((key, default));
                i
            }
        };
        match &mut map.slots[idx] { Some((_, v)) => v, None => unreachable!() }
    }
}
pub mod metrics { pub mod rate_limiter_size { pub fn set(_v: u64) {} } }
