// U8 environment (generated Kani crate): what `rate_limiter.rs` imports, modelled just far enough for the *unmodified*
// text of `RateLimiter::{new, enqueue}` to compile and run under Kani.
//   tokio::time::Instant  -> a Duration since an arbitrary epoch, `now()` reads the harness-controlled clock
//   std HashMap           -> a two-slot association list with the same entry (Occupied / Vacant) / or_insert / retain / len interface
//   crate::metrics        -> no-ops
#![allow(dead_code, unused_variables, static_mut_refs)]
pub use std::time::Duration;
use std::hash::Hash;

#[derive(Clone, Copy, PartialEq, Eq, PartialOrd, Ord, Debug)]
pub struct Instant(pub Duration);
pub static mut NOW: Duration = Duration::ZERO;
impl Instant {
    pub fn now() -> Instant { unsafe { Instant(NOW) } }
    pub fn saturating_duration_since(&self, earlier: Instant) -> Duration { self.0.saturating_sub(earlier.0) }
    pub fn duration_since(&self, earlier: Instant) -> Duration { self.0.saturating_sub(earlier.0) }
    pub fn checked_add(&self, d: Duration) -> Option<Instant> { self.0.checked_add(d).map(Instant) }
    pub fn checked_sub(&self, d: Duration) -> Option<Instant> { self.0.checked_sub(d).map(Instant) }
    pub fn elapsed(&self) -> Duration { Instant::now().0.saturating_sub(self.0) }
}
// tokio's Instant arithmetic (panics on overflow like std's)
impl std::ops::Add<Duration> for Instant { type Output = Instant; fn add(self, d: Duration) -> Instant { Instant(self.0 + d) } }
impl std::ops::Sub<Duration> for Instant { type Output = Instant; fn sub(self, d: Duration) -> Instant { Instant(self.0 - d) } }
impl std::ops::Sub<Instant> for Instant { type Output = Duration; fn sub(self, o: Instant) -> Duration { self.0.saturating_sub(o.0) } }
impl std::ops::AddAssign<Duration> for Instant { fn add_assign(&mut self, d: Duration) { self.0 = self.0 + d; } }
impl std::ops::SubAssign<Duration> for Instant { fn sub_assign(&mut self, d: Duration) { self.0 = self.0 - d; } }


pub const SLOTS: usize = 2;
/// `others`: how many further keys are tracked beyond the two slots the model keeps (their contents never influence a step for
/// the slots' keys; their *number* is visible through `len()`, so code that acts on the size of the map is analysed for every size)
pub struct HashMap<K, V> { pub slots: [Option<(K, V)>; SLOTS], pub others: usize }
/// std's entry API: the slot of the key if present, else a free slot
pub enum Entry<'a, K, V> { Occupied(OccupiedEntry<'a, K, V>), Vacant(VacantEntry<'a, K, V>) }
pub struct OccupiedEntry<'a, K, V> { map: &'a mut HashMap<K, V>, idx: usize }
pub struct VacantEntry<'a, K, V> { map: &'a mut HashMap<K, V>, key: K }
impl<K: Eq + Copy, V> HashMap<K, V> {
    pub fn new() -> Self { HashMap { slots: [None, None], others: 0 } }
    pub fn entry(&mut self, key: K) -> Entry<'_, K, V> {
        let mut found: Option<usize> = None;
        let mut i = 0;
        while i < SLOTS {
            if let Some((k, _)) = &self.slots[i] { if *k == key { found = Some(i); } }
            i += 1;
        }
        match found {
            Some(idx) => Entry::Occupied(OccupiedEntry { map: self, idx }),
            None => Entry::Vacant(VacantEntry { map: self, key }),
        }
    }
    pub fn len(&self) -> usize { self.slots.iter().filter(|s| s.is_some()).count() + self.others }
    pub fn get(&self, key: &K) -> Option<&V> {
        for s in self.slots.iter() { if let Some((k, v)) = s { if k == key { return Some(v); } } }
        None
    }
    pub fn contains_key(&self, key: &K) -> bool { self.get(key).is_some() }
    pub fn retain<F: FnMut(&K, &mut V) -> bool>(&mut self, mut f: F) {
        for s in self.slots.iter_mut() {
            let keep = match s { Some((k, v)) => f(k, v), None => true };
            if !keep { *s = None; }
        }
        // any number of the keys outside the model's slots may go as well
        let left: usize = kani::any();
        kani::assume(left <= self.others);
        self.others = left;
    }
}
impl<'a, K: Eq + Copy, V> OccupiedEntry<'a, K, V> {
    pub fn into_mut(self) -> &'a mut V { match &mut self.map.slots[self.idx] { Some((_, v)) => v, None => unreachable!() } }
    pub fn get(&self) -> &V { match &self.map.slots[self.idx] { Some((_, v)) => v, None => unreachable!() } }
    pub fn get_mut(&mut self) -> &mut V { match &mut self.map.slots[self.idx] { Some((_, v)) => v, None => unreachable!() } }
}
impl<'a, K: Eq + Copy, V> VacantEntry<'a, K, V> {
    pub fn insert(self, value: V) -> &'a mut V {
        let VacantEntry { map, key } = self;
        let mut free: Option<usize> = None;
        let mut i = 0;
        while i < SLOTS {
            if map.slots[i].is_none() && free.is_none() { free = Some(i); }
            i += 1;
        }
        // the model map is full only if the harness made it so; harnesses keep one slot free
        let idx = free.expect("model map has a free slot");
        map.slots[idx] = Some((key, value));
        match &mut map.slots[idx] { Some((_, v)) => v, None => unreachable!() }
    }
}
impl<'a, K: Eq + Copy, V> Entry<'a, K, V> {
    pub fn or_insert(self, default: V) -> &'a mut V {
        match self { Entry::Occupied(e) => e.into_mut(), Entry::Vacant(e) => e.insert(default) }
    }
    pub fn or_insert_with<F: FnOnce() -> V>(self, f: F) -> &'a mut V {
        match self { Entry::Occupied(e) => e.into_mut(), Entry::Vacant(e) => e.insert(f()) }
    }
}
pub mod metrics { pub mod rate_limiter_size { pub fn set(_v: u64) {} } }
