// U8 harnesses: step contract of RateLimiter::enqueue on symbolic state, IEEE-754 arithmetic bit-precise (C13).
// Domain: limit in [1, 2^24] (step_exact and the others) and (2^24, 2^32) (step_exact_big_limit), duration a whole number of
// seconds in [1 s, 366 d] (what `start()` can build with Duration::from_secs), arbitrary nanosecond instants, counters that are
// integers <= limit (the representation invariant, itself preserved: see step_exact).
// `Cnt` is the counter type of the bucket tuple, read from the extracted struct on every run (`type Cnt = ..;` above).
#[cfg(kani)]
mod proofs {
    use super::*;

    const MAX_SECS: u64 = 366 * 24 * 3600;

    fn any_instant() -> Instant {
        let s: u64 = kani::any();
        let n: u32 = kani::any();
        kani::assume(s <= (1 << 34) && n < 1_000_000_000);
        Instant(Duration::new(s, n))
    }
    fn any_duration_secs() -> Duration {
        let s: u64 = kani::any();
        kani::assume(s >= 1 && s <= MAX_SECS);
        Duration::from_secs(s)
    }
    fn set_now(t: Instant) { unsafe { NOW = t.0; } }
    fn cnt(n: u32) -> Cnt { n as Cnt }
    trait Bits { fn bits(self) -> u64; }
    impl Bits for f32 { fn bits(self) -> u64 { self.to_bits() as u64 } }
    impl Bits for f64 { fn bits(self) -> u64 { self.to_bits() } }
    impl Bits for u32 { fn bits(self) -> u64 { self as u64 } }
    impl Bits for u64 { fn bits(self) -> u64 { self } }
    impl Bits for usize { fn bits(self) -> u64 { self as u64 } }

    struct Setup { rl: RateLimiter<u8>, key: u8, other: u8, limit_u: u32, m: u32, n: u32, w: Instant, now: Instant, other_bucket: (Instant, Cnt, Cnt), other_present: bool }

    /// limiter with the key's bucket (w, m, n) present and possibly one other key with an arbitrary bucket
    fn setup(max_limit: u32, min_limit: u32) -> Setup {
        let limit_u: u32 = kani::any();
        kani::assume(limit_u >= min_limit && limit_u <= max_limit);
        let duration = any_duration_secs();
        let w = any_instant();
        let now = any_instant();
        kani::assume(now >= w);
        let m: u32 = kani::any();
        let n: u32 = kani::any();
        kani::assume(m <= limit_u && n <= limit_u);
        let key: u8 = kani::any();
        let other: u8 = kani::any();
        kani::assume(other != key);
        let other_present: bool = kani::any();
        let ow = any_instant();
        kani::assume(ow <= now);
        let ol: Cnt = kani::any();
        let oc: Cnt = kani::any();
        let other_bucket = (ow, ol, oc);
        let last_cleanup = any_instant();
        kani::assume(last_cleanup <= now);
        let mut buckets: HashMap<u8, (Instant, Cnt, Cnt)> = HashMap::new();
        buckets.slots[0] = Some((key, (w, cnt(m), cnt(n))));
        if other_present { buckets.slots[1] = Some((other, other_bucket)); }
        // any number of further tracked keys (up to 2^40): the size of the map is symbolic
        buckets.others = kani::any();
        kani::assume(buckets.others <= 1 << 40);
        set_now(now);
        // built by the real constructor (so that fields a refactoring adds are initialised by it), then put into the symbolic state
        let mut rl: RateLimiter<u8> = RateLimiter::new(duration, limit_u as usize);
        rl.last_cleanup = last_cleanup;
        rl.buckets = buckets;
        Setup { rl, key, other, limit_u, m, n, w, now, other_bucket, other_present }
    }

    /// S1, S2, S4: exact integer counters; admitted only below the limit; a rejection adds nothing; the window
    /// start changes only when it is at least `duration` old, and then to `now`
    #[kani::proof]
    fn step_exact() {
        let mut s = setup(1 << 24, 1);
        let ok = s.rl.enqueue(s.key);
        let age = s.now.saturating_duration_since(s.w);
        let d = s.rl.duration;
        let (m2, n2) = if age >= 2 * d { (0, 0) } else if age >= d { (s.n, 0) } else { (s.m, s.n) };
        let b = *s.rl.buckets.get(&s.key).expect("bucket of the key stays");
        assert!(b.1 == cnt(m2), "C13.step.last_is_rolled_counter");
        if ok {
            assert!(n2 < s.limit_u, "C13.step.admitted_only_below_limit");
            assert!(b.2 == cnt(n2 + 1), "C13.step.admission_counts_one");
        } else {
            assert!(b.2 == cnt(n2), "C13.step.rejection_consumes_nothing");
        }
        assert!(b.0 == if age >= d { s.now } else { s.w }, "C13.step.window_start");
        kani::cover!(ok, "admitted");
        kani::cover!(!ok, "rejected");
    }

    /// S3: a key that made no attempt for at least twice `duration` is admitted again, with a clean bucket
    #[kani::proof]
    fn idle_readmitted() {
        let mut s = setup(1 << 24, 1);
        let idle = s.now.saturating_duration_since(s.w) >= 2 * s.rl.duration;
        let ok = s.rl.enqueue(s.key);
        if idle {
            assert!(ok, "C13.idle.readmitted");
            assert!(*s.rl.buckets.get(&s.key).unwrap() == (s.now, cnt(0), cnt(1)), "C13.idle.clean_bucket");
        }
        kani::cover!(idle, "idle case reachable");
    }

    /// the first attempt of an unknown key is admitted (limit >= 1) and starts (now, 0, 1): exactly what S3 gives for a
    /// bucket that cleanup would have removed, so cleanup cannot change any decision (S5)
    #[kani::proof]
    fn fresh_key() {
        let mut s = setup(1 << 24, 1);
        let k2: u8 = kani::any();
        kani::assume(k2 != s.key && k2 != s.other);
        // make room: the model map has two slots
        s.rl.buckets.slots[1] = None;
        let ok = s.rl.enqueue(k2);
        assert!(ok, "C13.fresh.admitted");
        assert!(*s.rl.buckets.get(&k2).unwrap() == (s.now, cnt(0), cnt(1)), "C13.fresh.bucket");
        kani::cover!(true, "reachable");
    }

    /// fairness between keys and cleanup: another key's bucket is untouched, or removed — and removed only when its
    /// window is at least twice `duration` old and a cleanup is due; after a cleanup every tracked key is younger
    #[kani::proof]
    fn other_keys_and_cleanup() {
        let mut s = setup(1 << 24, 1);
        let d = s.rl.duration;
        let due = s.now.saturating_duration_since(s.rl.last_cleanup) >= d * 2;
        let ok = s.rl.enqueue(s.key);
        if s.other_present {
            match s.rl.buckets.get(&s.other) {
                Some(b) => {
                    assert!(b.0 == s.other_bucket.0, "C13.other.window_untouched");
                    assert!(b.1.bits() == s.other_bucket.1.bits() && b.2.bits() == s.other_bucket.2.bits(), "C13.other.counters_untouched");
                    if ok && due { assert!(s.now.saturating_duration_since(b.0) < d * 2, "C13.cleanup.survivors_are_recent"); }
                }
                None => {
                    assert!(ok && due, "C13.cleanup.only_when_due");
                    assert!(s.now.saturating_duration_since(s.other_bucket.0) >= d * 2, "C13.cleanup.removes_only_idle_keys");
                }
            }
        }
        if ok && due { assert!(s.rl.last_cleanup == s.now, "C13.cleanup.advances"); } else { assert!(s.rl.last_cleanup <= s.now, "C13.cleanup.monotone"); }
        kani::cover!(ok && due && s.other_present, "cleanup with another key");
    }

    /// the same fairness contract when the visitor is a key the limiter does not track yet (its first visit), whatever the number of
    /// tracked keys: making room for a newcomer must not touch another key's live counters
    #[kani::proof]
    fn other_keys_fresh_visitor() {
        let mut s = setup(1 << 24, 1);
        kani::assume(s.other_present);
        s.rl.buckets.slots[0] = None;
        let d = s.rl.duration;
        let due = s.now.saturating_duration_since(s.rl.last_cleanup) >= d * 2;
        let ok = s.rl.enqueue(s.key);
        match s.rl.buckets.get(&s.other) {
            Some(b) => {
                assert!(b.0 == s.other_bucket.0, "C13.other.window_untouched.fresh_visitor");
                assert!(b.1.bits() == s.other_bucket.1.bits() && b.2.bits() == s.other_bucket.2.bits(), "C13.other.counters_untouched.fresh_visitor");
            }
            None => {
                assert!(ok && due, "C13.cleanup.only_when_due.fresh_visitor");
                assert!(s.now.saturating_duration_since(s.other_bucket.0) >= d * 2, "C13.cleanup.removes_only_idle_keys.fresh_visitor");
            }
        }
        kani::cover!(ok && due, "cleanup on a newcomer's visit");
        kani::cover!(s.rl.buckets.len() > 16_384, "more tracked keys than any fixed cap");
    }

    /// the same step contract for limits above 2^24, where an f32 cannot count (x + 1.0 == x from 16777216 on): a counter kept
    /// in f32 fails `C13.step.admission_counts_one.big_limit` (the defect repaired by "fix: count visits in integers")
    #[kani::proof]
    fn step_exact_big_limit() {
        let mut s = setup(u32::MAX - 1, (1 << 24) + 1);
        let ok = s.rl.enqueue(s.key);
        let age = s.now.saturating_duration_since(s.w);
        let d = s.rl.duration;
        let (m2, n2) = if age >= 2 * d { (0, 0) } else if age >= d { (s.n, 0) } else { (s.m, s.n) };
        let b = *s.rl.buckets.get(&s.key).unwrap();
        assert!(b.1 == cnt(m2), "C13.step.last_is_rolled_counter.big_limit");
        if ok {
            assert!(n2 < s.limit_u, "C13.step.admitted_only_below_limit.big_limit");
            assert!(b.2 == cnt(n2 + 1) && b.2 > cnt(n2), "C13.step.admission_counts_one.big_limit");
        } else {
            assert!(b.2 == cnt(n2), "C13.step.rejection_consumes_nothing.big_limit");
        }
        kani::cover!(ok, "admitted");
        kani::cover!(!ok, "rejected");
    }
}
