"""U8 — RateLimiter::enqueue step contract (C13): Kani on the unmodified function text, bit-precise f32."""
import os
import re
import sys

HERE = os.path.dirname(os.path.abspath(__file__))
sys.path.insert(0, os.path.join(HERE, "..", "..", "lib"))
import vxlib  # noqa: E402
import kanilib  # noqa: E402

NAME = "U8"
SRC = "passage-protocol/src/rate_limiter.rs"
HARNESSES = ["step_exact", "idle_readmitted", "fresh_key", "other_keys_and_cleanup", "other_keys_fresh_visitor", "step_exact_big_limit"]
KNOWN_BAD = []


def build_kani():
    # module-level constants of the file come along (a cap or threshold a change introduces is then part of the analysed text)
    consts = [it for it in vxlib.vx_list(SRC) if it["kind"] in ("const", "static") and not it["modpath"]]
    ex = vxlib.run_vx([{"key": f"rate_limiter.const.{c['name']}", "file": SRC, "kind": c["kind"], "name": c["name"], "rules": ["attrs"]} for c in consts] + [
        {"key": "rate_limiter.RateLimiter", "file": SRC, "kind": "struct", "name": "RateLimiter", "rules": ["attrs"]},
        {"key": "rate_limiter.new", "file": SRC, "kind": "impl_fn", "self_ty": "RateLimiter<T>", "name": "new", "rules": ["attrs"]},
        {"key": "rate_limiter.enqueue", "file": SRC, "kind": "impl_fn", "self_ty": "RateLimiter<T>", "name": "enqueue", "rules": ["attrs"]},
        # the whole inherent impl is what gets compiled (so private helper methods a refactoring introduces come along); the two
        # entries above only locate the functions under contract for the evidence
        {"key": "rate_limiter.impl", "file": SRC, "kind": "impl", "self_ty": "RateLimiter<T>", "rules": ["attrs"]},
    ])
    with open(os.path.join(HERE, "env.rs")) as f:
        text = "// generated on every run from /repo by vx; do not edit\n" + f.read()
    text += "\n// ---- extracted verbatim (only #[instrument] dropped) ----\n"
    for c in consts:
        text += ex.pop(f"rate_limiter.const.{c['name']}")["text"] + "\n"
    text += ex["rate_limiter.RateLimiter"]["text"]
    it = ex.pop("rate_limiter.impl")
    text += f"// src={it['file']}:{it['line_start']}-{it['line_end']}\n" + it["text"] + "\n"
    # the counter type of the bucket tuple `(Instant, C, C)`, read from the extracted struct
    m = re.search(r"buckets\s*:\s*HashMap\s*<\s*T\s*,\s*\(\s*Instant\s*,\s*(\w+)\s*,\s*(\w+)\s*,?\s*\)\s*>", ex["rate_limiter.RateLimiter"]["text"])
    if not m or m.group(1) != m.group(2) or m.group(1) not in ("f32", "f64", "u32", "u64", "usize"):
        raise vxlib.OutOfReach("U8: the bucket of RateLimiter is not `(Instant, C, C)` with a numeric counter type C: the step harnesses do not apply")
    text += f"type Cnt = {m.group(1)};\n"
    with open(os.path.join(HERE, "harness.rs")) as f:
        text += f.read()
    return kanilib.write_crate(NAME, text), ex


def run(harnesses=None, timeout=1500, solver=None):
    d, ex = build_kani()
    hs = harnesses or (HARNESSES + KNOWN_BAD)
    res, wall, out = kanilib.run_kani_multi(d, hs, jobs=len(hs), timeout=timeout, solver=solver)
    return {"dir": d, "results": res, "items": ex, "wall_s": wall, "props": ["C13"]}
