// U12 prelude: the rsa / rand crates as far as crypto/mod.rs touches them. Everything here is an assumption.
use vstd::prelude::*;

verus! {

pub type VerifyToken = [u8; 32];
#[derive(Debug)]
pub struct RsaError {}
#[derive(Debug)]
pub struct SpkiError {}
#[derive(Debug)]
pub struct SysError {}
#[derive(Debug)]
pub struct InvalidLength {}
pub struct Pkcs1v15Encrypt;
pub struct RsaPrivateKey {}
pub struct RsaPublicKey {}
pub struct SysRng;
pub struct UnwrapErr<R>(pub R);
pub struct Document {}
/// RSA PKCS#1 v1.5 decryption under the server key: a deterministic partial function of the ciphertext (rsa crate, trusted;
/// in particular it returns `Err` on malformed input instead of panicking)
pub uninterp spec fn rsa_decrypt_spec(ct: Seq<u8>) -> Option<Seq<u8>>;
impl RsaPrivateKey {
    #[verifier::external_body]
    pub fn decrypt(&self, padding: Pkcs1v15Encrypt, ciphertext: &[u8]) -> (r: Result<Vec<u8>, RsaError>)
        ensures match rsa_decrypt_spec(ciphertext@) { Some(v) => r matches Ok(x) && x@ == v, None => r is Err }
    { unimplemented!() }
}
impl RsaPublicKey {
    /// encryption is randomised; what it returns decrypts to the message (rsa crate, trusted)
    #[verifier::external_body]
    pub fn encrypt<R>(&self, rng: &mut R, padding: Pkcs1v15Encrypt, msg: &[u8]) -> (r: Result<Vec<u8>, RsaError>)
        ensures r matches Ok(c) ==> rsa_decrypt_spec(c@) == Some(msg@)
    { unimplemented!() }
    #[verifier::external_body]
    pub fn to_public_key_der(&self) -> (r: Result<Document, SpkiError>) { unimplemented!() }
}
impl Document { #[verifier::external_body] pub fn to_vec(&self) -> Vec<u8> { unimplemented!() } }
/// "these 32 bytes are what one successful call of the operating-system RNG wrote": uninterpreted, produced only by
/// `SysRng::try_fill_bytes`, so a clause that demands it of a token is provable only if the token *is* that buffer, unmodified
/// (randomness / unpredictability as such is a probabilistic statement and outside any contract)
pub uninterp spec fn from_os_rng(bytes: Seq<u8>) -> bool;
impl SysRng {
    /// fills the buffer with operating-system randomness or fails; the length does not change
    #[verifier::external_body]
    pub fn try_fill_bytes(&mut self, dest: &mut [u8; 32]) -> (r: Result<(), SysError>)
        ensures r is Ok ==> from_os_rng(final(dest)@)
    { unimplemented!() }
}

} // verus!
