"""U12 — crypto/mod.rs wrappers: decrypt / encrypt / generate_token / encode_public_key (C04 no panic, C01)."""
import os
import sys

HERE = os.path.dirname(os.path.abspath(__file__))
sys.path.insert(0, os.path.join(HERE, "..", "..", "lib"))
import vxlib  # noqa: E402

NAME = "U12"
SRC = "passage-protocol/src/crypto/mod.rs"
ERR = "passage-protocol/src/crypto/error.rs"
FNS = ["decrypt", "encrypt", "generate_token", "encode_public_key"]
SUBST = {"rsa::Error": "RsaError", "rsa::pkcs8::spki::Error": "SpkiError", "rand::rngs::SysError": "SysError", "cfb8::cipher::InvalidLength": "InvalidLength"}


def build(vacuity=False):
    vxlib.reset_vac()
    C = vxlib.load_contracts(os.path.join(HERE, "contracts.toml"))
    fnc = {k: vxlib.FnContract(k, v) for k, v in C.get("fn", {}).items()}
    u = vxlib.Unit(NAME)
    u.default_props = ["C04"]
    items = [{"key": "crypto.Error", "file": ERR, "kind": "enum", "name": "Error", "rules": ["attrs", "generics"], "subst": SUBST}]
    for f in FNS:
        items.append({"key": f"crypto.{f}", "file": SRC, "kind": "fn", "name": f, "rules": ["attrs", "try_desugar", "generics"], "subst": SUBST,
                      "anchors": vxlib.anchors_for(fnc[f"crypto.{f}"], vacuity)})
    ex = vxlib.run_vx(items)
    with open(os.path.join(HERE, "prelude.rs")) as f:
        u.raw(f.read())
    if vacuity:
        u.raw(vxlib.VAC_PRELUDE)
    u.raw("verus! {\npub mod crypto {\n    use super::*;\n")
    u.modules.append("crypto")
    u.add_item_text(ex["crypto.Error"])
    # thiserror's `#[from]` on each variant of crypto::Error (derive output mirrored; listed as an assumption)
    u.raw("""    impl vstd::std_specs::convert::FromSpecImpl<RsaError> for Error { open spec fn obeys_from_spec() -> bool { true } open spec fn from_spec(e: RsaError) -> Error { Error::IllegalRsa(e) } }
    impl From<RsaError> for Error { fn from(e: RsaError) -> (r: Error) { Error::IllegalRsa(e) } }
    impl vstd::std_specs::convert::FromSpecImpl<SpkiError> for Error { open spec fn obeys_from_spec() -> bool { true } open spec fn from_spec(e: SpkiError) -> Error { Error::EncodingFailed(e) } }
    impl From<SpkiError> for Error { fn from(e: SpkiError) -> (r: Error) { Error::EncodingFailed(e) } }
    impl vstd::std_specs::convert::FromSpecImpl<SysError> for Error { open spec fn obeys_from_spec() -> bool { true } open spec fn from_spec(e: SysError) -> Error { Error::UnavailableRandom(e) } }
    impl From<SysError> for Error { fn from(e: SysError) -> (r: Error) { Error::UnavailableRandom(e) } }
    pub assume_specification<T>[<T as From<T>>::from](t: T) -> (r: T) ensures r == t;
""")
    u.trusted_notes.append("thiserror #[from] conversions of crypto::Error mirrored by hand")
    for f in FNS:
        u.add_fn(ex[f"crypto.{f}"], fnc[f"crypto.{f}"], vacuity=vacuity)
    u.raw("}\n} // verus!\nfn main() {}\n")
    return u
