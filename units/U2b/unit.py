"""U2b — crypto::verify_token (Kani, real function text in a generated crate)."""
import os
import sys

HERE = os.path.dirname(os.path.abspath(__file__))
sys.path.insert(0, os.path.join(HERE, "..", "..", "lib"))
import vxlib  # noqa: E402
import kanilib  # noqa: E402

NAME = "U2b"

HARNESS = '''
// C01: the verify token check accepts exactly the issued 32 bytes.
// Loop-free over the full domain of 32-byte tokens and every slice of length 0..=40 (memcmp unwound
// with unwinding assertions): complete for that domain; lengths above 40 are not explored (bounded).
#[cfg(kani)]
#[kani::proof]
#[kani::unwind(42)]
fn check_verify_token() {
    let expected: [u8; 32] = kani::any();
    let buf: [u8; 40] = kani::any();
    let len: usize = kani::any();
    kani::assume(len <= 40);
    let actual = &buf[..len];
    let r = verify_token(expected, actual);
    let mut eq = len == 32;
    if eq {
        let mut i = 0;
        while i < 32 {
            if expected[i] != actual[i] {
                eq = false;
            }
            i += 1;
        }
    }
    assert!(r == eq, "C01.verify_token.exact");
    kani::cover!(r, "accepts");
    kani::cover!(!r && len == 32, "rejects a 32-byte token that differs");
    kani::cover!(!r && len != 32, "rejects other lengths");
}
'''


def build_kani():
    ex = vxlib.run_vx([
        {"key": "type.VerifyToken", "file": "passage-packets/src/lib.rs", "kind": "type", "name": "VerifyToken", "rules": ["attrs"]},
        {"key": "crypto.verify_token", "file": "passage-protocol/src/crypto/mod.rs", "kind": "fn", "name": "verify_token", "rules": ["attrs"]},
    ])
    it = ex["crypto.verify_token"]
    text = "// generated on every run from /repo by vx; do not edit\n"
    text += ex["type.VerifyToken"]["text"] + "\n"
    text += f"// src={it['file']}:{it['line_start']}-{it['line_end']}\n"
    text += f"{it['vis']} {it['sig']} -> {it['ret']}\n{it['body']}\n"
    text += HARNESS
    d = kanilib.write_crate(NAME, text)
    return d, ex


def run():
    d, ex = build_kani()
    r = kanilib.run_kani(d, "check_verify_token", timeout=600)
    return {"dir": d, "result": r, "items": ex, "harness": "check_verify_token",
            "obligation": "C01.verify_token.exact", "props": ["C01", "C04", "C06"]}
