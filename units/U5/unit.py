"""U5 — CipherStream: poll_write / poll_read / create_ciphers (C05)."""
import os
import sys

HERE = os.path.dirname(os.path.abspath(__file__))
sys.path.insert(0, os.path.join(HERE, "..", "..", "lib"))
import vxlib  # noqa: E402

NAME = "U5"
RLIMIT = 30
SRC = "passage-protocol/src/crypto/stream.rs"
GEN = ["S", "E", "D"]
SUBST = {"S": "Sock", "E": "Aes128Cfb8Enc", "D": "Aes128Cfb8Dec", "Context<'_>": "Context", "ReadBuf<'_>": "ReadBuf",
         "std::io::Error": "IoError", "std::io::Result<()>": "Result<(), IoError>"}
RULES = ["attrs", "pin", "cipher_chunks", "generics", "try_desugar"]
IMPL = "CipherStream<S,E,D>"
FNS = [
    ("create_ciphers", {"kind": "fn", "name": "create_ciphers"}),
    ("set_encryption", {"kind": "impl_fn", "self_ty": IMPL, "trait": "-", "name": "set_encryption"}),
    ("poll_write", {"kind": "impl_fn", "self_ty": IMPL, "trait": "AsyncWrite", "name": "poll_write"}),
    ("poll_flush", {"kind": "impl_fn", "self_ty": IMPL, "trait": "AsyncWrite", "name": "poll_flush"}),
    ("poll_shutdown", {"kind": "impl_fn", "self_ty": IMPL, "trait": "AsyncWrite", "name": "poll_shutdown"}),
    ("poll_read", {"kind": "impl_fn", "self_ty": IMPL, "trait": "AsyncRead", "name": "poll_read"}),
    ("new", {"kind": "impl_fn", "self_ty": IMPL, "trait": "-", "name": "new"}),
    ("from_stream", {"kind": "impl_fn", "self_ty": IMPL, "trait": "-", "name": "from_stream"}),
    ("is_encrypted", {"kind": "impl_fn", "self_ty": IMPL, "trait": "-", "name": "is_encrypted"}),
    ("from_secret", {"kind": "impl_fn", "self_ty": "CipherStream<S,Aes128Cfb8Enc,Aes128Cfb8Dec>", "trait": "-", "name": "from_secret"}),
]


def build(vacuity=False):
    vxlib.reset_vac()
    C = vxlib.load_contracts(os.path.join(HERE, "contracts.toml"))
    fnc = {k: vxlib.FnContract(k, v) for k, v in C.get("fn", {}).items()}
    u = vxlib.Unit(NAME)
    u.default_props = ["C04"]
    items = [{"key": "stream.CipherStream", "file": SRC, "kind": "struct", "name": "CipherStream", "rules": ["attrs", "generics"],
              "subst": SUBST, "drop_generics": GEN}]
    for name, sel in FNS:
        items.append({"key": f"stream.{name}", "file": SRC, "rules": RULES, "subst": SUBST,
                      "anchors": vxlib.anchors_for(fnc[f"stream.{name}"], vacuity), **sel})
    ex = vxlib.run_vx(items)
    with open(os.path.join(HERE, "prelude.rs")) as f:
        u.raw(f.read())
    if vacuity:
        u.raw(vxlib.VAC_PRELUDE)
    u.raw("verus! {\npub mod stream {\n    use super::*;\n")
    u.modules.append("stream")
    with open(os.path.join(HERE, "spec.rs")) as f:
        u.raw(f.read())
    u.add_item_text(ex["stream.CipherStream"])
    u.add_fn(ex["stream.create_ciphers"], fnc["stream.create_ciphers"], vacuity=vacuity)
    u.raw("    impl CipherStream {\n")
    for name, _ in FNS[1:]:
        ex[f"stream.{name}"]["vis"] = ""  # contracts mention the private fields
        u.add_fn(ex[f"stream.{name}"], fnc[f"stream.{name}"], vacuity=vacuity, indent="        ")
    u.raw("    }\n}\n} // verus!\nfn main() {}\n")
    return u
