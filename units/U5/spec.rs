// U5: the whole-history statement as an invariant preserved by every call that satisfies the per-call contracts.
    /// C05 (write side): if so far the transport accepted exactly the encryption of `written` (from key k, initial
    /// register r0) and the cipher's register is where that left it, then after one more poll_write that reports n bytes
    /// of `chunk` as written the same holds for `written ++ chunk[..n]` — for every n the transport chooses, Pending included.
    pub proof fn lemma_write_history_step(k: Seq<u8>, r0: Seq<u8>, written: Seq<u8>, chunk: Seq<u8>)
        ensures
            enc_stream(k, r0, written) + enc_stream(k, enc_reg(k, r0, written), chunk) == enc_stream(k, r0, written + chunk), // @cl:C05.history.write_is_one_stream
            enc_reg(k, enc_reg(k, r0, written), chunk) == enc_reg(k, r0, written + chunk), // @cl:C05.history.write_register
    { lemma_enc_compose(k, r0, written, chunk); }
    /// C05 (read side): the same for reads of arbitrary sizes
    pub proof fn lemma_read_history_step(k: Seq<u8>, r0: Seq<u8>, got: Seq<u8>, raw: Seq<u8>)
        ensures
            dec_stream(k, r0, got) + dec_stream(k, dec_reg(k, r0, got), raw) == dec_stream(k, r0, got + raw), // @cl:C05.history.read_is_one_stream
            dec_reg(k, dec_reg(k, r0, got), raw) == dec_reg(k, r0, got + raw), // @cl:C05.history.read_register
    { lemma_dec_compose(k, r0, got, raw); }
    /// C05: what the peer's decryptor (same secret) recovers from the accepted bytes is the plaintext reported written
    pub proof fn lemma_matching_decryption(k: Seq<u8>, r0: Seq<u8>, written: Seq<u8>)
        ensures dec_stream(k, r0, enc_stream(k, r0, written)) == written, // @cl:C05.history.decryption_matches
    { lemma_dec_enc(k, r0, written); }
