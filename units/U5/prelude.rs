// U5 prelude: AES-128-CFB8 as a mathematical stream function over an uninterpreted block cipher, the `cfb8`
// crate types with that function as their contract, and a transport that may return Pending, accept only a
// prefix, or deliver reads of any size.
use vstd::prelude::*;

verus! {

pub assume_specification<T: Clone> [<[T]>::to_vec] (s: &[T]) -> (r: std::vec::Vec<T>) ensures r@ == s@;

// ------------------------------------------------------------------ CFB-8 (definition, NIST SP 800-38A with s = 8)
/// first byte of AES-128 encryption of the 16-byte shift register under `key` (uninterpreted)
pub uninterp spec fn aes_first_byte(key: Seq<u8>, reg: Seq<u8>) -> u8;
pub open spec fn xor8(a: u8, b: u8) -> u8 { a ^ b }
/// the register shifted left by one byte with the ciphertext byte appended
pub open spec fn shift(reg: Seq<u8>, c: u8) -> Seq<u8> { reg.subrange(1, reg.len() as int).push(c) }
pub open spec fn enc_stream(key: Seq<u8>, reg: Seq<u8>, pt: Seq<u8>) -> Seq<u8>
    decreases pt.len()
{
    if pt.len() == 0 { Seq::empty() } else {
        let c = xor8(pt[0], aes_first_byte(key, reg));
        seq![c] + enc_stream(key, shift(reg, c), pt.subrange(1, pt.len() as int))
    }
}
pub open spec fn enc_reg(key: Seq<u8>, reg: Seq<u8>, pt: Seq<u8>) -> Seq<u8>
    decreases pt.len()
{
    if pt.len() == 0 { reg } else {
        let c = xor8(pt[0], aes_first_byte(key, reg));
        enc_reg(key, shift(reg, c), pt.subrange(1, pt.len() as int))
    }
}
pub open spec fn dec_stream(key: Seq<u8>, reg: Seq<u8>, ct: Seq<u8>) -> Seq<u8>
    decreases ct.len()
{
    if ct.len() == 0 { Seq::empty() } else {
        seq![xor8(ct[0], aes_first_byte(key, reg))] + dec_stream(key, shift(reg, ct[0]), ct.subrange(1, ct.len() as int))
    }
}
pub open spec fn dec_reg(key: Seq<u8>, reg: Seq<u8>, ct: Seq<u8>) -> Seq<u8>
    decreases ct.len()
{
    if ct.len() == 0 { reg } else { dec_reg(key, shift(reg, ct[0]), ct.subrange(1, ct.len() as int)) }
}

/// one continuous stream: encrypting a ++ b is encrypting a, then b from where a left the register
pub proof fn lemma_enc_compose(key: Seq<u8>, reg: Seq<u8>, a: Seq<u8>, b: Seq<u8>)
    ensures enc_stream(key, reg, a + b) == enc_stream(key, reg, a) + enc_stream(key, enc_reg(key, reg, a), b),
        enc_reg(key, reg, a + b) == enc_reg(key, enc_reg(key, reg, a), b),
        enc_stream(key, reg, a).len() == a.len(),
    decreases a.len()
{
    if a.len() == 0 {
        assert(a + b =~= b);
        assert(enc_stream(key, reg, a) + enc_stream(key, reg, b) =~= enc_stream(key, reg, b));
    } else {
        let c = xor8(a[0], aes_first_byte(key, reg));
        assert((a + b)[0] == a[0]);
        assert((a + b).subrange(1, (a + b).len() as int) =~= a.subrange(1, a.len() as int) + b);
        lemma_enc_compose(key, shift(reg, c), a.subrange(1, a.len() as int), b);
        assert(enc_stream(key, reg, a + b) =~= enc_stream(key, reg, a) + enc_stream(key, enc_reg(key, reg, a), b));
    }
}
pub proof fn lemma_dec_compose(key: Seq<u8>, reg: Seq<u8>, a: Seq<u8>, b: Seq<u8>)
    ensures dec_stream(key, reg, a + b) == dec_stream(key, reg, a) + dec_stream(key, dec_reg(key, reg, a), b),
        dec_reg(key, reg, a + b) == dec_reg(key, dec_reg(key, reg, a), b),
        dec_stream(key, reg, a).len() == a.len(),
    decreases a.len()
{
    if a.len() == 0 {
        assert(a + b =~= b);
        assert(dec_stream(key, reg, a) + dec_stream(key, reg, b) =~= dec_stream(key, reg, b));
    } else {
        assert((a + b)[0] == a[0]);
        assert((a + b).subrange(1, (a + b).len() as int) =~= a.subrange(1, a.len() as int) + b);
        lemma_dec_compose(key, shift(reg, a[0]), a.subrange(1, a.len() as int), b);
        assert(dec_stream(key, reg, a + b) =~= dec_stream(key, reg, a) + dec_stream(key, dec_reg(key, reg, a), b));
    }
}
/// the ciphertext of a prefix is the prefix of the ciphertext
pub proof fn lemma_enc_prefix(key: Seq<u8>, reg: Seq<u8>, pt: Seq<u8>, n: int)
    requires 0 <= n <= pt.len()
    ensures enc_stream(key, reg, pt).len() == pt.len(),
        enc_stream(key, reg, pt).subrange(0, n) == enc_stream(key, reg, pt.subrange(0, n)),
{
    let a = pt.subrange(0, n);
    let b = pt.subrange(n, pt.len() as int);
    assert(pt =~= a + b);
    lemma_enc_compose(key, reg, a, b);
    lemma_enc_compose(key, reg, pt, Seq::empty());
    assert((enc_stream(key, reg, a) + enc_stream(key, enc_reg(key, reg, a), b)).subrange(0, n) =~= enc_stream(key, reg, a));
}
/// decryption inverts encryption when both start from the same register (xor is an involution)
pub proof fn lemma_dec_enc(key: Seq<u8>, reg: Seq<u8>, pt: Seq<u8>)
    ensures dec_stream(key, reg, enc_stream(key, reg, pt)) == pt,
        dec_reg(key, reg, enc_stream(key, reg, pt)) == enc_reg(key, reg, pt),
    decreases pt.len()
{
    if pt.len() == 0 {
    } else {
        let k = aes_first_byte(key, reg);
        let c = xor8(pt[0], k);
        let p0 = pt[0];
        assert(xor8(c, k) == p0) by (bit_vector) requires c == p0 ^ k;
        let rest = pt.subrange(1, pt.len() as int);
        let ct = enc_stream(key, reg, pt);
        assert(ct[0] == c);
        assert(ct.subrange(1, ct.len() as int) =~= enc_stream(key, shift(reg, c), rest));
        lemma_dec_enc(key, shift(reg, c), rest);
        assert(dec_stream(key, reg, ct) =~= pt);
    }
}

// ------------------------------------------------------------------ cfb8 / aes crate types
pub struct InvalidLength {}
pub struct CryptoError {}
impl vstd::std_specs::convert::FromSpecImpl<InvalidLength> for CryptoError { open spec fn obeys_from_spec() -> bool { true } open spec fn from_spec(e: InvalidLength) -> CryptoError { CryptoError {} } }
impl From<InvalidLength> for CryptoError { fn from(e: InvalidLength) -> (r: CryptoError) { CryptoError {} } }
pub type Error = CryptoError;

/// `cfb8::Encryptor<aes::Aes128>`: key and current 16-byte shift register
pub struct Aes128Cfb8Enc { pub key: Ghost<Seq<u8>>, pub reg: Ghost<Seq<u8>> }
pub struct Aes128Cfb8Dec { pub key: Ghost<Seq<u8>>, pub reg: Ghost<Seq<u8>> }
impl Clone for Aes128Cfb8Enc {
    #[verifier::external_body]
    fn clone(&self) -> (r: Self) ensures r.key@ == self.key@, r.reg@ == self.reg@ { unimplemented!() }
}
impl Aes128Cfb8Enc {
    /// KeyIvInit::new_from_slices: Err unless key and iv are both 16 bytes (AES-128 key, block-size IV)
    #[verifier::external_body]
    pub fn new_from_slices(key: &[u8], iv: &[u8]) -> (r: Result<Self, InvalidLength>)
        ensures r matches Ok(e) ==> e.key@ == key@ && e.reg@ == iv@ && key@.len() == 16 && iv@.len() == 16,
            (key@.len() != 16 || iv@.len() != 16) ==> r is Err,
    { unimplemented!() }
    /// BlockSizeUser::block_size(): CFB-8 processes one byte per block
    #[verifier::external_body]
    pub fn block_size() -> (r: usize) ensures r == 1 { unimplemented!() }
    /// R15: `for chunk in buf.chunks_mut(bs) { self.encrypt_block_mut(GenericArray::from_mut_slice(chunk)) }` — the CFB-8
    /// definition applied to consecutive one-byte blocks
    #[verifier::external_body]
    pub fn vx_encrypt_blocks(&mut self, buf: &mut [u8], bs: usize)
        requires bs == 1
        ensures final(buf)@ == enc_stream(old(self).key@, old(self).reg@, old(buf)@), final(buf)@.len() == old(buf)@.len(),
            final(self).key@ == old(self).key@, final(self).reg@ == enc_reg(old(self).key@, old(self).reg@, old(buf)@),
    { unimplemented!() }
}
impl Aes128Cfb8Dec {
    #[verifier::external_body]
    pub fn new_from_slices(key: &[u8], iv: &[u8]) -> (r: Result<Self, InvalidLength>)
        ensures r matches Ok(e) ==> e.key@ == key@ && e.reg@ == iv@ && key@.len() == 16 && iv@.len() == 16,
            (key@.len() != 16 || iv@.len() != 16) ==> r is Err,
    { unimplemented!() }
    #[verifier::external_body]
    pub fn block_size() -> (r: usize) ensures r == 1 { unimplemented!() }
    #[verifier::external_body]
    pub fn vx_decrypt_blocks(&mut self, buf: &mut [u8], bs: usize)
        requires bs == 1
        ensures final(buf)@ == dec_stream(old(self).key@, old(self).reg@, old(buf)@), final(buf)@.len() == old(buf)@.len(),
            final(self).key@ == old(self).key@, final(self).reg@ == dec_reg(old(self).key@, old(self).reg@, old(buf)@),
    { unimplemented!() }
}

// ------------------------------------------------------------------ transport (any schedule)
pub struct Context {}
pub enum Poll<T> { Ready(T), Pending }
impl<T> Poll<T> {
    pub fn is_ready(&self) -> (r: bool) ensures r == (self is Ready) { match self { Poll::Ready(_) => true, Poll::Pending => false } }
}
pub struct IoError {}
/// tokio::io::ReadBuf: a buffer with a filled prefix
pub struct ReadBuf { pub buf: Vec<u8>, pub filled: usize }
impl ReadBuf {
    pub open spec fn wf(&self) -> bool { self.filled <= self.buf@.len() }
    pub open spec fn filled_view(&self) -> Seq<u8> { self.buf@.subrange(0, self.filled as int) }
    pub fn capacity(&self) -> (r: usize) ensures r == self.buf@.len() { self.buf.len() }
    pub fn remaining(&self) -> (r: usize) requires self.wf() ensures r == self.buf@.len() - self.filled { self.buf.len() - self.filled }
    #[verifier::external_body]
    pub fn filled_mut(&mut self) -> (r: &mut [u8])
        requires old(self).wf()
        ensures r@ == old(self).filled_view(), final(self).filled == old(self).filled, final(self).buf@.len() == old(self).buf@.len(),
            final(self).buf@.subrange(0, old(self).filled as int) == final(r)@,
            final(self).buf@.subrange(old(self).filled as int, old(self).buf@.len() as int) == old(self).buf@.subrange(old(self).filled as int, old(self).buf@.len() as int),
    { unimplemented!() }
}
/// the socket: `accepted` = bytes it took from writers so far; `delivered` = bytes it handed to readers so far.
/// A write may be Pending, fail, or accept any prefix; a read may deliver any number of new bytes.
pub struct Sock { pub accepted: Ghost<Seq<u8>>, pub delivered: Ghost<Seq<u8>> }
impl Sock {
    #[verifier::external_body]
    pub fn poll_write(&mut self, cx: &mut Context, buf: &[u8]) -> (r: Poll<Result<usize, IoError>>)
        ensures final(self).delivered == old(self).delivered, match r {
            Poll::Ready(Ok(n)) => n <= buf@.len() && final(self).accepted@ == old(self).accepted@ + buf@.subrange(0, n as int),
            _ => final(self).accepted@ == old(self).accepted@,
        }
    { unimplemented!() }
    #[verifier::external_body]
    pub fn poll_read(&mut self, cx: &mut Context, buf: &mut ReadBuf) -> (r: Poll<Result<(), IoError>>)
        requires old(buf).wf()
        ensures final(buf).wf(), final(buf).filled >= old(buf).filled, final(buf).buf@.len() == old(buf).buf@.len(),
            final(self).accepted == old(self).accepted,
            final(buf).filled_view().subrange(0, old(buf).filled as int) == old(buf).filled_view(),
            final(self).delivered@ == old(self).delivered@ + final(buf).filled_view().subrange(old(buf).filled as int, final(buf).filled as int),
            !(r matches Poll::Ready(Ok(()))) ==> final(buf).filled == old(buf).filled,
    { unimplemented!() }
    #[verifier::external_body]
    pub fn poll_flush(&mut self, cx: &mut Context) -> (r: Poll<Result<(), IoError>>)
        ensures final(self).accepted == old(self).accepted, final(self).delivered == old(self).delivered { unimplemented!() }
    #[verifier::external_body]
    pub fn poll_shutdown(&mut self, cx: &mut Context) -> (r: Poll<Result<(), IoError>>)
        ensures final(self).accepted == old(self).accepted, final(self).delivered == old(self).delivered { unimplemented!() }
}

} // verus!
