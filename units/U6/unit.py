"""U6 — minecraft_hash (C11)."""
import os
import sys

HERE = os.path.dirname(os.path.abspath(__file__))
sys.path.insert(0, os.path.join(HERE, "..", "..", "lib"))
import vxlib  # noqa: E402

NAME = "U6"
SRC = "passage-adapters/src/authentication/mod.rs"


def items(contract, vacuity):
    return [{"key": "authentication.minecraft_hash", "file": SRC, "kind": "fn", "name": "minecraft_hash", "rules": ["attrs"],
             "anchors": vxlib.anchors_for(contract, vacuity)}]


def build(vacuity=False):
    vxlib.reset_vac()
    C = vxlib.load_contracts(os.path.join(HERE, "contracts.toml"))
    fc = vxlib.FnContract("authentication.minecraft_hash", C["fn"]["authentication.minecraft_hash"])
    u = vxlib.Unit(NAME)
    u.default_props = ["C04"]
    ex = vxlib.run_vx(items(fc, vacuity))
    with open(os.path.join(HERE, "prelude.rs")) as f:
        u.raw(f.read())
    if vacuity:
        u.raw(vxlib.VAC_PRELUDE)
    u.raw("verus! {\npub mod authentication {\n    use super::*;\n")
    u.modules.append("authentication")
    u.add_fn(ex["authentication.minecraft_hash"], fc, vacuity=vacuity)
    u.raw("}\n} // verus!\nfn main() {}\n")
    return u
