// U6 prelude: SHA-1 as an uninterpreted function of the absorbed bytes, num-bigint's signed big-endian parsing and
// radix printing against their mathematical meaning (assumed contracts of the sha1 and num-bigint crates).
use vstd::prelude::*;
use vstd::utf8::*;
use vstd::string::StringSliceAdditionalSpecFns;

verus! {

pub uninterp spec fn sha1(msg: Seq<u8>) -> Seq<u8>;
pub broadcast axiom fn axiom_sha1_len(msg: Seq<u8>) ensures #[trigger] sha1(msg).len() == 20;

/// `impl AsRef<[u8]>` arguments of Digest::update
pub trait AsBytes { spec fn bytes(&self) -> Seq<u8>; }
impl AsBytes for &str { open spec fn bytes(&self) -> Seq<u8> { encode_utf8(self@) } }
impl AsBytes for &[u8] { open spec fn bytes(&self) -> Seq<u8> { self@ } }

pub struct Sha1 { pub absorbed: Ghost<Seq<u8>> }
impl Sha1 {
    #[verifier::external_body]
    pub fn new() -> (r: Sha1) ensures r.absorbed@ == Seq::<u8>::empty() { unimplemented!() }
    #[verifier::external_body]
    pub fn update<T: AsBytes>(&mut self, data: T) ensures final(self).absorbed@ == old(self).absorbed@ + data.bytes() { unimplemented!() }
    #[verifier::external_body]
    pub fn finalize(self) -> (r: [u8; 20]) ensures r@ == sha1(self.absorbed@) { unimplemented!() }
}

// ---- the Minecraft server hash, from the protocol description ------------------------------------------------
pub open spec fn be_value(d: Seq<u8>) -> nat
    decreases d.len()
{ if d.len() == 0 { 0 } else { be_value(d.drop_last()) * 256 + d.last() as nat } }
pub open spec fn pow256(n: nat) -> nat decreases n { if n == 0 { 1 } else { 256 * pow256((n - 1) as nat) } }
/// the digest read as a signed big-endian two's-complement number
pub open spec fn signed_be(d: Seq<u8>) -> int {
    if d.len() > 0 && d[0] >= 128 { be_value(d) as int - pow256(d.len()) as int } else { be_value(d) as int }
}
pub open spec fn hex_digit(n: nat) -> char {
    if n == 0 { '0' } else if n == 1 { '1' } else if n == 2 { '2' } else if n == 3 { '3' } else if n == 4 { '4' } else if n == 5 { '5' }
    else if n == 6 { '6' } else if n == 7 { '7' } else if n == 8 { '8' } else if n == 9 { '9' } else if n == 10 { 'a' } else if n == 11 { 'b' }
    else if n == 12 { 'c' } else if n == 13 { 'd' } else if n == 14 { 'e' } else { 'f' }
}
/// lowercase hexadecimal without leading zeros
pub open spec fn hex_nat(n: nat) -> Seq<char>
    decreases n
{ if n < 16 { seq![hex_digit(n)] } else { hex_nat(n / 16).push(hex_digit(n % 16)) } }
pub open spec fn signed_hex(x: int) -> Seq<char> { if x < 0 { seq!['-'] + hex_nat((-x) as nat) } else { hex_nat(x as nat) } }
pub open spec fn mc_hex(digest: Seq<u8>) -> Seq<char> { signed_hex(signed_be(digest)) }
pub open spec fn mc_hash(server_id: Seq<char>, shared_secret: Seq<u8>, encoded_public: Seq<u8>) -> Seq<char> {
    mc_hex(sha1(encode_utf8(server_id) + shared_secret + encoded_public))
}

// ---- num-bigint (assumed) ------------------------------------------------------------------------------------
pub struct BigInt { pub val: Ghost<int> }
impl BigInt {
    /// two's-complement, big-endian
    #[verifier::external_body]
    pub fn from_signed_bytes_be(digits: &[u8]) -> (r: BigInt) ensures r.val@ == signed_be(digits@) { unimplemented!() }
    /// sign, then lowercase digits in the given radix without leading zeros
    #[verifier::external_body]
    pub fn to_str_radix(&self, radix: u32) -> (r: String)
        requires 2 <= radix <= 36
        ensures radix == 16 ==> r@ == signed_hex(self.val@)
    { unimplemented!() }
}

} // verus!
