// U10 prelude: the prost-generated message types of adapter.proto (mirrored by hand: Target, Address, MetaEntry) and
// std's textual forms of IP / socket addresses as uninterpreted functions with their documented inverse properties.
use vstd::prelude::*;

verus! {

//@include netmodel.rs

/// Display of an IpAddr (canonical text) and decimal Display of integers
pub uninterp spec fn dec(n: nat) -> Seq<char>;
/// IpAddr::from_str / SocketAddr::from_str as partial functions of the text
pub uninterp spec fn parse_ip(s: Seq<char>) -> Option<IpAddr>;
pub uninterp spec fn parse_sockaddr(s: Seq<char>) -> Option<SocketAddr>;
/// std facts (assumed): parsing the canonical text gives the address back; "ip:port" parses for IPv4 only, IPv6 needs
/// brackets; a port above 65535 never parses
pub broadcast axiom fn axiom_parse_ip_text(ip: IpAddr) ensures #[trigger] parse_ip(ip_text(ip)) == Some(ip);
pub broadcast axiom fn axiom_parse_sockaddr_v4(ip: IpAddr, p: nat)
    ensures ip is V4 && p <= 65535 ==> #[trigger] parse_sockaddr(ip_text(ip) + seq![':'] + dec(p)) == Some(SocketAddr { ipaddr: ip, portno: p as u16 });
pub broadcast axiom fn axiom_parse_sockaddr_v6_unbracketed(ip: IpAddr, p: nat)
    ensures ip is V6 ==> #[trigger] parse_sockaddr(ip_text(ip) + seq![':'] + dec(p)) is None;
pub broadcast axiom fn axiom_parse_sockaddr_port(host: Seq<char>, p: nat)
    ensures p > 65535 ==> #[trigger] parse_sockaddr(host + seq![':'] + dec(p)) is None;

pub struct AddrParseError {}
pub struct TryFromIntError {}
impl IpAddr {
    #[verifier::external_body] pub fn from_str(s: &str) -> (r: Result<IpAddr, AddrParseError>)
        ensures match r { Ok(ip) => parse_ip(s@) == Some(ip), Err(_) => parse_ip(s@) is None } { unimplemented!() }
}
impl SocketAddr {
    #[verifier::external_body] pub fn from_str(s: &str) -> (r: Result<SocketAddr, AddrParseError>)
        ensures match r { Ok(a) => parse_sockaddr(s@) == Some(a), Err(_) => parse_sockaddr(s@) is None } { unimplemented!() }
}

// ---- passage_adapters side ---------------------------------------------------------------------------------
//@include itermodel.rs
/// `HashMap<String, String>` (target metadata): a finite map of the strings' contents. `iter()` yields every entry once,
/// in an unspecified order; collecting into it inserts in order (a later entry with the same key replaces the earlier one).
pub struct MetaMap { pub m: Ghost<Map<Seq<char>, Seq<char>>> }
pub open spec fn pairs_map(s: Seq<(String, String)>) -> Map<Seq<char>, Seq<char>>
    decreases s.len()
{ if s.len() == 0 { Map::empty() } else { pairs_map(s.drop_last()).insert(s.last().0@, s.last().1@) } }
pub open spec fn pairs_distinct(s: Seq<(String, String)>) -> bool { forall|i: int, j: int| 0 <= i < j < s.len() ==> s[i].0@ != s[j].0@ }
impl<'a> VxIterRef<'a> for MetaMap {
    type Item = (String, String);
    open spec fn vx_ref_items_ok(&self, items: Seq<(String, String)>) -> bool { pairs_map(items) == self.m@ && pairs_distinct(items) }
    #[verifier::external_body]
    fn vx_iter(&'a self) -> (r: VxIter<(String, String)>) { unimplemented!() }
}
impl VxCollect for MetaMap {
    type Item = (String, String);
    open spec fn vx_is_empty(self) -> bool { self.m@ == Map::<Seq<char>, Seq<char>>::empty() }
    open spec fn vx_pushed(self, before: Self, item: (String, String)) -> bool { self.m@ == before.m@.insert(item.0@, item.1@) }
    #[verifier::external_body]
    fn vx_new() -> (r: Self) { unimplemented!() }
    #[verifier::external_body]
    fn vx_push(&mut self, item: (String, String)) { unimplemented!() }
}
pub struct Cause {}
#[verifier::external_body] pub fn vx_cause() -> Cause { unimplemented!() }
/// R17: value of an iterator-adaptor chain (metadata conversion): unknown to the proof, nothing is claimed about it
#[verifier::external_body] pub fn vx_havoc<T>() -> T { unimplemented!() }
pub mod passage_adapters {
    use super::*;
    pub struct Target { pub identifier: String, pub address: SocketAddr, pub meta: MetaMap }
    pub enum Error {
        FailedInitialization { adapter_type: &'static str, cause: Cause },
        FailedFetch { adapter_type: &'static str, cause: Cause },
        FailedParse { adapter_type: &'static str, cause: Cause },
        AdapterUnavailable { adapter_type: &'static str, reason: &'static str },
    }
}
pub use passage_adapters::Error;
pub struct MissingFieldError { pub field: &'static str }

// ---- prost messages of adapter.proto ---------------------------------------------------------------------------
pub struct MetaEntry { pub key: String, pub value: String }
pub struct Address { pub hostname: String, pub port: u32 }
impl Clone for Address {
    #[verifier::external_body]
    fn clone(&self) -> (r: Self) ensures r.hostname@ == self.hostname@, r.port == self.port { unimplemented!() }
}
pub struct Target { pub identifier: String, pub address: Option<Address>, pub meta: Vec<MetaEntry> }

// format! pieces (R13)
pub trait Show { spec fn shown(&self) -> Seq<char>; }
impl Show for String { open spec fn shown(&self) -> Seq<char> { self@ } }
impl Show for u32 { open spec fn shown(&self) -> Seq<char> { dec(*self as nat) } }
#[verifier::external_body] pub fn vx_str(s: &str) -> (r: String) ensures r@ == s@ { unimplemented!() }
#[verifier::external_body] pub fn vx_show<T: Show>(v: &T) -> (r: String) ensures r@ == v.shown() { unimplemented!() }
#[verifier::external_body] pub fn vx_fmt2(a: String, b: String) -> (r: String) ensures r@ == a@ + b@ { unimplemented!() }
pub assume_specification<T>[<T as From<T>>::from](t: T) -> (r: T) ensures r == t;

/// the metadata a list of wire entries denotes (`HashMap::from_iter`: in order, later wins)
pub open spec fn entries_map(s: Seq<MetaEntry>) -> Map<Seq<char>, Seq<char>>
    decreases s.len()
{ if s.len() == 0 { Map::empty() } else { entries_map(s.drop_last()).insert(s.last().key@, s.last().value@) } }
pub open spec fn entries_distinct(s: Seq<MetaEntry>) -> bool { forall|i: int, j: int| 0 <= i < j < s.len() ==> s[i].key@ != s[j].key@ }
pub proof fn lemma_entries_pairs(e: Seq<MetaEntry>, p: Seq<(String, String)>)
    requires e.len() == p.len(), forall|i: int| 0 <= i < e.len() ==> e[i].key@ == p[i].0@ && e[i].value@ == p[i].1@,
    ensures entries_map(e) == pairs_map(p), pairs_distinct(p) ==> entries_distinct(e),
    decreases e.len()
{
    if e.len() > 0 {
        lemma_entries_pairs(e.drop_last(), p.drop_last());
    }
}
// ---- tonic / prost side of the two service calls (strategy_adapter.rs, discovery_adapter.rs) ------------------------
pub mod tonic {
    use vstd::prelude::*;
    pub struct Request<T> { pub inner: T }
    impl<T> Request<T> { pub fn new(t: T) -> (r: Self) ensures r.inner == t { Request { inner: t } } }
    pub struct Response<T> { pub inner: T }
    impl<T> Response<T> { pub fn into_inner(self) -> (r: T) ensures r == self.inner { self.inner } }
    pub struct Status {}
}
pub struct Uuid { pub bits: u128 }
pub uninterp spec fn uuid_text(u: Uuid) -> Seq<char>;
impl Uuid { #[verifier::external_body] pub fn to_string(&self) -> (r: String) ensures r@ == uuid_text(*self) { unimplemented!() } }
pub type Protocol = i32;
pub struct SelectRequest { pub client_address: Option<Address>, pub server_address: Option<Address>, pub protocol: u64, pub username: String, pub user_id: String, pub targets: Vec<Target> }
pub struct SelectResponse { pub target: Option<Target> }
pub struct TargetRequest {}
pub struct TargetsResponse { pub targets: Vec<Target> }
/// what a service sees of a message: string contents, and metadata as the map the entries denote
pub struct AddrView { pub host: Seq<char>, pub port: u32 }
pub struct TargetView { pub id: Seq<char>, pub addr: Option<AddrView>, pub meta: Map<Seq<char>, Seq<char>> }
pub struct SelectReqView { pub client: Option<AddrView>, pub server: Option<AddrView>, pub protocol: u64, pub username: Seq<char>, pub user_id: Seq<char>, pub targets: Seq<TargetView> }
pub open spec fn addr_view(a: Option<Address>) -> Option<AddrView> { match a { Some(x) => Some(AddrView { host: x.hostname@, port: x.port }), None => None } }
pub open spec fn wire_target_view(t: Target) -> TargetView { TargetView { id: t.identifier@, addr: addr_view(t.address), meta: entries_map(t.meta@) } }
pub open spec fn router_target_view(t: passage_adapters::Target) -> TargetView {
    TargetView { id: t.identifier@, addr: Some(AddrView { host: ip_text(t.address.ipaddr), port: t.address.portno as u32 }), meta: t.meta.m@ }
}
pub open spec fn select_request_view(r: SelectRequest) -> SelectReqView {
    SelectReqView { client: addr_view(r.client_address), server: addr_view(r.server_address), protocol: r.protocol, username: r.username@, user_id: r.user_id@,
        targets: Seq::new(r.targets@.len(), |i: int| wire_target_view(r.targets@[i])) }
}
/// C19: the request the strategy service must receive for these arguments of `select`
pub open spec fn expected_select_request(client: SocketAddr, host: Seq<char>, port: u16, protocol: i32, name: Seq<char>, id: Uuid, targets: Seq<passage_adapters::Target>) -> SelectReqView {
    SelectReqView { client: Some(AddrView { host: ip_text(client.ipaddr), port: client.portno as u32 }), server: Some(AddrView { host, port: port as u32 }), protocol: protocol as u64,
        username: name, user_id: uuid_text(id), targets: Seq::new(targets.len(), |i: int| router_target_view(targets[i])) }
}
/// the two remote services: deterministic functions of what they are sent (assumed)
pub uninterp spec fn strategy_service(req: SelectReqView) -> Result<SelectResponse, ()>;
pub uninterp spec fn discovery_service() -> Result<TargetsResponse, ()>;
pub struct StrategyClient {}
impl Clone for StrategyClient { #[verifier::external_body] fn clone(&self) -> StrategyClient { unimplemented!() } }
impl StrategyClient {
    #[verifier::external_body]
    pub fn select_target(&mut self, request: tonic::Request<SelectRequest>) -> (r: Result<tonic::Response<SelectResponse>, tonic::Status>)
        ensures match strategy_service(select_request_view(request.inner)) { Ok(resp) => r matches Ok(x) && x.inner == resp, Err(_) => r is Err }
    { unimplemented!() }
}
pub struct DiscoveryClient {}
impl Clone for DiscoveryClient { #[verifier::external_body] fn clone(&self) -> DiscoveryClient { unimplemented!() } }
impl DiscoveryClient {
    #[verifier::external_body]
    pub fn get_targets(&mut self, request: tonic::Request<TargetRequest>) -> (r: Result<tonic::Response<TargetsResponse>, tonic::Status>)
        ensures match discovery_service() { Ok(resp) => r matches Ok(x) && x.inner == resp, Err(_) => r is Err }
    { unimplemented!() }
}
pub assume_specification<T, E> [Option::<Result<T, E>>::transpose] (o: Option<Result<T, E>>) -> (r: Result<Option<T>, E>)
    ensures r == (match o { Some(Ok(x)) => Ok::<Option<T>, E>(Some(x)), Some(Err(e)) => Err::<Option<T>, E>(e), None => Ok::<Option<T>, E>(None) });
/// what `TryFrom<proto::Target> for Target` makes of a wire target (its contract, as a predicate)
pub open spec fn wire_ok(w: Target) -> bool { w.address is Some && parse_ip(w.address->0.hostname@) is Some && w.address->0.port <= 65535 }
pub open spec fn same_target(t: passage_adapters::Target, w: Target) -> bool {
    t.identifier@ == w.identifier@ && t.address == (SocketAddr { ipaddr: parse_ip(w.address->0.hostname@)->0, portno: w.address->0.port as u16 }) && t.meta.m@ == entries_map(w.meta@)
}

/// C19: what a target looks like on the wire and what must come back
pub open spec fn wire_of(t: passage_adapters::Target) -> (Seq<char>, Seq<char>, u32) { (t.identifier@, ip_text(t.address.ipaddr), t.address.portno as u32) }

} // verus!
