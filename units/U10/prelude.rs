// U10 prelude: the prost-generated message types of adapter.proto (mirrored by hand: Target, Address, MetaEntry) and
// std's textual forms of IP / socket addresses as uninterpreted functions with their documented inverse properties.
use vstd::prelude::*;

verus! {

//@include netmodel.rs

/// Display of an IpAddr (canonical text) and decimal Display of integers
pub uninterp spec fn dec(n: nat) -> Seq<char>;
/// IpAddr::from_str / SocketAddr::from_str as partial functions of the text
pub uninterp spec fn parse_ip(s: Seq<char>) -> Option<IpAddr>;
pub uninterp spec fn parse_sockaddr(s: Seq<char>) -> Option<SocketAddr>;
/// std facts (assumed): parsing the canonical text gives the address back; "ip:port" parses for IPv4 only, IPv6 needs
/// brackets; a port above 65535 never parses
pub broadcast axiom fn axiom_parse_ip_text(ip: IpAddr) ensures #[trigger] parse_ip(ip_text(ip)) == Some(ip);
pub broadcast axiom fn axiom_parse_sockaddr_v4(ip: IpAddr, p: nat)
    ensures ip is V4 && p <= 65535 ==> #[trigger] parse_sockaddr(ip_text(ip) + seq![':'] + dec(p)) == Some(SocketAddr { ipaddr: ip, portno: p as u16 });
pub broadcast axiom fn axiom_parse_sockaddr_v6_unbracketed(ip: IpAddr, p: nat)
    ensures ip is V6 ==> #[trigger] parse_sockaddr(ip_text(ip) + seq![':'] + dec(p)) is None;
pub broadcast axiom fn axiom_parse_sockaddr_port(host: Seq<char>, p: nat)
    ensures p > 65535 ==> #[trigger] parse_sockaddr(host + seq![':'] + dec(p)) is None;

pub struct AddrParseError {}
pub struct TryFromIntError {}
impl IpAddr {
    #[verifier::external_body] pub fn to_string(&self) -> (r: String) ensures r@ == ip_text(*self) { unimplemented!() }
    #[verifier::external_body] pub fn from_str(s: &str) -> (r: Result<IpAddr, AddrParseError>)
        ensures match r { Ok(ip) => parse_ip(s@) == Some(ip), Err(_) => parse_ip(s@) is None } { unimplemented!() }
}
impl SocketAddr {
    #[verifier::external_body] pub fn from_str(s: &str) -> (r: Result<SocketAddr, AddrParseError>)
        ensures match r { Ok(a) => parse_sockaddr(s@) == Some(a), Err(_) => parse_sockaddr(s@) is None } { unimplemented!() }
}

// ---- passage_adapters side ---------------------------------------------------------------------------------
pub struct MetaMap {}
pub struct Cause {}
#[verifier::external_body] pub fn vx_cause() -> Cause { unimplemented!() }
/// R17: value of an iterator-adaptor chain (metadata conversion): unknown to the proof, nothing is claimed about it
#[verifier::external_body] pub fn vx_havoc<T>() -> T { unimplemented!() }
pub mod passage_adapters {
    use super::*;
    pub struct Target { pub identifier: String, pub address: SocketAddr, pub meta: MetaMap }
    pub enum Error {
        FailedInitialization { adapter_type: &'static str, cause: Cause },
        FailedFetch { adapter_type: &'static str, cause: Cause },
        FailedParse { adapter_type: &'static str, cause: Cause },
        AdapterUnavailable { adapter_type: &'static str, reason: &'static str },
    }
}
pub use passage_adapters::Error;
pub struct MissingFieldError { pub field: &'static str }

// ---- prost messages of adapter.proto ---------------------------------------------------------------------------
pub struct MetaEntry { pub key: String, pub value: String }
pub struct Address { pub hostname: String, pub port: u32 }
impl Clone for Address {
    #[verifier::external_body]
    fn clone(&self) -> (r: Self) ensures r.hostname@ == self.hostname@, r.port == self.port { unimplemented!() }
}
pub struct Target { pub identifier: String, pub address: Option<Address>, pub meta: Vec<MetaEntry> }

// format! pieces (R13)
pub trait Show { spec fn shown(&self) -> Seq<char>; }
impl Show for String { open spec fn shown(&self) -> Seq<char> { self@ } }
impl Show for u32 { open spec fn shown(&self) -> Seq<char> { dec(*self as nat) } }
#[verifier::external_body] pub fn vx_str(s: &str) -> (r: String) ensures r@ == s@ { unimplemented!() }
#[verifier::external_body] pub fn vx_show<T: Show>(v: &T) -> (r: String) ensures r@ == v.shown() { unimplemented!() }
#[verifier::external_body] pub fn vx_fmt2(a: String, b: String) -> (r: String) ensures r@ == a@ + b@ { unimplemented!() }
pub assume_specification<T>[<T as From<T>>::from](t: T) -> (r: T) ensures r == t;

/// C19: what a target looks like on the wire and what must come back
pub open spec fn wire_of(t: passage_adapters::Target) -> (Seq<char>, Seq<char>, u32) { (t.identifier@, ip_text(t.address.ipaddr), t.address.portno as u32) }

} // verus!
