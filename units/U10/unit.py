"""U10 — gRPC boundary: Target / Address conversions (C19, identifier and address only)."""
import os
import sys

HERE = os.path.dirname(os.path.abspath(__file__))
sys.path.insert(0, os.path.join(HERE, "..", "..", "lib"))
import vxlib  # noqa: E402

NAME = "U10"
SRC = "passage-adapters/grpc/src/proto.rs"
RULES = ["attrs", "format", "error_cause", "iter_loop", "closure_wild", "try_desugar"]


def build(vacuity=False):
    vxlib.reset_vac()
    C = vxlib.load_contracts(os.path.join(HERE, "contracts.toml"))
    fnc = {k: vxlib.FnContract(k, v) for k, v in C.get("fn", {}).items()}
    sels = {
        "proto.target_to_wire": {"self_ty": "Target", "trait": "From<&passage_adapters::Target>", "name": "from", "collect_types": ["Vec<MetaEntry>"]},
        "proto.target_from_wire": {"self_ty": "passage_adapters::Target", "trait": "TryFrom<Target>", "name": "try_from", "collect_types": ["MetaMap"]},
        "proto.address_to_socket": {"self_ty": "SocketAddr", "trait": "TryFrom<Address>", "name": "try_from"},
    }
    items = [{"key": k, "file": SRC, "kind": "impl_fn", "rules": RULES, "anchors": vxlib.anchors_for(fnc[k], vacuity), **v} for k, v in sels.items()]
    G = "passage-adapters/grpc/src/"
    AD_RULES = ["deasync", "attrs", "log", "error_cause", "iter_loop", "opt_map", "into_from", "closure_wild", "try_desugar", "generics"]
    items += [
        {"key": "grpc.GrpcStrategyAdapter", "file": G + "strategy_adapter.rs", "kind": "struct", "name": "GrpcStrategyAdapter", "rules": ["attrs", "generics"],
         "subst": {"StrategyClient<Channel>": "StrategyClient"}},
        {"key": "grpc.GrpcDiscoveryAdapter", "file": G + "discovery_adapter.rs", "kind": "struct", "name": "GrpcDiscoveryAdapter", "rules": ["attrs", "generics"],
         "subst": {"DiscoveryClient<Channel>": "DiscoveryClient"}},
        {"key": "grpc.select", "file": G + "strategy_adapter.rs", "kind": "impl_fn", "self_ty": "GrpcStrategyAdapter", "trait": "StrategyAdapter", "name": "select",
         "rules": AD_RULES, "collect_types": ["Vec<WireTarget>"], "anchors": vxlib.anchors_for(fnc["grpc.select"], vacuity)},
        {"key": "grpc.discover", "file": G + "discovery_adapter.rs", "kind": "impl_fn", "self_ty": "GrpcDiscoveryAdapter", "trait": "DiscoveryAdapter", "name": "discover",
         "rules": AD_RULES, "subst": {"passage_adapters::Result<Vec<Target>>": "Result<Vec<passage_adapters::Target>, Error>"},
         "collect_types": ["Result<Vec<passage_adapters::Target>, Error>"], "anchors": vxlib.anchors_for(fnc["grpc.discover"], vacuity)},
    ]
    ex = vxlib.run_vx(items)
    u = vxlib.Unit(NAME)
    u.default_props = ["C04"]
    with open(os.path.join(HERE, "prelude.rs")) as f:
        u.raw(vxlib.with_includes(f.read()))
    if vacuity:
        u.raw(vxlib.VAC_PRELUDE)
    u.raw("verus! {\npub mod proto {\n    use super::*;\n")
    u.modules.append("proto")
    with open(os.path.join(HERE, "spec.rs")) as f:
        u.raw(f.read())
    # vstd's From/TryFrom specification traits: these impls promise nothing beyond the contracts below
    u.raw("""    impl vstd::std_specs::convert::FromSpecImpl<&passage_adapters::Target> for Target { open spec fn obeys_from_spec() -> bool { false } open spec fn from_spec(v: &passage_adapters::Target) -> Target { arbitrary() } }
    impl vstd::std_specs::convert::TryFromSpecImpl<Address> for SocketAddr { open spec fn obeys_try_from_spec() -> bool { false } open spec fn try_from_spec(v: Address) -> Result<SocketAddr, Error> { arbitrary() } }
    impl vstd::std_specs::convert::TryFromSpecImpl<Target> for passage_adapters::Target { open spec fn obeys_try_from_spec() -> bool { false } open spec fn try_from_spec(v: Target) -> Result<passage_adapters::Target, Error> { arbitrary() } }
""")
    u.raw("    impl From<&passage_adapters::Target> for Target {\n")
    u.add_fn(ex["proto.target_to_wire"], fnc["proto.target_to_wire"], vacuity=vacuity, indent="        ")
    u.raw("    }\n    impl TryFrom<Address> for SocketAddr {\n        type Error = Error;\n")
    u.add_fn(ex["proto.address_to_socket"], fnc["proto.address_to_socket"], vacuity=vacuity, indent="        ")
    u.raw("    }\n    impl TryFrom<Target> for passage_adapters::Target {\n        type Error = passage_adapters::Error;\n")
    u.add_fn(ex["proto.target_from_wire"], fnc["proto.target_from_wire"], vacuity=vacuity, indent="        ")
    u.raw("    }\n}\n")
    # the two adapters that make the service calls: `Target` here is the router's type (as in their `use` lines)
    u.raw("pub mod strategy_adapter {\n    use super::*;\n    use super::passage_adapters::{Error, Target};\n    use super::Target as WireTarget;\n")
    u.modules.append("strategy_adapter")
    u.add_item_text(ex["grpc.GrpcStrategyAdapter"])
    u.raw("    impl GrpcStrategyAdapter {\n")
    ex["grpc.select"]["vis"] = "pub"
    u.add_fn(ex["grpc.select"], fnc["grpc.select"], vacuity=vacuity, indent="        ")
    u.raw("    }\n}\npub mod discovery_adapter {\n    use super::*;\n    use super::passage_adapters::{Error, Target};\n")
    u.modules.append("discovery_adapter")
    u.add_item_text(ex["grpc.GrpcDiscoveryAdapter"])
    u.raw("    impl GrpcDiscoveryAdapter {\n")
    ex["grpc.discover"]["vis"] = "pub"
    u.add_fn(ex["grpc.discover"], fnc["grpc.discover"], vacuity=vacuity, indent="        ")
    u.raw("    }\n}\n} // verus!\nfn main() {}\n")
    return u
