    /// C19: a target that crosses the boundary (router -> wire -> router) arrives with the same identifier, the same
    /// IPv4 or IPv6 socket address and the same metadata — from the contracts of the two conversions alone
    pub proof fn lemma_round_trip(t: passage_adapters::Target, w: Target, back: Result<passage_adapters::Target, Error>)
        requires
            // contract of `From<&Target> for proto::Target`
            w.identifier@ == t.identifier@,
            w.address matches Some(a) && a.hostname@ == ip_text(t.address.ipaddr) && a.port == t.address.portno as u32,
            entries_map(w.meta@) == t.meta.m@,
            // contract of `TryFrom<proto::Target> for Target`
            (w.address is Some && parse_ip(w.address->0.hostname@) is Some && w.address->0.port <= 65535) ==> (back matches Ok(t2) && t2.identifier@ == w.identifier@
                && t2.address == (SocketAddr { ipaddr: parse_ip(w.address->0.hostname@)->0, portno: w.address->0.port as u16 })),
            back matches Ok(t2) ==> t2.meta.m@ == entries_map(w.meta@),
        ensures
            back matches Ok(t2) && t2.identifier@ == t.identifier@ && t2.address == t.address, // @cl:C19.round_trip.same_identifier_and_address
            back matches Ok(t2) && t2.meta.m@ == t.meta.m@, // @cl:C19.round_trip.same_metadata
    {
        broadcast use axiom_parse_ip_text;
    }
