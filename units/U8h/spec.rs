// U8h — history lemmas for C13 over the abstract per-key step that Kani proves of the real `enqueue` (unit U8, harness
// step_exact: S1/S2/S4 state exactly `abs_step` on exact integer counters).
use vstd::prelude::*;
verus! {

/// abstract bucket: window start (ns), admissions of the previous window, admissions of the current window
pub struct B { pub w: int, pub m: int, pub n: int }

/// what one attempt at time `t` does (d = duration in ns, admitted = the limiter's verdict), per S1-S4
pub open spec fn rolled(b: B, t: int, d: int) -> B {
    if t - b.w >= 2 * d { B { w: t, m: 0, n: 0 } } else if t - b.w >= d { B { w: t, m: b.n, n: 0 } } else { b }
}
pub open spec fn abs_step(b: B, t: int, d: int, admitted: bool) -> B {
    let r = rolled(b, t, d);
    if admitted { B { n: r.n + 1, ..r } } else { r }
}
/// S1: an attempt is admitted only while the current window's count is below the limit
pub open spec fn legal(b: B, t: int, d: int, limit: int, admitted: bool) -> bool { admitted ==> rolled(b, t, d).n < limit }

pub open spec fn inv(b: B, limit: int) -> bool { 0 <= b.m <= limit && 0 <= b.n <= limit }

/// the counters stay exact integers within [0, limit]: the representation invariant the Kani harnesses assume
pub proof fn lemma_inv_preserved(b: B, t: int, d: int, limit: int, admitted: bool)
    requires inv(b, limit), legal(b, t, d, limit, admitted), limit >= 1, d > 0, t >= b.w
    ensures inv(abs_step(b, t, d, admitted), limit), // @cl:C13.history.invariant_preserved
{}

/// admissions since the current window started == n  (so: never more than `limit` between two window starts)
pub open spec fn count_since_start(b: B, c: int) -> bool { c == b.n }
pub proof fn lemma_count_is_n(b: B, c: int, t: int, d: int, limit: int, admitted: bool)
    requires inv(b, limit), count_since_start(b, c), legal(b, t, d, limit, admitted), d > 0, t >= b.w
    ensures ({
        let b2 = abs_step(b, t, d, admitted);
        let c2 = (if b2.w != b.w { 0int } else { c }) + (if admitted { 1int } else { 0int });
        count_since_start(b2, c2) && c2 <= limit // @cl:C13.history.at_most_limit_per_window
    }),
{}

/// consecutive window starts are at least `duration` apart (so an interval of length `duration` meets at most two windows)
pub proof fn lemma_window_spacing(b: B, t: int, d: int, admitted: bool)
    requires d > 0, t >= b.w
    ensures abs_step(b, t, d, admitted).w == b.w || abs_step(b, t, d, admitted).w - b.w >= d, // @cl:C13.history.window_starts_spaced
{}

/// rejected attempts consume nothing
pub proof fn lemma_rejection_is_free(b: B, t: int, d: int)
    ensures abs_step(b, t, d, false) == rolled(b, t, d), // @cl:C13.history.rejection_consumes_nothing
{}

/// idle for at least twice the duration: the next attempt sees an empty bucket and is admissible for every limit >= 1
pub proof fn lemma_idle(b: B, t: int, d: int, limit: int)
    requires t - b.w >= 2 * d, limit >= 1
    ensures legal(b, t, d, limit, true), // @cl:C13.history.idle_is_admissible
{}

// ---- the 2*limit bound over whole histories (this used to be a paper step) ------------------------------------------------
/// one attempt of a key: its time and the limiter's verdict
pub struct A { pub t: int, pub adm: bool }
pub open spec fn run(b0: B, h: Seq<A>, d: int) -> B
    decreases h.len()
{ if h.len() == 0 { b0 } else { abs_step(run(b0, h.drop_last(), d), h.last().t, d, h.last().adm) } }
pub open spec fn tmax(b0: B, h: Seq<A>) -> int { if h.len() == 0 { b0.w } else { h.last().t } }
/// a history the limiter can produce: times do not decrease and every verdict is legal in the state it was given in
pub open spec fn valid(b0: B, h: Seq<A>, d: int, limit: int) -> bool
    decreases h.len()
{
    h.len() == 0 || (valid(b0, h.drop_last(), d, limit) && h.last().t >= tmax(b0, h.drop_last())
        && legal(run(b0, h.drop_last(), d), h.last().t, d, limit, h.last().adm))
}
pub open spec fn hit(x: A, a: int, d: int) -> int { if x.adm && a <= x.t < a + d { 1 } else { 0 } }
/// admissions inside the interval [a, a + d)
pub open spec fn admitted_in(h: Seq<A>, a: int, d: int) -> int
    decreases h.len()
{ if h.len() == 0 { 0 } else { admitted_in(h.drop_last(), a, d) + hit(h.last(), a, d) } }
/// ... split into those of the current window and those of earlier windows
pub open spec fn cc(b0: B, h: Seq<A>, a: int, d: int) -> int
    decreases h.len()
{
    if h.len() == 0 { 0 } else {
        let bp = run(b0, h.drop_last(), d);
        (if rolled(bp, h.last().t, d).w != bp.w { 0 } else { cc(b0, h.drop_last(), a, d) }) + hit(h.last(), a, d)
    }
}
pub open spec fn cp(b0: B, h: Seq<A>, a: int, d: int) -> int
    decreases h.len()
{
    if h.len() == 0 { 0 } else {
        let bp = run(b0, h.drop_last(), d);
        if rolled(bp, h.last().t, d).w != bp.w { cp(b0, h.drop_last(), a, d) + cc(b0, h.drop_last(), a, d) } else { cp(b0, h.drop_last(), a, d) }
    }
}
pub open spec fn hist_inv(b0: B, h: Seq<A>, a: int, d: int, limit: int) -> bool {
    let b = run(b0, h, d);
    let (p, c) = (cp(b0, h, a, d), cc(b0, h, a, d));
    inv(b, limit) && b.w <= tmax(b0, h) && 0 <= c <= b.n && 0 <= p
    && admitted_in(h, a, d) == p + c
    && (b.w < a + d ==> p <= limit) && (b.w < a ==> p == 0) && (tmax(b0, h) < a ==> c == 0)
    && p + c <= 2 * limit
}
/// C13: never more than twice `limit` admissions of one key within any interval of length `duration`
pub proof fn lemma_two_limit(b0: B, h: Seq<A>, a: int, d: int, limit: int)
    requires inv(b0, limit), limit >= 1, d > 0, valid(b0, h, d, limit)
    ensures
        hist_inv(b0, h, a, d, limit),
        admitted_in(h, a, d) <= 2 * limit, // @cl:C13.history.at_most_twice_limit_in_any_interval_of_length_duration
    decreases h.len()
{
    if h.len() > 0 {
        let hp = h.drop_last();
        lemma_two_limit(b0, hp, a, d, limit);
        let bp = run(b0, hp, d);
        let x = h.last();
        lemma_inv_preserved(bp, x.t, d, limit, x.adm);
        let r = rolled(bp, x.t, d);
        let b = run(b0, h, d);
        assert(b == abs_step(bp, x.t, d, x.adm));
        if r.w != bp.w {
            // a new window starts at x.t, at least d after the previous start
            assert(x.t - bp.w >= d);
        }
    }
}

} // verus!
fn main() {}
