"""U8h — abstract history lemmas for the rate limiter (C13), pure Verus."""
import os
import sys

HERE = os.path.dirname(os.path.abspath(__file__))
sys.path.insert(0, os.path.join(HERE, "..", "..", "lib"))
import vxlib  # noqa: E402

NAME = "U8h"


def build(vacuity=False):
    vxlib.reset_vac()
    u = vxlib.Unit(NAME)
    u.default_props = ["C13"]
    with open(os.path.join(HERE, "spec.rs")) as f:
        u.raw(f.read())
    return u
