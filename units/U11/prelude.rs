    // ---- U11: the binary crate's `start()` (src/lib.rs). Child module of `listener` so that the Listener's private
    // fields are visible to the contracts. Everything here is an assumption except the extracted Config structs.
    pub struct BoxError {}
    impl From<IoError> for BoxError { #[verifier::external_body] fn from(e: IoError) -> (r: BoxError) { unimplemented!() } }
    pub struct TcpListener {}
    impl TcpListener {
        #[verifier::external_body] pub fn bind(address: String) -> (r: Result<TcpListener, IoError>) { unimplemented!() }
        #[verifier::external_body] pub fn accept(&self) -> (r: Result<(TcpStream, SocketAddr), IoError>) { unimplemented!() }
    }
    pub struct CancellationToken {}
    impl CancellationToken {
        /// C17: whether shutdown had been requested (the token cancelled) when poll number `e` of a `select!` took place
        pub uninterp spec fn requested(&self, e: int) -> bool;
        #[verifier::external_body] pub fn new() -> CancellationToken { unimplemented!() }
        #[verifier::external_body] pub fn cancel(&self) { unimplemented!() }
        #[verifier::external_body] pub fn cancelled(&self) { unimplemented!() }
        /// R8b: `cancelled()` is ready exactly when the token is cancelled
        #[verifier::external_body] pub fn vx_ready_cancelled(&self, e: Ghost<int>) -> (g: Ghost<bool>) ensures g@ == self.requested(e@) { unimplemented!() }
    }
    impl TcpListener {
        /// R8b: `accept()` is ready when a connection is pending (unconstrained)
        #[verifier::external_body] pub fn vx_ready_accept(&self, e: Ghost<int>) -> (g: Ghost<bool>) { unimplemented!() }
    }
    /// R8b: one poll of a `select!` (tokio's documented semantics): a fresh poll number; the arm that runs was ready, and with
    /// `biased;` no arm before it in source order was
    #[verifier::external_body] pub fn vx_select_enter() -> (e: Ghost<int>) { unimplemented!() }
    #[verifier::external_body] pub fn vx_select_pick2(biased: bool, r0: Ghost<bool>, r1: Ghost<bool>) -> (k: usize)
        ensures k < 2, k == 0 ==> r0@, k == 1 ==> r1@, (biased && k == 1) ==> !r0@,
    { unimplemented!() }
    impl Clone for CancellationToken { #[verifier::external_body] fn clone(&self) -> CancellationToken { unimplemented!() } }
    impl TaskTracker {
        /// tokio_util's TaskTracker: `wait()` completes once the tracker is closed and every tracked task has finished
        pub uninterp spec fn vx_closed(&self) -> bool;
        pub uninterp spec fn vx_drained(&self) -> bool;
        #[verifier::external_body] pub fn close(&self) -> bool ensures self.vx_closed() { unimplemented!() }
        #[verifier::external_body] pub fn wait(&self)
            requires
                self.vx_closed(), // @cl:C17.accept_loop.tracker_closed_before_it_is_awaited
            ensures self.vx_drained(),
        { unimplemented!() }
    }
    pub mod app {
        use super::*;
        use super::super::*;
        /// the adapter configurations and the telemetry settings are opaque: nothing is claimed about them
        pub mod config {
            use super::*;
            pub struct Sentry {}
            pub struct OpenTelemetry {}
            pub struct StatusAdapter {}
            pub struct DiscoveryAdapter {}
            pub struct OptionFilterAdapter {}
            pub struct StrategyAdapter {}
            pub struct AuthenticationAdapter {}
            pub struct LocalizationAdapter {}
//@CONFIG_STRUCTS@
        }
        pub use config::Config;
        /// `Dyn*Adapter::from_config`: builds the adapter or fails (opaque)
        impl Stat { #[verifier::external_body] pub fn from_config(c: config::StatusAdapter) -> (r: Result<Stat, BoxError>) { unimplemented!() } }
        impl Disc { #[verifier::external_body] pub fn from_config(c: config::DiscoveryAdapter) -> (r: Result<Disc, BoxError>) { unimplemented!() } }
        impl Filt { #[verifier::external_body] pub fn from_config(c: Vec<config::OptionFilterAdapter>) -> (r: Result<Filt, BoxError>) { unimplemented!() } }
        impl Stra { #[verifier::external_body] pub fn from_config(c: config::StrategyAdapter) -> (r: Result<Stra, BoxError>) { unimplemented!() } }
        impl Auth { #[verifier::external_body] pub fn from_config(c: config::AuthenticationAdapter) -> (r: Result<Auth, BoxError>) { unimplemented!() } }
        impl Loca { #[verifier::external_body] pub fn from_config(c: config::LocalizationAdapter) -> (r: Result<Loca, BoxError>) { unimplemented!() } }
        pub open spec fn secret_bytes(s: Option<String>) -> Option<Seq<u8>> { match s { Some(x) => Some(encode_utf8(x@)), None => None } }
        /// C15 / C13: the limiter and the PROXY settings of the listener are the configured ones
        pub open spec fn limiter_as_configured(l: Option<RateLimiter>, c: Option<config::RateLimiter>) -> bool {
            match (l, c) {
                (Some(r), Some(k)) => r.dur@ == (Duration { secs: k.duration }) && r.lim@ == k.limit && r.calls@.len() == 0,
                (None, None) => true,
                _ => false,
            }
        }
        pub open spec fn proxy_as_configured(l: Option<ParseConfig>, c: Option<config::ProxyProtocol>) -> bool {
            match (l, c) {
                (Some(p), Some(k)) => p.allow_v1 == k.allow_v1 && p.allow_v2 == k.allow_v2,
                (None, None) => true,
                _ => false,
            }
        }
