"""U11 — the operator's Config reaches every connection (C14, C15): src/lib.rs `start()` and the accept loop
`Listener::listen`. Built on U9: the Listener builders, `new` and `handle` appear by their U9 contracts (external)."""
import os
import sys

HERE = os.path.dirname(os.path.abspath(__file__))
sys.path.insert(0, os.path.join(HERE, "..", "..", "lib"))
sys.path.insert(0, os.path.join(HERE, "..", "conn"))
import vxlib  # noqa: E402
import runner  # noqa: E402

NAME = "U11"
RLIMIT = 30
PL = "passage-protocol/src/listener.rs"
LIB = "src/lib.rs"
CFG = "src/config.rs"
U9 = runner.load_unit("U9")

START_SUBST = {
    "Box<dynstd::error::Error>": "BoxError",
    "RateLimiter<IpAddr>": "RateLimiter",
    "DynStatusAdapter": "Stat", "DynDiscoveryAdapter": "Disc", "DynFilterAdapters": "Filt",
    "DynStrategyAdapter": "Stra", "DynAuthenticationAdapter": "Auth", "DynLocalizationAdapter": "Loca",
}
START_RULES = ["deasync", "attrs", "log", "spawn_drop", "opt_map", "closure_wild", "generics", "try_desugar"]
LISTEN_RULES = ["deasync", "attrs", "log", "select_poll", "generics", "try_desugar"]
CFG_STRUCTS = ["Config", "RateLimiter", "ProxyProtocol", "Adapters"]


class Hooks:
    NAME = NAME

    def __init__(self):
        C = vxlib.load_contracts(os.path.join(HERE, "contracts.toml"))
        self.fnc = {k: vxlib.FnContract(k, v) for k, v in C.get("fn", {}).items()}

    def items(self, vacuity):
        it = [{"key": "listener.listen", "file": PL, "kind": "impl_fn", "self_ty": "Listener<Stat,Disc,Filt,Stra,Auth,Loca>", "name": "listen",
               "rules": LISTEN_RULES, "subst": dict(U9.L_SUBST, **{"A": "String", "Box<dynstd::error::Error>": "BoxError"}), "drop_generics": ["A"],
               "anchors": vxlib.anchors_for(self.fnc["listener.listen"], vacuity)},
              {"key": "app.start", "file": LIB, "kind": "fn", "name": "start", "rules": START_RULES, "subst": START_SUBST,
               "anchors": vxlib.anchors_for(self.fnc["app.start"], vacuity)}]
        for sname in CFG_STRUCTS:
            it.append({"key": f"config.{sname}", "file": CFG, "kind": "struct", "name": sname, "rules": ["attrs"]})
        return it

    def emit_impl(self, u, ex, vacuity):
        ex["listener.listen"]["vis"] = ""
        u.add_fn(ex["listener.listen"], self.fnc["listener.listen"], vacuity=vacuity, indent="        ")

    def emit_app(self, u, ex, vacuity):
        with open(os.path.join(HERE, "prelude.rs")) as f:
            pre = f.read()
        cfg = "".join(f"// @item:config.{n} src={ex[f'config.{n}']['file']}:{ex[f'config.{n}']['line_start']}-{ex[f'config.{n}']['line_end']}\n" + ex[f"config.{n}"]["text"]
                      for n in CFG_STRUCTS)
        u.raw(pre.replace("//@CONFIG_STRUCTS@", cfg))
        u.add_fn(ex["app.start"], self.fnc["app.start"], vacuity=vacuity, indent="        ")
        u.raw("    }\n")  # closes mod app


def build(vacuity=False):
    return U9.build(vacuity=vacuity, u11=Hooks())
