"""U2 — cookie signing and verification."""
import os
import sys

HERE = os.path.dirname(os.path.abspath(__file__))
sys.path.insert(0, os.path.join(HERE, "..", "..", "lib"))
import vxlib  # noqa: E402

NAME = "U2"
SRC = "passage-protocol/src/cookie.rs"
RULES = ["attrs", "log"]


def build(vacuity=False):
    vxlib.reset_vac()
    C = vxlib.load_contracts(os.path.join(HERE, "contracts.toml"))
    fnc = {k: vxlib.FnContract(k, v) for k, v in C.get("fn", {}).items()}
    u = vxlib.Unit(NAME)
    u.default_props = ["C04"]
    items = []
    for f in ["sign", "verify"]:
        items.append({"key": f"cookie.{f}", "file": SRC, "kind": "fn", "name": f, "rules": RULES,
                      "anchors": vxlib.anchors_for(fnc[f"cookie.{f}"], vacuity)})
    ex = vxlib.run_vx(items)
    with open(os.path.join(HERE, "prelude.rs")) as fh:
        u.raw(fh.read())
    if vacuity:
        u.raw(vxlib.VAC_PRELUDE)
    u.raw("verus! {\npub mod cookie {\n    use super::*;\n")
    u.modules.append("cookie")
    for f in ["sign", "verify"]:
        u.add_fn(ex[f"cookie.{f}"], fnc[f"cookie.{f}"], vacuity=vacuity)
    u.raw("}\n} // verus!\nfn main() {}\n")
    return u
