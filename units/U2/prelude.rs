// U2 prelude: HMAC-SHA256 as an uninterpreted function with the interface of the `hmac` crate.
use vstd::prelude::*;

verus! {

/// HMAC-SHA256(key, msg). Uninterpreted: "bit flips / truncation / other secret" are all instances of
/// `tag != hmac(key, body)`; no cryptographic hardness is (or could be) claimed.
pub uninterp spec fn hmac(key: Seq<u8>, msg: Seq<u8>) -> Seq<u8>;
/// the tag is 32 bytes (SHA-256 output size) — assumed
pub broadcast axiom fn axiom_hmac_len(key: Seq<u8>, msg: Seq<u8>)
    ensures #[trigger] hmac(key, msg).len() == 32;

#[derive(Debug)]
pub struct InvalidLength {}
pub struct MacError {}

/// `Hmac<Sha256>`: the abstract state is (key, bytes absorbed so far).
pub struct HmacSha256 { pub key: Ghost<Seq<u8>>, pub msg: Ghost<Seq<u8>> }
pub struct CtOutput { pub tag: Ghost<Seq<u8>> }

impl HmacSha256 {
    /// hmac accepts keys of any length (crate documentation) — assumed
    #[verifier::external_body]
    pub fn new_from_slice(key: &[u8]) -> (r: Result<HmacSha256, InvalidLength>)
        ensures r matches Ok(m) && m.key@ == key@ && m.msg@ == Seq::<u8>::empty()
    { unimplemented!() }
    #[verifier::external_body]
    pub fn update(&mut self, data: &[u8])
        ensures final(self).key@ == old(self).key@, final(self).msg@ == old(self).msg@ + data@
    { unimplemented!() }
    #[verifier::external_body]
    pub fn finalize(self) -> (r: CtOutput)
        ensures r.tag@ == hmac(self.key@, self.msg@)
    { unimplemented!() }
    /// constant-time comparison of the full tag: Ok iff equal (in particular iff the lengths agree)
    #[verifier::external_body]
    pub fn verify_slice(self, tag: &[u8]) -> (r: Result<(), MacError>)
        ensures r is Ok <==> tag@ == hmac(self.key@, self.msg@)
    { unimplemented!() }
}
impl CtOutput {
    #[verifier::external_body]
    pub fn into_bytes(self) -> (r: [u8; 32])
        ensures r@ == self.tag@
    { unimplemented!() }
}

pub open spec fn tag_ok(signed: Seq<u8>, secret: Seq<u8>) -> bool {
    signed.len() >= 32 && signed.subrange(0, 32) == hmac(secret, signed.subrange(32, signed.len() as int))
}
pub open spec fn signed_with(message: Seq<u8>, secret: Seq<u8>) -> Seq<u8> { hmac(secret, message) + message }

/// C10: a cookie produced by `sign` is accepted by `verify` under the same secret and yields the message
pub proof fn lemma_sign_then_verify(message: Seq<u8>, secret: Seq<u8>)
    ensures
        tag_ok(signed_with(message, secret), secret), // @cl:C10.sign_verify.accepted
        signed_with(message, secret).subrange(32, signed_with(message, secret).len() as int) == message, // @cl:C10.sign_verify.message
{
    broadcast use axiom_hmac_len;
    let s = signed_with(message, secret);
    assert(s.subrange(32, s.len() as int) =~= message);
    assert(s.subrange(0, 32) =~= hmac(secret, message));
}

} // verus!
