"""U14 — the built-in filter and strategy adapters (C18): rule semantics, host-name scope, allow / block lists, chains,
default and player-fill strategies; every function is extracted from /repo on each run."""
import os
import sys

HERE = os.path.dirname(os.path.abspath(__file__))
sys.path.insert(0, os.path.join(HERE, "..", "..", "lib"))
import vxlib  # noqa: E402

NAME = "U14"
A = "passage-adapters/src/"
RULES = ["deasync", "attrs", "log", "let_chain", "closure_wild", "param_pat", "iter_search", "for_iter", "parse_turbofish", "iter_loop",
         "opt_match", "opt_map", "opt_and_then", "res_map_err", "error_cause", "try_desugar", "generics"]
ST = ["attrs", "generics", "pub_fields"]


def build(vacuity=False):
    vxlib.reset_vac()
    C = vxlib.load_contracts(os.path.join(HERE, "contracts.toml"))
    fnc = {k: vxlib.FnContract(k, v) for k, v in C.get("fn", {}).items()}

    def fn(key, file, self_ty, name, trait=None, **kw):
        d = {"key": key, "file": A + file, "kind": "impl_fn", "self_ty": self_ty, "name": name, "rules": RULES,
             "anchors": vxlib.anchors_for(fnc[key], vacuity)}
        if trait:
            d["trait"] = trait
        d.update(kw)
        return d

    items = [
        {"key": "adapters.Target", "file": A + "lib.rs", "kind": "struct", "name": "Target", "rules": ST, "subst": {"HashMap<String,String>": "MetaMap"}},
        {"key": "meta.FilterOperation", "file": A + "filter/meta.rs", "kind": "enum", "name": "FilterOperation", "rules": ST},
        {"key": "meta.FilterRule", "file": A + "filter/meta.rs", "kind": "struct", "name": "FilterRule", "rules": ST},
        {"key": "meta.MetaFilterAdapter", "file": A + "filter/meta.rs", "kind": "struct", "name": "MetaFilterAdapter", "rules": ST},
        {"key": "option.OptionFilterAdapter", "file": A + "filter/option.rs", "kind": "struct", "name": "OptionFilterAdapter", "rules": ["attrs", "pub_fields"]},
        {"key": "allow.PlayerAllowFilterAdapter", "file": A + "filter/player_allow.rs", "kind": "struct", "name": "PlayerAllowFilterAdapter", "rules": ST},
        {"key": "block.PlayerBlockFilterAdapter", "file": A + "filter/player_block.rs", "kind": "struct", "name": "PlayerBlockFilterAdapter", "rules": ST},
        {"key": "any.AnyStrategyAdapter", "file": A + "strategy/any.rs", "kind": "struct", "name": "AnyStrategyAdapter", "rules": ST},
        {"key": "fill.PlayerFillStrategyAdapter", "file": A + "strategy/player_fill.rs", "kind": "struct", "name": "PlayerFillStrategyAdapter", "rules": ST},
        fn("meta.op_matches", "filter/meta.rs", "FilterOperation", "matches"),
        fn("meta.rule_matches", "filter/meta.rs", "FilterRule", "matches"),
        fn("meta.matches_filters", "filter/meta.rs", "MetaFilterAdapter", "matches_filters"),
        fn("meta.filter", "filter/meta.rs", "MetaFilterAdapter", "filter", trait="FilterAdapter", collect_types=["Vec<Target>"]),
        fn("option.filter", "filter/option.rs", "OptionFilterAdapter<T>", "filter", trait="FilterAdapter"),
        fn("chain.filter", "filter/mod.rs", "Vec<T>", "filter", trait="FilterAdapter"),
        fn("allow.filter", "filter/player_allow.rs", "PlayerAllowFilterAdapter", "filter", trait="FilterAdapter"),
        fn("block.filter", "filter/player_block.rs", "PlayerBlockFilterAdapter", "filter", trait="FilterAdapter"),
        fn("any.select", "strategy/any.rs", "AnyStrategyAdapter", "select", trait="StrategyAdapter"),
        fn("fill.select", "strategy/player_fill.rs", "PlayerFillStrategyAdapter", "select", trait="StrategyAdapter", search_types=["Option<(u32, (&Target, u32))>"]),
        fn("meta.new", "filter/meta.rs", "MetaFilterAdapter", "new"),
        fn("meta.add_rule", "filter/meta.rs", "MetaFilterAdapter", "add_rule", rules=RULES + ["mut_self"]),
        fn("option.new", "filter/option.rs", "OptionFilterAdapter<T>", "new"),
        fn("allow.new", "filter/player_allow.rs", "PlayerAllowFilterAdapter", "new"),
        fn("block.new", "filter/player_block.rs", "PlayerBlockFilterAdapter", "new"),
        fn("fill.new", "strategy/player_fill.rs", "PlayerFillStrategyAdapter", "new"),
        fn("any.new", "strategy/any.rs", "AnyStrategyAdapter", "new"),
    ]
    # ---- the application side: src/config.rs values, src/adapter/{filter,strategy,mod}.rs
    CFG = ["OptionFilterAdapter", "MetaFilter", "FilterRule", "PlayerAllowFilter", "PlayerBlockFilter", "PlayerFillStrategy", "GrpcStrategy"]
    CFGE = ["FilterAdapter", "FilterOperation", "StrategyAdapter"]
    items += [{"key": "config." + n, "file": "src/config.rs", "kind": "struct", "name": n, "rules": ["attrs"]} for n in CFG]
    items += [{"key": "config." + n, "file": "src/config.rs", "kind": "enum", "name": n, "rules": ["attrs"]} for n in CFGE]
    FI, SI = "src/adapter/filter.rs", "src/adapter/strategy.rs"
    BOX = {"Box<dynstd::error::Error>": "BoxError"}

    def app(key, file, kind="impl_fn", **kw):
        d = {"key": key, "file": file, "kind": kind, "rules": RULES + ["into_from", "into_method"], "anchors": vxlib.anchors_for(fnc[key], vacuity), "subst": BOX}
        d.update(kw)
        return d

    items += [
        {"key": "app.DynFilterAdapter", "file": FI, "kind": "enum", "name": "DynFilterAdapter", "rules": ["attrs"]},
        {"key": "app.DynFilterAdapters", "file": FI, "kind": "struct", "name": "DynFilterAdapters", "rules": ["attrs", "pub_fields"]},
        {"key": "app.DynStrategyAdapter", "file": SI, "kind": "enum", "name": "DynStrategyAdapter", "rules": ["attrs"]},
        app("app.dyn_filter", FI, self_ty="DynFilterAdapter", trait="FilterAdapter", name="filter"),
        app("app.dyn_from_config", FI, self_ty="DynFilterAdapter", name="from_config", collect_types=["Vec<FilterRule>"]),
        app("app.rule_from", FI, self_ty="FilterRule", trait="From<config::FilterRule>", name="from"),
        app("app.op_from", FI, self_ty="FilterOperation", trait="From<config::FilterOperation>", name="from"),
        app("app.dyns_filter", FI, self_ty="DynFilterAdapters", trait="FilterAdapter", name="filter"),
        app("app.dyns_from_config", FI, self_ty="DynFilterAdapters", name="from_config"),
        app("app.strat_select", SI, self_ty="DynStrategyAdapter", trait="StrategyAdapter", name="select"),
        app("app.strat_from_config", SI, self_ty="DynStrategyAdapter", name="from_config"),
        app("app.opt_to_regex", "src/adapter/mod.rs", kind="fn", name="opt_to_regex"),
        app("app.opt_vec_to_uuid", "src/adapter/mod.rs", kind="fn", name="opt_vec_to_uuid"),
    ]
    ex = vxlib.run_vx(items)
    u = vxlib.Unit(NAME)
    u.default_props = ["C18"]
    with open(os.path.join(HERE, "prelude.rs")) as f:
        u.raw(vxlib.with_includes(f.read()))
    if vacuity:
        u.raw(vxlib.VAC_PRELUDE)
    u.raw("verus! {\n")
    u.modules.append("adapters")
    # the prelude's traits mention `Target`, which is extracted: everything lives in one module that the prelude re-exports
    u.raw("pub use adapters::Target;\npub mod adapters {\n    use super::*;\n    broadcast use group_string_eq;\n")
    u.raw("    pub mod config {\n        use super::*;\n")
    for n in CFG + CFGE:
        u.add_item_text(ex["config." + n])
    u.raw("    }\n")
    for k in ["app.DynFilterAdapter", "app.DynFilterAdapters", "app.DynStrategyAdapter"]:
        u.add_item_text(ex[k])
    for k in ["adapters.Target", "meta.FilterOperation", "meta.FilterRule", "meta.MetaFilterAdapter", "option.OptionFilterAdapter",
              "allow.PlayerAllowFilterAdapter", "block.PlayerBlockFilterAdapter", "any.AnyStrategyAdapter", "fill.PlayerFillStrategyAdapter"]:
        u.add_item_text(ex[k])
    # `#[derive(Clone)]` of Target (attributes are dropped by R2): field-wise clone
    u.raw("    impl Clone for Target {\n        #[verifier::external_body]\n        fn clone(&self) -> (r: Self) ensures r == *self { unimplemented!() }\n    }\n")
    with open(os.path.join(HERE, "spec.rs")) as f:
        u.raw(f.read())

    def impl(header, keys, spec=None):
        u.raw(f"    {header} {{\n")
        if spec:
            u.raw(f"        {spec}\n")
        for k in keys:
            u.add_fn(ex[k], fnc[k], vacuity=vacuity, indent="        ")
        u.raw("    }\n")

    F = "open spec fn filtered(&self, c: Ctx, ts: Seq<Target>) -> Option<Seq<Target>>"
    S = "open spec fn selected_ok(&self, c: Ctx, ts: Seq<Target>, r: Result<Option<Target>>) -> bool"
    impl("impl FilterOperation", ["meta.op_matches"])
    impl("impl FilterRule", ["meta.rule_matches"])
    impl("impl MetaFilterAdapter", ["meta.matches_filters"])
    impl("impl FilterAdapter for MetaFilterAdapter", ["meta.filter"], F + " { meta_filtered(*self, c, ts) }")
    impl("impl<T> FilterAdapter for OptionFilterAdapter<T> where T: FilterAdapter", ["option.filter"], F + " { option_filtered(*self, c, ts) }")
    impl("impl<T> FilterAdapter for Vec<T> where T: FilterAdapter", ["chain.filter"], F + " { chain_filtered(self@, c, ts) }")
    impl("impl FilterAdapter for PlayerAllowFilterAdapter", ["allow.filter"], F + " { allow_filtered(*self, c, ts) }")
    impl("impl FilterAdapter for PlayerBlockFilterAdapter", ["block.filter"], F + " { block_filtered(*self, c, ts) }")
    impl("impl StrategyAdapter for AnyStrategyAdapter", ["any.select"], S + " { any_selected_ok(ts, r) }")
    impl("impl StrategyAdapter for PlayerFillStrategyAdapter", ["fill.select"], S + " { fill_selected_ok(*self, ts, r) }")
    # derives dropped by R2 that the code relies on
    u.raw("    impl Default for AnyStrategyAdapter { fn default() -> Self { AnyStrategyAdapter {} } }\n")
    for k in ["meta.new", "meta.add_rule", "option.new", "allow.new", "block.new", "fill.new", "any.new", "app.dyn_from_config", "app.dyns_from_config", "app.strat_from_config",
              "app.opt_to_regex", "app.opt_vec_to_uuid"]:
        ex[k]["vis"] = ""
    impl("impl MetaFilterAdapter", ["meta.new", "meta.add_rule"])
    impl("impl<T> OptionFilterAdapter<T>", ["option.new"])
    impl("impl PlayerAllowFilterAdapter", ["allow.new"])
    impl("impl PlayerBlockFilterAdapter", ["block.new"])
    impl("impl PlayerFillStrategyAdapter", ["fill.new"])
    impl("impl AnyStrategyAdapter", ["any.new"])
    impl("impl FilterAdapter for DynFilterAdapter", ["app.dyn_filter"], F + " { dyn_filtered(*self, c, ts) }")
    impl("impl DynFilterAdapter", ["app.dyn_from_config"])
    # vstd's From specification trait: these impls promise nothing beyond the contracts below
    u.raw("""    impl vstd::std_specs::convert::FromSpecImpl<config::FilterRule> for FilterRule { open spec fn obeys_from_spec() -> bool { false } open spec fn from_spec(v: config::FilterRule) -> FilterRule { arbitrary() } }
    impl vstd::std_specs::convert::FromSpecImpl<config::FilterOperation> for FilterOperation { open spec fn obeys_from_spec() -> bool { false } open spec fn from_spec(v: config::FilterOperation) -> FilterOperation { arbitrary() } }
""")
    impl("impl From<config::FilterRule> for FilterRule", ["app.rule_from"])
    impl("impl From<config::FilterOperation> for FilterOperation", ["app.op_from"])
    impl("impl FilterAdapter for DynFilterAdapters", ["app.dyns_filter"], F + " { chain_filtered(self.filters@, c, ts) }")
    impl("impl DynFilterAdapters", ["app.dyns_from_config"])
    impl("impl StrategyAdapter for DynStrategyAdapter", ["app.strat_select"], S + " { dyn_selected_ok(*self, c, ts, r) }")
    impl("impl DynStrategyAdapter", ["app.strat_from_config"])
    u.add_fn(ex["app.opt_to_regex"], fnc["app.opt_to_regex"], vacuity=vacuity, indent="    ")
    u.add_fn(ex["app.opt_vec_to_uuid"], fnc["app.opt_vec_to_uuid"], vacuity=vacuity, indent="    ")
    u.raw("}\n} // verus!\nfn main() {}\n")
    return u
