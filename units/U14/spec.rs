    // ---- C18, written from the property statement (not from the code) ------------------------------------------------
    /// the elements of `s` that satisfy `p`, in order
    pub open spec fn keep<A>(s: Seq<A>, p: spec_fn(A) -> bool) -> Seq<A>
        decreases s.len()
    {
        if s.len() == 0 { Seq::empty() } else {
            let r = keep(s.drop_last(), p);
            if p(s.last()) { r.push(s.last()) } else { r }
        }
    }
    pub open spec fn meta_get(t: Target, k: Seq<char>) -> Option<Seq<char>> {
        if t.meta.m@.contains_key(k) { Some(t.meta.m@[k]) } else { None }
    }
    pub open spec fn some_equal(xs: Seq<String>, v: Seq<char>) -> bool { exists|i: int| 0 <= i < xs.len() && (#[trigger] xs[i])@ == v }
    /// one metadata rule: equals / not-equals / exists / not-exists / in / not-in on the (possibly missing) value of a key
    pub open spec fn op_ok(op: FilterOperation, v: Option<Seq<char>>) -> bool {
        match op {
            FilterOperation::Equals(x) => v == Some(x@),
            FilterOperation::NotEquals(x) => v != Some(x@),
            FilterOperation::Exists => v is Some,
            FilterOperation::NotExists => v is None,
            FilterOperation::In(xs) => v is Some && some_equal(xs@, v->0),
            FilterOperation::NotIn(xs) => !(v is Some && some_equal(xs@, v->0)),
        }
    }
    pub open spec fn rule_ok(r: FilterRule, t: Target) -> bool { op_ok(r.operation, meta_get(t, r.key@)) }
    /// "satisfies every configured metadata rule"
    pub open spec fn rules_ok(rules: Seq<FilterRule>, t: Target) -> bool { forall|i: int| 0 <= i < rules.len() ==> rule_ok(#[trigger] rules[i], t) }
    /// a player is on an allow / block list: by name, by pattern or by UUID
    pub open spec fn some_id(xs: Seq<Uuid>, v: Uuid) -> bool { exists|i: int| 0 <= i < xs.len() && #[trigger] xs[i] == v }
    pub open spec fn listed(usernames: Option<Vec<String>>, username: Option<Regex>, ids: Option<Vec<Uuid>>, c: Ctx) -> bool {
        (usernames matches Some(xs) && some_equal(xs@, c.name))
        || (username matches Some(re) && regex_match(re, c.name))
        || (ids matches Some(xs) && some_id(xs@, c.id))
    }
    pub open spec fn opt_str_view(o: Option<&str>) -> Option<Seq<char>> { match o { Some(s) => Some(s@), None => None } }

    // what each built-in mechanism denotes
    pub open spec fn meta_filtered(a: MetaFilterAdapter, c: Ctx, ts: Seq<Target>) -> Option<Seq<Target>> { Some(keep(ts, |t: Target| rules_ok(a.rules@, t))) }
    pub open spec fn allow_filtered(a: PlayerAllowFilterAdapter, c: Ctx, ts: Seq<Target>) -> Option<Seq<Target>> {
        Some(if listed(a.usernames, a.username, a.ids, c) { ts } else { Seq::empty() })
    }
    pub open spec fn block_filtered(a: PlayerBlockFilterAdapter, c: Ctx, ts: Seq<Target>) -> Option<Seq<Target>> {
        Some(if listed(a.usernames, a.username, a.ids, c) { Seq::empty() } else { ts })
    }
    /// host-name scope: a pattern that does not match the host name the player connected with switches the filter off
    pub open spec fn applicable(hostname: Option<Regex>, c: Ctx) -> bool { !(hostname matches Some(re) && !regex_match(re, c.host)) }
    pub open spec fn option_filtered<T: FilterAdapter>(a: OptionFilterAdapter<T>, c: Ctx, ts: Seq<Target>) -> Option<Seq<Target>> {
        if applicable(a.hostname, c) { a.filter.filtered(c, ts) } else { Some(ts) }
    }
    /// chain = sequential composition, an error ends it
    pub open spec fn chain_filtered<T: FilterAdapter>(fs: Seq<T>, c: Ctx, ts: Seq<Target>) -> Option<Seq<Target>>
        decreases fs.len()
    {
        if fs.len() == 0 { Some(ts) } else {
            match chain_filtered(fs.drop_last(), c, ts) { Some(s) => fs.last().filtered(c, s), None => None }
        }
    }
    /// default strategy: the first candidate
    pub open spec fn any_selected_ok(ts: Seq<Target>, r: Result<Option<Target>>) -> bool {
        r == Ok::<Option<Target>, Error>(if ts.len() > 0 { Some(ts[0]) } else { None })
    }
    /// player-fill: the player count of a target (missing / non-numeric metadata counts as 0)
    pub open spec fn players(t: Target, field: Seq<char>) -> u32 {
        match meta_get(t, field) { Some(s) => (match parse_u32(s) { Some(n) => n, None => 0u32 }), None => 0u32 }
    }
    /// "the chosen target is below the configured capacity and no other eligible target is fuller"; no target only if none is below capacity
    pub open spec fn fill_selected_ok(a: PlayerFillStrategyAdapter, ts: Seq<Target>, r: Result<Option<Target>>) -> bool {
        r matches Ok(o) && match o {
            Some(t) => (exists|i: int| 0 <= i < ts.len() && #[trigger] ts[i] == t)
                && players(t, a.field@) < a.max_players
                && forall|j: int| 0 <= j < ts.len() && players(#[trigger] ts[j], a.field@) < a.max_players ==> players(ts[j], a.field@) <= players(t, a.field@),
            None => forall|j: int| 0 <= j < ts.len() ==> players(#[trigger] ts[j], a.field@) >= a.max_players,
        }
    }

    // ---- lemmas ------------------------------------------------------------------------------------------------------
    pub proof fn lemma_keep_step<A>(s: Seq<A>, p: spec_fn(A) -> bool, n: int)
        requires 0 <= n < s.len(),
        ensures keep(s.subrange(0, n + 1), p) == (if p(s[n]) { keep(s.subrange(0, n), p).push(s[n]) } else { keep(s.subrange(0, n), p) }),
    {
        assert(s.subrange(0, n + 1).drop_last() =~= s.subrange(0, n));
    }
    /// an error inside a chain ends the chain
    pub proof fn lemma_chain_none_extends<T: FilterAdapter>(fs: Seq<T>, c: Ctx, ts: Seq<Target>, n: int)
        requires 0 <= n <= fs.len(), chain_filtered(fs.subrange(0, n), c, ts) is None,
        ensures chain_filtered(fs, c, ts) is None,
        decreases fs.len() - n
    {
        if n == fs.len() {
            assert(fs.subrange(0, n) =~= fs);
        } else {
            assert(fs.subrange(0, n + 1).drop_last() =~= fs.subrange(0, n));
            lemma_chain_none_extends(fs, c, ts, n + 1);
        }
    }
