    // ---- C18, written from the property statement (not from the code) ------------------------------------------------
    /// the elements of `s` that satisfy `p`, in order
    pub open spec fn keep<A>(s: Seq<A>, p: spec_fn(A) -> bool) -> Seq<A>
        decreases s.len()
    {
        if s.len() == 0 { Seq::empty() } else {
            let r = keep(s.drop_last(), p);
            if p(s.last()) { r.push(s.last()) } else { r }
        }
    }
    pub open spec fn meta_get(t: Target, k: Seq<char>) -> Option<Seq<char>> {
        if t.meta.m@.contains_key(k) { Some(t.meta.m@[k]) } else { None }
    }
    pub open spec fn some_equal(xs: Seq<String>, v: Seq<char>) -> bool { exists|i: int| 0 <= i < xs.len() && (#[trigger] xs[i])@ == v }
    /// one metadata rule: equals / not-equals / exists / not-exists / in / not-in on the (possibly missing) value of a key
    pub open spec fn op_ok(op: FilterOperation, v: Option<Seq<char>>) -> bool {
        match op {
            FilterOperation::Equals(x) => v == Some(x@),
            FilterOperation::NotEquals(x) => v != Some(x@),
            FilterOperation::Exists => v is Some,
            FilterOperation::NotExists => v is None,
            FilterOperation::In(xs) => v is Some && some_equal(xs@, v->0),
            FilterOperation::NotIn(xs) => !(v is Some && some_equal(xs@, v->0)),
        }
    }
    pub open spec fn rule_ok(r: FilterRule, t: Target) -> bool { op_ok(r.operation, meta_get(t, r.key@)) }
    /// "satisfies every configured metadata rule"
    pub open spec fn rules_ok(rules: Seq<FilterRule>, t: Target) -> bool { forall|i: int| 0 <= i < rules.len() ==> rule_ok(#[trigger] rules[i], t) }
    /// a player is on an allow / block list: by name, by pattern or by UUID
    pub open spec fn some_id(xs: Seq<Uuid>, v: Uuid) -> bool { exists|i: int| 0 <= i < xs.len() && #[trigger] xs[i] == v }
    pub open spec fn listed(usernames: Option<Vec<String>>, username: Option<Regex>, ids: Option<Vec<Uuid>>, c: Ctx) -> bool {
        (usernames matches Some(xs) && some_equal(xs@, c.name))
        || (username matches Some(re) && regex_match(re, c.name))
        || (ids matches Some(xs) && some_id(xs@, c.id))
    }
    pub open spec fn opt_str_view(o: Option<&str>) -> Option<Seq<char>> { match o { Some(s) => Some(s@), None => None } }

    // what each built-in mechanism denotes
    pub open spec fn meta_filtered(a: MetaFilterAdapter, c: Ctx, ts: Seq<Target>) -> Option<Seq<Target>> { Some(keep(ts, |t: Target| rules_ok(a.rules@, t))) }
    pub open spec fn allow_filtered(a: PlayerAllowFilterAdapter, c: Ctx, ts: Seq<Target>) -> Option<Seq<Target>> {
        Some(if listed(a.usernames, a.username, a.ids, c) { ts } else { Seq::empty() })
    }
    pub open spec fn block_filtered(a: PlayerBlockFilterAdapter, c: Ctx, ts: Seq<Target>) -> Option<Seq<Target>> {
        Some(if listed(a.usernames, a.username, a.ids, c) { Seq::empty() } else { ts })
    }
    /// host-name scope: a pattern that does not match the host name the player connected with switches the filter off
    pub open spec fn applicable(hostname: Option<Regex>, c: Ctx) -> bool { !(hostname matches Some(re) && !regex_match(re, c.host)) }
    pub open spec fn option_filtered<T: FilterAdapter>(a: OptionFilterAdapter<T>, c: Ctx, ts: Seq<Target>) -> Option<Seq<Target>> {
        if applicable(a.hostname, c) { a.filter.filtered(c, ts) } else { Some(ts) }
    }
    /// chain = sequential composition, an error ends it
    pub open spec fn chain_filtered<T: FilterAdapter>(fs: Seq<T>, c: Ctx, ts: Seq<Target>) -> Option<Seq<Target>>
        decreases fs.len()
    {
        if fs.len() == 0 { Some(ts) } else {
            match chain_filtered(fs.drop_last(), c, ts) { Some(s) => fs.last().filtered(c, s), None => None }
        }
    }
    /// default strategy: the first candidate
    pub open spec fn any_selected_ok(ts: Seq<Target>, r: Result<Option<Target>>) -> bool {
        r == Ok::<Option<Target>, Error>(if ts.len() > 0 { Some(ts[0]) } else { None })
    }
    /// player-fill: the player count of a target (missing / non-numeric metadata counts as 0)
    pub open spec fn players(t: Target, field: Seq<char>) -> u32 {
        match meta_get(t, field) { Some(s) => (match parse_u32(s) { Some(n) => n, None => 0u32 }), None => 0u32 }
    }
    /// "the chosen target is below the configured capacity and no other eligible target is fuller"; no target only if none is below capacity
    pub open spec fn fill_selected_ok(a: PlayerFillStrategyAdapter, ts: Seq<Target>, r: Result<Option<Target>>) -> bool {
        r matches Ok(o) && match o {
            Some(t) => (exists|i: int| 0 <= i < ts.len() && #[trigger] ts[i] == t)
                && players(t, a.field@) < a.max_players
                && forall|j: int| 0 <= j < ts.len() && players(#[trigger] ts[j], a.field@) < a.max_players ==> players(ts[j], a.field@) <= players(t, a.field@),
            None => forall|j: int| 0 <= j < ts.len() ==> players(#[trigger] ts[j], a.field@) >= a.max_players,
        }
    }

    // ---- lemmas ------------------------------------------------------------------------------------------------------
    pub proof fn lemma_keep_step<A>(s: Seq<A>, p: spec_fn(A) -> bool, n: int)
        requires 0 <= n < s.len(),
        ensures keep(s.subrange(0, n + 1), p) == (if p(s[n]) { keep(s.subrange(0, n), p).push(s[n]) } else { keep(s.subrange(0, n), p) }),
    {
        assert(s.subrange(0, n + 1).drop_last() =~= s.subrange(0, n));
    }
    /// an error inside a chain ends the chain
    pub proof fn lemma_chain_none_extends<T: FilterAdapter>(fs: Seq<T>, c: Ctx, ts: Seq<Target>, n: int)
        requires 0 <= n <= fs.len(), chain_filtered(fs.subrange(0, n), c, ts) is None,
        ensures chain_filtered(fs, c, ts) is None,
        decreases fs.len() - n
    {
        if n == fs.len() {
            assert(fs.subrange(0, n) =~= fs);
        } else {
            assert(fs.subrange(0, n + 1).drop_last() =~= fs.subrange(0, n));
            lemma_chain_none_extends(fs, c, ts, n + 1);
        }
    }

    // ---- what a configuration denotes (src/config.rs values; written from the property statement and the option docs) ---
    pub open spec fn cfg_op(o: config::FilterOperation) -> FilterOperation {
        match o {
            config::FilterOperation::Equals(v) => FilterOperation::Equals(v),
            config::FilterOperation::NotEquals(v) => FilterOperation::NotEquals(v),
            config::FilterOperation::Exists => FilterOperation::Exists,
            config::FilterOperation::NotExists => FilterOperation::NotExists,
            config::FilterOperation::In(vs) => FilterOperation::In(vs),
            config::FilterOperation::NotIn(vs) => FilterOperation::NotIn(vs),
        }
    }
    pub open spec fn cfg_rule(r: config::FilterRule) -> FilterRule { FilterRule { key: r.key, operation: cfg_op(r.operation) } }
    pub open spec fn cfg_rules_ok(rules: Seq<config::FilterRule>, t: Target) -> bool { forall|i: int| 0 <= i < rules.len() ==> rule_ok(cfg_rule(#[trigger] rules[i]), t) }
    pub open spec fn cfg_regex(p: Option<String>) -> Option<Regex> { match p { Some(s) => regex_compile(s@), None => None } }
    pub open spec fn some_parsed_id(xs: Seq<String>, v: Uuid) -> bool { exists|i: int| 0 <= i < xs.len() && uuid_parse((#[trigger] xs[i])@) == Some(v) }
    pub open spec fn cfg_listed(usernames: Option<Vec<String>>, username: Option<String>, ids: Option<Vec<String>>, c: Ctx) -> bool {
        (usernames matches Some(xs) && some_equal(xs@, c.name))
        || (cfg_regex(username) matches Some(re) && regex_match(re, c.name))
        || (ids matches Some(xs) && some_parsed_id(xs@, c.id))
    }
    pub open spec fn ids_valid(ids: Option<Vec<String>>) -> bool { ids matches Some(xs) ==> forall|i: int| 0 <= i < xs@.len() ==> uuid_parse((#[trigger] xs@[i])@) is Some }
    pub open spec fn regex_valid(p: Option<String>) -> bool { p matches Some(s) ==> regex_compile(s@) is Some }
    /// a configuration can be turned into adapters iff its patterns compile and its ids parse
    pub open spec fn cfg_valid(cf: config::OptionFilterAdapter) -> bool {
        regex_valid(cf.hostname) && match cf.filter {
            config::FilterAdapter::Meta(m) => true,
            config::FilterAdapter::PlayerAllow(p) => regex_valid(p.username) && ids_valid(p.ids),
            config::FilterAdapter::PlayerBlock(p) => regex_valid(p.username) && ids_valid(p.ids),
        }
    }
    /// C18: target `t` qualifies for the player / host name of `c` under one configured filter
    pub open spec fn cfg_qualifies(cf: config::OptionFilterAdapter, c: Ctx, t: Target) -> bool {
        !applicable(cfg_regex(cf.hostname), c) || match cf.filter {
            config::FilterAdapter::Meta(m) => cfg_rules_ok(m.rules@, t),
            config::FilterAdapter::PlayerAllow(p) => cfg_listed(p.usernames, p.username, p.ids, c),
            config::FilterAdapter::PlayerBlock(p) => !cfg_listed(p.usernames, p.username, p.ids, c),
        }
    }
    /// ... and under the whole configured filter list
    pub open spec fn cfgs_qualify(cfs: Seq<config::OptionFilterAdapter>, c: Ctx, t: Target) -> bool { forall|i: int| 0 <= i < cfs.len() ==> cfg_qualifies(#[trigger] cfs[i], c, t) }
    pub open spec fn dyn_filtered(a: DynFilterAdapter, c: Ctx, ts: Seq<Target>) -> Option<Seq<Target>> {
        match a {
            DynFilterAdapter::Meta(x) => x.filtered(c, ts),
            DynFilterAdapter::PlayerAllow(x) => x.filtered(c, ts),
            DynFilterAdapter::PlayerBlock(x) => x.filtered(c, ts),
        }
    }
    pub open spec fn dyn_selected_ok(a: DynStrategyAdapter, c: Ctx, ts: Seq<Target>, r: Result<Option<Target>>) -> bool {
        match a {
            DynStrategyAdapter::Any(x) => x.selected_ok(c, ts, r),
            DynStrategyAdapter::PlayerFill(x) => x.selected_ok(c, ts, r),
            DynStrategyAdapter::Grpc(x) => x.selected_ok(c, ts, r),
        }
    }
    /// the adapter built from one configured filter computes exactly the qualifying targets, in order
    pub open spec fn denotes(a: DynFilterAdapter, cf: config::OptionFilterAdapter) -> bool {
        forall|c: Ctx, ts: Seq<Target>| #[trigger] a.filtered(c, ts) == Some(keep(ts, |t: Target| cfg_qualifies(cf, c, t)))
    }

    pub proof fn lemma_keep_ext<A>(s: Seq<A>, p: spec_fn(A) -> bool, q: spec_fn(A) -> bool)
        requires forall|i: int| 0 <= i < s.len() ==> p(#[trigger] s[i]) == q(s[i]),
        ensures keep(s, p) == keep(s, q),
        decreases s.len()
    {
        if s.len() > 0 { lemma_keep_ext(s.drop_last(), p, q); }
    }
    pub proof fn lemma_keep_all<A>(s: Seq<A>, p: spec_fn(A) -> bool)
        requires forall|i: int| 0 <= i < s.len() ==> p(#[trigger] s[i]),
        ensures keep(s, p) == s,
        decreases s.len()
    {
        if s.len() > 0 { lemma_keep_all(s.drop_last(), p); assert(s.drop_last().push(s.last()) =~= s); }
    }
    pub proof fn lemma_keep_none<A>(s: Seq<A>, p: spec_fn(A) -> bool)
        requires forall|i: int| 0 <= i < s.len() ==> !p(#[trigger] s[i]),
        ensures keep(s, p) == Seq::<A>::empty(),
        decreases s.len()
    {
        if s.len() > 0 { lemma_keep_none(s.drop_last(), p); }
    }
    /// filtering twice = filtering by the conjunction
    pub proof fn lemma_keep_keep<A>(s: Seq<A>, p: spec_fn(A) -> bool, q: spec_fn(A) -> bool)
        ensures keep(keep(s, p), q) == keep(s, |a: A| p(a) && q(a)),
        decreases s.len()
    {
        if s.len() > 0 {
            lemma_keep_keep(s.drop_last(), p, q);
            if p(s.last()) {
                let k = keep(s.drop_last(), p);
                assert(k.push(s.last()).drop_last() =~= k);
            }
        }
    }
    pub proof fn lemma_keep_members<A>(s: Seq<A>, p: spec_fn(A) -> bool)
        ensures forall|j: int| 0 <= j < keep(s, p).len() ==> p(#[trigger] keep(s, p)[j]) && exists|i: int| 0 <= i < s.len() && s[i] == keep(s, p)[j],
        decreases s.len()
    {
        if s.len() > 0 {
            lemma_keep_members(s.drop_last(), p);
            let k0 = keep(s.drop_last(), p);
            let k = keep(s, p);
            assert forall|j: int| 0 <= j < k.len() implies p(#[trigger] k[j]) && exists|i: int| 0 <= i < s.len() && s[i] == k[j] by {
                if j < k0.len() {
                    let i = choose|i: int| 0 <= i < s.drop_last().len() && s.drop_last()[i] == k0[j];
                    assert(s[i] == k[j]);
                } else {
                    assert(s[s.len() - 1] == k[j]);
                }
            }
        }
    }

    pub open spec fn ids_parsed(cfg: Option<Vec<String>>, built: Option<Vec<Uuid>>) -> bool {
        match (cfg, built) {
            (None, None) => true,
            (Some(v), Some(w)) => w@.len() == v@.len() && forall|i: int| 0 <= i < w@.len() ==> Some(#[trigger] w@[i]) == uuid_parse(v@[i]@),
            _ => false,
        }
    }
    proof fn lemma_listed(usernames: Option<Vec<String>>, username: Option<String>, ids: Option<Vec<String>>, built: Option<Vec<Uuid>>, c: Ctx)
        requires ids_parsed(ids, built),
        ensures listed(usernames, cfg_regex(username), built, c) == cfg_listed(usernames, username, ids, c),
    {
        if let (Some(v), Some(w)) = (ids, built) {
            if some_id(w@, c.id) {
                let i = choose|i: int| 0 <= i < w@.len() && #[trigger] w@[i] == c.id;
                assert(uuid_parse(v@[i]@) == Some(c.id));
            }
            if some_parsed_id(v@, c.id) {
                let i = choose|i: int| 0 <= i < v@.len() && uuid_parse((#[trigger] v@[i])@) == Some(c.id);
                assert(w@[i] == c.id);
            }
        }
    }
    pub proof fn lemma_meta_denotes(oa: OptionFilterAdapter<MetaFilterAdapter>, cf: config::OptionFilterAdapter)
        requires
            cf.filter is Meta, oa.hostname == cfg_regex(cf.hostname),
            oa.filter.rules@.len() == cf.filter->Meta_0.rules@.len(),
            forall|i: int| 0 <= i < oa.filter.rules@.len() ==> (#[trigger] oa.filter.rules@[i]) == cfg_rule(cf.filter->Meta_0.rules@[i]),
        ensures denotes(DynFilterAdapter::Meta(oa), cf),
    {
        let a = DynFilterAdapter::Meta(oa);
        let rs = cf.filter->Meta_0.rules@;
        assert forall|c: Ctx, ts: Seq<Target>| #[trigger] a.filtered(c, ts) == Some(keep(ts, |t: Target| cfg_qualifies(cf, c, t))) by {
            if applicable(oa.hostname, c) {
                assert forall|i: int| 0 <= i < ts.len() implies rules_ok(oa.filter.rules@, #[trigger] ts[i]) == cfg_qualifies(cf, c, ts[i]) by {
                    let t = ts[i];
                    if rules_ok(oa.filter.rules@, t) {
                        assert forall|k: int| 0 <= k < rs.len() implies rule_ok(cfg_rule(#[trigger] rs[k]), t) by { assert(rule_ok(oa.filter.rules@[k], t)); }
                    }
                    if cfg_rules_ok(rs, t) {
                        assert forall|k: int| 0 <= k < oa.filter.rules@.len() implies rule_ok(#[trigger] oa.filter.rules@[k], t) by { assert(rule_ok(cfg_rule(rs[k]), t)); }
                    }
                }
                lemma_keep_ext(ts, |t: Target| rules_ok(oa.filter.rules@, t), |t: Target| cfg_qualifies(cf, c, t));
            } else {
                lemma_keep_all(ts, |t: Target| cfg_qualifies(cf, c, t));
            }
        }
    }
    pub proof fn lemma_allow_denotes(oa: OptionFilterAdapter<PlayerAllowFilterAdapter>, cf: config::OptionFilterAdapter)
        requires
            cf.filter is PlayerAllow, oa.hostname == cfg_regex(cf.hostname),
            oa.filter.usernames == cf.filter->PlayerAllow_0.usernames, oa.filter.username == cfg_regex(cf.filter->PlayerAllow_0.username),
            ids_parsed(cf.filter->PlayerAllow_0.ids, oa.filter.ids),
        ensures denotes(DynFilterAdapter::PlayerAllow(oa), cf),
    {
        let a = DynFilterAdapter::PlayerAllow(oa);
        let p = cf.filter->PlayerAllow_0;
        assert forall|c: Ctx, ts: Seq<Target>| #[trigger] a.filtered(c, ts) == Some(keep(ts, |t: Target| cfg_qualifies(cf, c, t))) by {
            lemma_listed(p.usernames, p.username, p.ids, oa.filter.ids, c);
            if !applicable(oa.hostname, c) || cfg_listed(p.usernames, p.username, p.ids, c) {
                lemma_keep_all(ts, |t: Target| cfg_qualifies(cf, c, t));
            } else {
                lemma_keep_none(ts, |t: Target| cfg_qualifies(cf, c, t));
            }
        }
    }
    pub proof fn lemma_block_denotes(oa: OptionFilterAdapter<PlayerBlockFilterAdapter>, cf: config::OptionFilterAdapter)
        requires
            cf.filter is PlayerBlock, oa.hostname == cfg_regex(cf.hostname),
            oa.filter.usernames == cf.filter->PlayerBlock_0.usernames, oa.filter.username == cfg_regex(cf.filter->PlayerBlock_0.username),
            ids_parsed(cf.filter->PlayerBlock_0.ids, oa.filter.ids),
        ensures denotes(DynFilterAdapter::PlayerBlock(oa), cf),
    {
        let a = DynFilterAdapter::PlayerBlock(oa);
        let p = cf.filter->PlayerBlock_0;
        assert forall|c: Ctx, ts: Seq<Target>| #[trigger] a.filtered(c, ts) == Some(keep(ts, |t: Target| cfg_qualifies(cf, c, t))) by {
            lemma_listed(p.usernames, p.username, p.ids, oa.filter.ids, c);
            if !applicable(oa.hostname, c) || !cfg_listed(p.usernames, p.username, p.ids, c) {
                lemma_keep_all(ts, |t: Target| cfg_qualifies(cf, c, t));
            } else {
                lemma_keep_none(ts, |t: Target| cfg_qualifies(cf, c, t));
            }
        }
    }
    /// C18 (filters): the configured chain offers exactly the discovered targets that qualify under every configured filter, in
    /// discovery order — so a player is never offered a disqualified target, and is left without one only if none qualifies
    pub proof fn lemma_chain_denotes(fs: Seq<DynFilterAdapter>, cfs: Seq<config::OptionFilterAdapter>, c: Ctx, ts: Seq<Target>)
        requires fs.len() == cfs.len(), forall|i: int| 0 <= i < fs.len() ==> denotes(#[trigger] fs[i], cfs[i]),
        ensures chain_filtered(fs, c, ts) == Some(keep(ts, |t: Target| cfgs_qualify(cfs, c, t))),
        decreases fs.len()
    {
        let q = |t: Target| cfgs_qualify(cfs, c, t);
        if fs.len() == 0 {
            lemma_keep_all(ts, q);
        } else {
            let cfs0 = cfs.drop_last();
            let q0 = |t: Target| cfgs_qualify(cfs0, c, t);
            let ql = |t: Target| cfg_qualifies(cfs.last(), c, t);
            lemma_chain_denotes(fs.drop_last(), cfs0, c, ts);
            let s = keep(ts, q0);
            assert(denotes(fs[fs.len() - 1], cfs[fs.len() - 1]));
            assert(fs.last().filtered(c, s) == Some(keep(s, ql)));
            lemma_keep_keep(ts, q0, ql);
            assert forall|i: int| 0 <= i < ts.len() implies (q0(#[trigger] ts[i]) && ql(ts[i])) == q(ts[i]) by {
                let t = ts[i];
                if q0(t) && ql(t) {
                    assert forall|k: int| 0 <= k < cfs.len() implies cfg_qualifies(#[trigger] cfs[k], c, t) by {
                        if k < cfs0.len() { assert(cfg_qualifies(cfs0[k], c, t)); }
                    }
                }
                if q(t) {
                    assert forall|k: int| 0 <= k < cfs0.len() implies cfg_qualifies(#[trigger] cfs0[k], c, t) by { assert(cfg_qualifies(cfs[k], c, t)); }
                    assert(cfg_qualifies(cfs[cfs.len() - 1], c, t));
                }
            }
            lemma_keep_ext(ts, |t: Target| q0(t) && ql(t), q);
        }
    }

    // ---- C18, end to end: what the configured chain and the configured strategy together guarantee -----------------------
    pub proof fn lemma_keep_complete<A>(s: Seq<A>, p: spec_fn(A) -> bool)
        ensures forall|i: int| 0 <= i < s.len() && p(#[trigger] s[i]) ==> exists|j: int| 0 <= j < keep(s, p).len() && keep(s, p)[j] == s[i],
        decreases s.len()
    {
        if s.len() > 0 {
            lemma_keep_complete(s.drop_last(), p);
            let k0 = keep(s.drop_last(), p);
            let k = keep(s, p);
            assert forall|i: int| 0 <= i < s.len() && p(#[trigger] s[i]) implies exists|j: int| 0 <= j < k.len() && k[j] == s[i] by {
                if i < s.len() - 1 {
                    assert(s.drop_last()[i] == s[i]);
                    let j = choose|j: int| 0 <= j < k0.len() && k0[j] == s.drop_last()[i];
                    assert(k[j] == s[i]);
                } else {
                    assert(k[k.len() - 1] == s[i]);
                }
            }
        }
    }
    /// the first kept element is the first element that satisfies `p`
    pub proof fn lemma_keep_first<A>(s: Seq<A>, p: spec_fn(A) -> bool)
        ensures keep(s, p).len() > 0 ==> exists|i: int| 0 <= i < s.len() && #[trigger] s[i] == keep(s, p)[0] && p(s[i]) && forall|k: int| 0 <= k < i ==> !p(#[trigger] s[k]),
        decreases s.len()
    {
        if s.len() > 0 {
            let s0 = s.drop_last();
            lemma_keep_first(s0, p);
            let k0 = keep(s0, p);
            if k0.len() > 0 {
                let i = choose|i: int| 0 <= i < s0.len() && #[trigger] s0[i] == k0[0] && p(s0[i]) && forall|k: int| 0 <= k < i ==> !p(#[trigger] s0[k]);
                assert(s[i] == keep(s, p)[0]);
                assert forall|k: int| 0 <= k < i implies !p(#[trigger] s[k]) by { assert(s0[k] == s[k]); }
            } else if p(s.last()) {
                lemma_keep_complete(s0, p);
                let i = s.len() - 1;
                assert(s[i] == keep(s, p)[0]);
                assert forall|k: int| 0 <= k < i implies !p(#[trigger] s[k]) by {
                    if p(s[k]) { assert(s0[k] == s[k]); assert(p(s0[k])); }
                }
            }
        }
    }
    /// C18, default strategy: the player is sent to the first discovered target that qualifies under every configured filter, and is
    /// left without a target only if no discovered target qualifies
    pub proof fn lemma_c18_default_strategy(cfs: Seq<config::OptionFilterAdapter>, c: Ctx, discovered: Seq<Target>, r: Result<Option<Target>>)
        requires any_selected_ok(keep(discovered, |t: Target| cfgs_qualify(cfs, c, t)), r),
        ensures
            r matches Ok(Some(t)) ==> exists|i: int| 0 <= i < discovered.len() && #[trigger] discovered[i] == t && cfgs_qualify(cfs, c, t) && forall|k: int| 0 <= k < i ==> !cfgs_qualify(cfs, c, #[trigger] discovered[k]), // @cl:C18.routing.default_strategy_picks_the_first_qualifying_target
            r matches Ok(None) ==> forall|i: int| 0 <= i < discovered.len() ==> !cfgs_qualify(cfs, c, #[trigger] discovered[i]), // @cl:C18.routing.default_strategy_refuses_only_if_nothing_qualifies
            r is Ok, // @cl:C18.routing.default_strategy_never_fails
    {
        let q = |t: Target| cfgs_qualify(cfs, c, t);
        lemma_keep_first(discovered, q);
        lemma_keep_complete(discovered, q);
    }
    /// C18, player-fill strategy: the chosen target is a discovered target that qualifies, is below the configured capacity, and no
    /// other qualifying target below capacity is fuller; no target only if every qualifying target is at or above capacity
    pub proof fn lemma_c18_player_fill_strategy(a: PlayerFillStrategyAdapter, cfs: Seq<config::OptionFilterAdapter>, c: Ctx, discovered: Seq<Target>, r: Result<Option<Target>>)
        requires fill_selected_ok(a, keep(discovered, |t: Target| cfgs_qualify(cfs, c, t)), r),
        ensures
            r matches Ok(Some(t)) ==> (exists|i: int| 0 <= i < discovered.len() && #[trigger] discovered[i] == t) && cfgs_qualify(cfs, c, t) && players(t, a.field@) < a.max_players, // @cl:C18.routing.fill_picks_a_qualifying_target_below_capacity
            r matches Ok(Some(t)) ==> forall|j: int| 0 <= j < discovered.len() && cfgs_qualify(cfs, c, #[trigger] discovered[j]) && players(discovered[j], a.field@) < a.max_players ==> players(discovered[j], a.field@) <= players(t, a.field@), // @cl:C18.routing.fill_no_eligible_target_is_fuller
            r matches Ok(None) ==> forall|j: int| 0 <= j < discovered.len() && cfgs_qualify(cfs, c, #[trigger] discovered[j]) ==> players(discovered[j], a.field@) >= a.max_players, // @cl:C18.routing.fill_refuses_only_if_nothing_eligible
            r is Ok, // @cl:C18.routing.fill_never_fails
    {
        let q = |t: Target| cfgs_qualify(cfs, c, t);
        let s = keep(discovered, q);
        lemma_keep_members(discovered, q);
        lemma_keep_complete(discovered, q);
        if let Ok(Some(t)) = r {
            let i = choose|i: int| 0 <= i < s.len() && #[trigger] s[i] == t;
            assert(q(s[i]));
            assert forall|j: int| 0 <= j < discovered.len() && cfgs_qualify(cfs, c, #[trigger] discovered[j]) && players(discovered[j], a.field@) < a.max_players
                implies players(discovered[j], a.field@) <= players(t, a.field@) by {
                assert(q(discovered[j]));
                let k = choose|k: int| 0 <= k < s.len() && s[k] == discovered[j];
                assert(players(s[k], a.field@) < a.max_players);
            }
        }
        if let Ok(None) = r {
            assert forall|j: int| 0 <= j < discovered.len() && cfgs_qualify(cfs, c, #[trigger] discovered[j]) implies players(discovered[j], a.field@) >= a.max_players by {
                assert(q(discovered[j]));
                let k = choose|k: int| 0 <= k < s.len() && s[k] == discovered[j];
                assert(players(s[k], a.field@) >= a.max_players);
            }
        }
    }
