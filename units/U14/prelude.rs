// U14 prelude: what the built-in filter / strategy adapters (passage-adapters/src/filter, passage-adapters/src/strategy,
// src/adapter/filter.rs, src/adapter/strategy.rs) use from outside /repo, as contracts. Assumptions, not proofs.
use vstd::prelude::*;
use vstd::std_specs::cmp::*;

verus! {

//@include netmodel.rs
//@include itermodel.rs
//@include strmodel.rs

/// uuid::Uuid: 128 bits, compared by value
#[derive(Clone, Copy, PartialEq, Eq, Structural)]
pub struct Uuid { pub bits: u128 }
pub type Protocol = i32;

/// `HashMap<String, String>` (target metadata) as the finite map of the strings' contents
pub struct MetaMap { pub m: Ghost<Map<Seq<char>, Seq<char>>> }
impl MetaMap {
    /// `HashMap::get(&key)`
    #[verifier::external_body]
    pub fn get(&self, k: &String) -> (r: Option<&String>)
        ensures match r { Some(v) => self.m@.contains_key(k@) && self.m@[k@] == v@, None => !self.m@.contains_key(k@) },
    { unimplemented!() }
}

/// regex::Regex: a compiled pattern is a predicate on texts; which predicate is not modelled
pub struct Regex { pub id: Ghost<int> }
pub uninterp spec fn regex_match(re: Regex, s: Seq<char>) -> bool;
pub uninterp spec fn regex_compile(pattern: Seq<char>) -> Option<Regex>;
pub struct RegexError {}
impl Regex {
    #[verifier::external_body]
    pub fn is_match(&self, s: &str) -> (r: bool) ensures r == regex_match(*self, s@) { unimplemented!() }
    #[verifier::external_body]
    pub fn new(p: &str) -> (r: Result<Regex, RegexError>)
        ensures match r { Ok(re) => regex_compile(p@) == Some(re), Err(_) => regex_compile(p@) is None },
    { unimplemented!() }
}
/// ASCII case-insensitive comparison: some relation on texts that is *not* equality of contents (uninterpreted)
pub uninterp spec fn ascii_ci_eq(a: Seq<char>, b: Seq<char>) -> bool;
pub assume_specification [str::eq_ignore_ascii_case](a: &str, b: &str) -> (r: bool) ensures r == ascii_ci_eq(a@, b@);
/// `str::parse::<u32>()` as a partial function of the text (R36)
pub uninterp spec fn parse_u32(s: Seq<char>) -> Option<u32>;
pub struct ParseIntError {}
pub trait VxParse { fn vx_parse_u32(&self) -> Result<u32, ParseIntError>; }
impl VxParse for String {
    #[verifier::external_body]
    fn vx_parse_u32(&self) -> (r: Result<u32, ParseIntError>)
        ensures match r { Ok(n) => parse_u32(self@) == Some(n), Err(_) => parse_u32(self@) is None },
    { unimplemented!() }
}

pub struct Cause {}
#[verifier::external_body] pub fn vx_cause() -> Cause { unimplemented!() }
pub enum Error {
    FailedInitialization { adapter_type: &'static str, cause: Cause },
    FailedFetch { adapter_type: &'static str, cause: Cause },
    FailedParse { adapter_type: &'static str, cause: Cause },
    AdapterUnavailable { adapter_type: &'static str, reason: &'static str },
}
/// `passage_adapters::Result<T>`; the default parameter keeps `Result<T, E>` usable
pub type Result<T, E = Error> = std::result::Result<T, E>;
pub assume_specification<T>[<T as From<T>>::from](t: T) -> (r: T) ensures r == t;
pub assume_specification<T, E> [Option::<std::result::Result<T, E>>::transpose] (o: Option<std::result::Result<T, E>>) -> (r: std::result::Result<Option<T>, E>)
    ensures r == (match o { Some(Ok(x)) => Ok::<Option<T>, E>(Some(x)), Some(Err(e)) => Err::<Option<T>, E>(e), None => Ok::<Option<T>, E>(None) });
/// paths the sources use for these items
pub mod passage_adapters { pub use super::*; }
pub mod error { pub use super::Error; }
pub mod regex { pub use super::RegexError as Error; }
pub mod uuid { pub use super::UuidError as Error; }
/// `Uuid::parse_str`: a partial function of the text
pub uninterp spec fn uuid_parse(s: Seq<char>) -> Option<Uuid>;
pub struct UuidError {}
impl Uuid {
    #[verifier::external_body]
    pub fn parse_str(s: &str) -> (r: std::result::Result<Uuid, UuidError>)
        ensures match r { Ok(u) => uuid_parse(s@) == Some(u), Err(_) => uuid_parse(s@) is None },
    { unimplemented!() }
}
/// `Box<dyn std::error::Error>`: only that it can be made from the error types that reach it
pub struct BoxError {}
impl From<Error> for BoxError { #[verifier::external_body] fn from(e: Error) -> BoxError { unimplemented!() } }
impl From<RegexError> for BoxError { #[verifier::external_body] fn from(e: RegexError) -> BoxError { unimplemented!() } }
impl From<UuidError> for BoxError { #[verifier::external_body] fn from(e: UuidError) -> BoxError { unimplemented!() } }
impl From<&str> for BoxError { #[verifier::external_body] fn from(e: &str) -> BoxError { unimplemented!() } }

/// what a filter / strategy adapter is told about the connection
pub struct Ctx { pub client: SocketAddr, pub host: Seq<char>, pub port: u16, pub protocol: i32, pub name: Seq<char>, pub id: Uuid }
pub open spec fn ctx_of(client_addr: &SocketAddr, server_addr: (&str, u16), protocol: Protocol, user: (&str, &Uuid)) -> Ctx {
    Ctx { client: *client_addr, host: server_addr.0@, port: server_addr.1, protocol, name: user.0@, id: *user.1 }
}

/// passage_adapters::filter::FilterAdapter with its specification: an adapter *is* a function `filtered` of the connection
/// context and the candidate list (`None` = error); `filter` must compute it. Every impl extracted from /repo is checked
/// against this postcondition with the `filtered` that units/U14/spec.rs writes down from the property statement.
pub trait FilterAdapter {
    spec fn filtered(&self, c: Ctx, targets: Seq<Target>) -> Option<Seq<Target>>;
    fn filter(&self, client_addr: &SocketAddr, server_addr: (&str, u16), protocol: Protocol, user: (&str, &Uuid), targets: Vec<Target>) -> (r: Result<Vec<Target>>)
        ensures
            match self.filtered(ctx_of(client_addr, server_addr, protocol, user), targets@) { Some(s) => r matches Ok(v) && v@ == s, None => r is Err }, // @cl:C18.filter.result_is_what_the_mechanism_denotes
    ;
}
/// passage_adapters::strategy::StrategyAdapter: `selected_ok` relates the candidate list to the verdict
pub trait StrategyAdapter {
    spec fn selected_ok(&self, c: Ctx, targets: Seq<Target>, r: Result<Option<Target>>) -> bool;
    fn select(&self, client_addr: &SocketAddr, server_addr: (&str, u16), protocol: Protocol, user: (&str, &Uuid), targets: Vec<Target>) -> (r: Result<Option<Target>>)
        ensures
            self.selected_ok(ctx_of(client_addr, server_addr, protocol, user), targets@, r), // @cl:C18.select.verdict_is_what_the_mechanism_denotes
    ;
}

/// passage_adapters_grpc::GrpcStrategyAdapter (not a built-in mechanism of C18; its own contract is proved in U10): some strategy
pub struct GrpcStrategyAdapter { pub id: Ghost<int> }
pub uninterp spec fn grpc_selected_ok(a: GrpcStrategyAdapter, c: Ctx, targets: Seq<Target>, r: Result<Option<Target>>) -> bool;
impl StrategyAdapter for GrpcStrategyAdapter {
    open spec fn selected_ok(&self, c: Ctx, targets: Seq<Target>, r: Result<Option<Target>>) -> bool { grpc_selected_ok(*self, c, targets, r) }
    #[verifier::external_body]
    fn select(&self, client_addr: &SocketAddr, server_addr: (&str, u16), protocol: Protocol, user: (&str, &Uuid), targets: Vec<Target>) -> (r: Result<Option<Target>>) { unimplemented!() }
}
impl GrpcStrategyAdapter {
    #[verifier::external_body]
    pub fn new(address: String) -> (r: Result<GrpcStrategyAdapter>) { unimplemented!() }
}

} // verus!
