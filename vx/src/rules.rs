//! Rewrite rules R1..R19 (DESIGN.md §3). Each rule is applied only when named
//! in the job, and counts how often it fired.

use crate::{norm, parse_type, ItemReq};
use quote::ToTokens;
use std::collections::BTreeMap;
use syn::visit_mut::{self, VisitMut};

#[path = "rules_ctrl.rs"]
mod ctrl;
#[path = "rules_macro.rs"]
mod mac;

pub struct FnUnderEdit {
    pub vis: syn::Visibility,
    pub sig: syn::Signature,
    pub block: syn::Block,
    pub fired: BTreeMap<String, usize>,
    pub loops: usize,
    pub auto_loop_ensures: BTreeMap<usize, Vec<String>>,
    pub anchors_placed: Vec<String>,
    pub names: Vec<(String, String, String)>,
    pub rename: BTreeMap<String, String>,
}

impl FnUnderEdit {
    pub fn fire(&mut self, rule: &str, n: usize) {
        if n > 0 {
            *self.fired.entry(rule.to_string()).or_insert(0) += n;
        }
    }
}

const KNOWN_RULES: &[&str] = &[
    "deasync",
    "attrs",
    "log",
    "match_packet",
    "const_pat",
    "label_block",
    "break_value",
    "select",
    "let_chain",
    "closure_wild",
    "pin",
    "generics",
    "statics",
    "format",
    "spawn_inline",
    "cipher_chunks",
    "mut_self",
    "vec_alloc",
    "let_else",
    "str_pattern",
    "take_read",
    "as_deref",
    "const_static",
    "try_desugar",
    "parse_lit",
    "map_field",
    "cut_chain",
    "error_cause",
    "havoc_iter",
    "opt_match",
    "std_net",
    "opt_map",
    "spawn_drop",
    "iter_loop",
    "alloc_reserve",
    "into_from",
    "iter_search",
    "for_iter",
    "param_pat",
    "parse_turbofish",
    "opt_and_then",
    "res_map_err",
    "pub_fields",
    "into_method",
    "parse_typed_let",
    "join_fn",
    "select_poll",
];

pub fn apply(repo: &str, req: &ItemReq, f: &mut FnUnderEdit) -> Result<(), String> {
    for r in &req.rules {
        if !KNOWN_RULES.contains(&r.as_str()) {
            return Err(format!("unknown rule `{r}`"));
        }
    }
    let has = |r: &str| req.rules.iter().any(|x| x == r);

    // R2 attrs (function level is always dropped: contracts replace them)
    if has("attrs") {
        let mut v = StripAttrs { n: 0, off: req.off_features.clone() };
        v.visit_block_mut(&mut f.block);
        for a in f.sig.inputs.iter_mut() {
            if let syn::FnArg::Typed(t) = a {
                t.attrs.clear();
            }
        }
        let n = v.n;
        f.fire("attrs", n + 1);
    }

    // R4 match_packet! expansion (before everything that looks at control flow)
    if has("match_packet") {
        let mf = req
            .macro_file
            .as_ref()
            .ok_or("rule match_packet needs macro_file")?;
        let n = mac::expand_match_packet(repo, mf, &mut f.block)?;
        f.fire("match_packet", n);
    }

    // R8 select!
    if has("select") {
        let n = mac::rewrite_select(&mut f.block, false, &req.select_cancel)?;
        f.fire("select", n);
    }
    // R8b select! with its polling order kept (readiness of every arm asked from the model)
    if has("select_poll") {
        let n = mac::rewrite_select(&mut f.block, true, &[])?;
        f.fire("select_poll", n);
    }

    // R14 spawn inlining
    if has("spawn_inline") {
        let n = ctrl::spawn_inline(&mut f.block)?;
        f.fire("spawn_inline", n);
    }

    // R1 de-async
    if has("deasync") {
        let mut v = DeAsync { n: 0 };
        v.visit_block_mut(&mut f.block);
        if f.sig.asyncness.is_some() {
            f.sig.asyncness = None;
            v.n += 1;
        }
        let n = v.n;
        f.fire("deasync", n);
    }

    // R3 logging / metrics / tracing
    if has("log") {
        let mut v = StripLog { n: 0, err: None };
        v.visit_block_mut(&mut f.block);
        if let Some(e) = v.err {
            return Err(e);
        }
        let n = v.n;
        f.fire("log", n);
    }

    // R13 format!
    if has("format") {
        let n = mac::rewrite_format(&mut f.block)?;
        f.fire("format", n);
    }

    // R10 Pin erasure
    if has("pin") {
        let n = ctrl::pin_erase(&mut f.sig, &mut f.block)?;
        f.fire("pin", n);
    }

    // R15 cipher chunk loops
    if has("cipher_chunks") {
        let n = ctrl::cipher_chunks(&mut f.block)?;
        f.fire("cipher_chunks", n);
    }

    // R5 const patterns
    if has("const_pat") {
        let mut v = ctrl::ConstPat { n: 0 };
        v.visit_block_mut(&mut f.block);
        let n = v.n;
        f.fire("const_pat", n);
    }

    // R9 let chains, closure wildcard
    if has("let_chain") {
        let mut v = ctrl::LetChain { n: 0, err: None };
        v.visit_block_mut(&mut f.block);
        if let Some(e) = v.err {
            return Err(e);
        }
        let n = v.n;
        f.fire("let_chain", n);
    }
    // R30 `std::net::X` -> `X` (the model types are named like the std types)
    if has("std_net") {
        let mut v = StdNet { n: 0 };
        v.visit_block_mut(&mut f.block);
        v.visit_signature_mut(&mut f.sig);
        let n = v.n;
        f.fire("std_net", n);
    }
    // R39 non-identifier parameter patterns -> `__vx_pK: T` + `let PAT = __vx_pK;` as the first statement
    if has("param_pat") {
        let n = param_pat(&mut f.sig, &mut f.block);
        f.fire("param_pat", n);
    }
    // R35 `X.iter()/into_iter() [.map(c) | .filter(c)]* .any(c) / .all(c) / .max_by_key(c)` -> explicit (short-circuit) loop
    if has("iter_search") {
        let mut v = IterSearch { n: 0, types: req.search_types.clone() };
        v.visit_block_mut(&mut f.block);
        let n = v.n;
        f.fire("iter_search", n);
    }
    // R38 `for P in E { B }` (E not a range) -> loop over the model iterator of `IntoIterator::into_iter(E)`
    if has("for_iter") {
        let mut v = ForIter { n: 0 };
        v.visit_block_mut(&mut f.block);
        let n = v.n;
        f.fire("for_iter", n);
    }
    // R36b `let x: T = E.parse()[.map_err(c)][?];` -> the turbofish `::<T>` is written out (what inference does), then R36 applies
    if has("parse_typed_let") {
        let mut v = ParseTypedLet { n: 0 };
        v.visit_block_mut(&mut f.block);
        let n = v.n;
        f.fire("parse_typed_let", n);
    }
    // R41 `X.join(SEP)` -> `vx_join(&X, SEP)`
    if has("join_fn") {
        let mut v = JoinFn { n: 0 };
        v.visit_block_mut(&mut f.block);
        let n = v.n;
        f.fire("join_fn", n);
    }
    // R36 `E.parse::<T>()` -> `vx_parse_T(E)`
    if has("parse_turbofish") {
        let mut v = ParseTurbofish { n: 0 };
        v.visit_block_mut(&mut f.block);
        let n = v.n;
        f.fire("parse_turbofish", n);
    }
    // R32 `X.iter()/into_iter() [.map(c) | .filter(c)]* .collect()` -> explicit loop over model iterator / collector traits
    if has("iter_loop") {
        let mut v = IterLoop { n: 0, types: req.collect_types.clone() };
        v.visit_block_mut(&mut f.block);
        let n = v.n;
        f.fire("iter_loop", n);
    }
    // R31 detached background tasks are dropped
    if has("spawn_drop") {
        let mut v = SpawnDrop { n: 0 };
        v.visit_block_mut(&mut f.block);
        let n = v.n;
        f.fire("spawn_drop", n);
    }
    // R29 Option combinators with a function argument -> match
    if has("opt_match") || has("opt_map") || has("opt_and_then") || has("res_map_err") {
        let mut v = OptMatch { n: 0, map: has("opt_map"), others: has("opt_match"), and_then: has("opt_and_then"), map_err: has("res_map_err") };
        v.visit_block_mut(&mut f.block);
        let n = v.n;
        f.fire("opt_match", n);
    }
    if has("closure_wild") {
        let mut v = ClosureWild { n: 0 };
        v.visit_block_mut(&mut f.block);
        let n = v.n;
        f.fire("closure_wild", n);
    }

    // R6 labelled blocks
    if has("label_block") {
        let n = ctrl::label_blocks(&mut f.block)?;
        f.fire("label_block", n);
    }

    // R12 statics
    if has("statics") {
        let mut v = Statics {
            map: &req.statics,
            n: 0,
        };
        v.visit_block_mut(&mut f.block);
        let n = v.n;
        f.fire("statics", n);
    }

    // R16 mut self
    if has("mut_self") {
        let n = ctrl::mut_self(&mut f.sig, &mut f.block)?;
        f.fire("mut_self", n);
    }

    if has("alloc_reserve") {
        let mut v = AllocReserve { n: 0 };
        v.visit_block_mut(&mut f.block);
        let n = v.n;
        f.fire("alloc_reserve", n);
    }
    // R19 vec![0; n] -> vx_alloc_zeroed(n)
    if has("vec_alloc") {
        let mut v = VecAlloc { n: 0 };
        v.visit_block_mut(&mut f.block);
        let n = v.n;
        f.fire("vec_alloc", n);
    }

    // R20 Pattern-generic str methods with a char literal
    if has("str_pattern") {
        let mut v = StrPattern { n: 0 };
        v.visit_block_mut(&mut f.block);
        let n = v.n;
        f.fire("str_pattern", n);
    }

    // R21 X.take(n).read_to_end(&mut b) -> X.vx_take_read_to_end(n, &mut b)
    if has("take_read") {
        let mut v = TakeRead { n: 0 };
        v.visit_block_mut(&mut f.block);
        let n = v.n;
        f.fire("take_read", n);
    }

    // R23 Option<String>::as_deref() -> vx_as_deref(&x)
    if has("as_deref") {
        let mut v = AsDeref { n: 0 };
        v.visit_block_mut(&mut f.block);
        let n = v.n;
        f.fire("as_deref", n);
    }

    // R27 `cause: <boxed error>` in an error struct literal -> `cause: vx_cause()`
    if has("error_cause") {
        let mut v = ErrorCause { n: 0 };
        v.visit_block_mut(&mut f.block);
        let n = v.n;
        f.fire("error_cause", n);
    }
    // R34 `Into::into(x)` / `TryInto::try_into(x)` as paths -> `From::from(x)` / `TryFrom::try_from(x)` (std's blanket impls)
    if has("into_from") || has("into_method") {
        let mut v = IntoFrom { n: 0, paths: has("into_from"), methods: has("into_method") };
        v.visit_block_mut(&mut f.block);
        let n = v.n;
        f.fire("into_from", n);
    }
    // R17 iterator-adaptor chains ending in collect() -> vx_havoc()
    if has("havoc_iter") {
        let mut v = HavocIter { n: 0 };
        v.visit_block_mut(&mut f.block);
        let n = v.n;
        f.fire("havoc_iter", n);
    }

    // R17b cut a request-builder chain after `.M(..)`: the rest (sending, status check, JSON decoding) becomes one stub
    if has("cut_chain") {
        let m = req.cut_method.clone().ok_or("rule cut_chain needs cut_method")?;
        let mut v = CutChain { method: m, n: 0 };
        v.visit_block_mut(&mut f.block);
        let n = v.n;
        f.fire("cut_chain", n);
    }

    // R24 `e?` -> match e { Ok(v) => v, Err(e) => return Err(From::from(e)) }
    if has("try_desugar") {
        let mut v = TryDesugar { n: 0 };
        v.visit_block_mut(&mut f.block);
        let n = v.n;
        f.fire("try_desugar", n);
    }

    // R25 "literal".parse() -> vx_parse_lit("literal")
    if has("parse_lit") {
        let mut v = ParseLit { n: 0 };
        v.visit_block_mut(&mut f.block);
        let n = v.n;
        f.fire("parse_lit", n);
    }

    // R26 opt.map(|a| a.f) -> match opt { Some(a) => Some(a.f), None => None }
    if has("map_field") {
        let mut v = MapField { n: 0 };
        v.visit_block_mut(&mut f.block);
        let n = v.n;
        f.fire("map_field", n);
    }

    // R11 generics
    if has("generics") {
        let n = generics(req, &mut f.sig, &mut f.block)?;
        f.fire("generics", n);
    }

    // R7 break-with-value (needs loop numbering, so it runs with numbering)
    // loop numbering + markers
    let mut num = ctrl::LoopNumber {
        next: 0,
        break_value: has("break_value"),
        auto: BTreeMap::new(),
        n_bv: 0,
        err: None,
    };
    num.visit_block_mut(&mut f.block);
    if let Some(e) = num.err {
        return Err(e);
    }
    f.loops = num.next;
    f.auto_loop_ensures = num.auto;
    let n = num.n_bv;
    f.fire("break_value", n);

    // names of parameters and bindings; follow renames when the function kept its shape
    f.names = collect_names(&f.sig, &f.block);
    if !req.expect_names.is_empty() {
        f.rename = rename_map(&req.expect_names, &f.names);
    }

    // anchors (`after-let:NAME` / `before-let:NAME` are written against the recorded names)
    for a in &req.anchors {
        let actual = translate_anchor(a, &f.rename);
        ctrl::place_anchor_as(&mut f.block, &actual, a)?;
        f.anchors_placed.push(a.clone());
    }
    Ok(())
}

// ---------------------------------------------------------------- names of bindings (rename following)
/// a coarse fingerprint of what a binding is initialised with (variant, literal text, callee / method name): two bindings that were
/// swapped *and* renamed are told apart by it unless they are initialised alike
fn shape_of(e: &syn::Expr) -> String {
    match e {
        syn::Expr::Lit(l) => format!("lit:{}", norm(&l.lit)),
        syn::Expr::Array(a) => format!("array:{}", a.elems.len()),
        syn::Expr::Repeat(_) => "repeat".into(),
        syn::Expr::Call(c) => format!("call:{}", norm(&c.func)),
        syn::Expr::MethodCall(m) => format!("method:{}", m.method),
        syn::Expr::Try(t) => format!("try:{}", shape_of(&t.expr)),
        syn::Expr::Await(t) => shape_of(&t.base),
        syn::Expr::Paren(t) => shape_of(&t.expr),
        syn::Expr::Reference(r) => format!("ref:{}", shape_of(&r.expr)),
        syn::Expr::Match(m) => format!("match:{}", shape_of(&m.expr)),
        syn::Expr::If(_) => "if".into(),
        syn::Expr::Block(_) => "block".into(),
        syn::Expr::Path(p) => format!("path:{}", p.path.segments.len()),
        syn::Expr::Field(f) => format!("field:{}", norm(&f.member)),
        syn::Expr::Struct(st) => format!("struct:{}", norm(&st.path)),
        syn::Expr::Macro(m) => format!("macro:{}", norm(&m.mac.path)),
        syn::Expr::Binary(_) => "binary".into(),
        syn::Expr::Unary(_) => "unary".into(),
        syn::Expr::Cast(_) => "cast".into(),
        syn::Expr::Tuple(t) => format!("tuple:{}", t.elems.len()),
        syn::Expr::Closure(_) => "closure".into(),
        syn::Expr::Index(_) => "index".into(),
        syn::Expr::Range(_) => "range".into(),
        syn::Expr::Loop(_) | syn::Expr::While(_) | syn::Expr::ForLoop(_) => "loop".into(),
        _ => "other".into(),
    }
}
struct NameCollector {
    out: Vec<(String, String, String)>,
}
fn pat_idents(p: &syn::Pat, kind: &str, shape: &str, out: &mut Vec<(String, String, String)>) {
    struct V<'a> {
        kind: &'a str,
        shape: &'a str,
        out: &'a mut Vec<(String, String, String)>,
    }
    impl<'a, 'ast> syn::visit::Visit<'ast> for V<'a> {
        fn visit_pat_ident(&mut self, p: &'ast syn::PatIdent) {
            let n = p.ident.to_string();
            if !n.starts_with("__vx_") {
                let k = if p.mutability.is_some() { format!("{}mut", self.kind) } else { self.kind.to_string() };
                self.out.push((k, n, self.shape.to_string()));
            }
            if let Some((_, sub)) = &p.subpat {
                self.visit_pat(sub);
            }
        }
    }
    let mut v = V { kind, shape, out };
    syn::visit::Visit::visit_pat(&mut v, p);
}
impl<'ast> syn::visit::Visit<'ast> for NameCollector {
    fn visit_local(&mut self, l: &'ast syn::Local) {
        let shape = match &l.init { Some(i) => shape_of(&i.expr), None => "none".into() };
        pat_idents(&l.pat, "let", &shape, &mut self.out);
        syn::visit::visit_local(self, l);
    }
    fn visit_expr_for_loop(&mut self, f: &'ast syn::ExprForLoop) {
        pat_idents(&f.pat, "for", &shape_of(&f.expr), &mut self.out);
        syn::visit::visit_expr_for_loop(self, f);
    }
    fn visit_expr_let(&mut self, l: &'ast syn::ExprLet) {
        pat_idents(&l.pat, "iflet", &shape_of(&l.expr), &mut self.out);
        syn::visit::visit_expr_let(self, l);
    }
    fn visit_arm(&mut self, a: &'ast syn::Arm) {
        pat_idents(&a.pat, "arm", "", &mut self.out);
        syn::visit::visit_arm(self, a);
    }
}
fn collect_names(sig: &syn::Signature, block: &syn::Block) -> Vec<(String, String, String)> {
    let mut out = vec![];
    for a in sig.inputs.iter() {
        if let syn::FnArg::Typed(t) = a {
            pat_idents(&t.pat, "param", &norm(&t.ty), &mut out);
        }
    }
    let mut c = NameCollector { out };
    syn::visit::Visit::visit_block(&mut c, block);
    c.out
}
/// expected -> actual for identifiers that differ. Only if both lists have the same kinds and initialiser shapes in the same order,
/// the mapping is a consistent injection, every new name is really new (not one of the recorded names) and every replaced name is
/// really gone; otherwise empty (the text is used as written, and a lost name is a compile error: exit 2)
fn rename_map(expect: &[(String, String, String)], actual: &[(String, String, String)]) -> BTreeMap<String, String> {
    if expect.len() != actual.len() {
        return BTreeMap::new();
    }
    let mut full: BTreeMap<String, String> = BTreeMap::new();
    for ((ek, en, es), (ak, an, ash)) in expect.iter().zip(actual.iter()) {
        if ek != ak || es != ash {
            return BTreeMap::new();
        }
        match full.get(en) {
            Some(prev) if prev != an => return BTreeMap::new(),
            _ => {
                full.insert(en.clone(), an.clone());
            }
        }
    }
    let mut seen: BTreeMap<String, String> = BTreeMap::new();
    for (e, a) in full.iter() {
        if let Some(prev) = seen.get(a) {
            if prev != e {
                return BTreeMap::new();
            }
        }
        seen.insert(a.clone(), e.clone());
    }
    let expected_set: std::collections::BTreeSet<&String> = expect.iter().map(|x| &x.1).collect();
    let actual_set: std::collections::BTreeSet<&String> = actual.iter().map(|x| &x.1).collect();
    let mut map: BTreeMap<String, String> = BTreeMap::new();
    for (e, a) in full {
        if e != a {
            if expected_set.contains(&a) || actual_set.contains(&e) {
                return BTreeMap::new();
            }
            map.insert(e, a);
        }
    }
    map
}
fn translate_anchor(a: &str, map: &BTreeMap<String, String>) -> String {
    for pfx in ["after-let:", "before-let:"] {
        if let Some(rest) = a.strip_prefix(pfx) {
            let (name, count) = match rest.split_once('#') {
                Some((n, c)) => (n, Some(c)),
                None => (rest, None),
            };
            if let Some(n2) = map.get(name) {
                return match count {
                    Some(c) => format!("{pfx}{n2}#{c}"),
                    None => format!("{pfx}{n2}"),
                };
            }
        }
    }
    a.to_string()
}

pub fn apply_item(
    req: &ItemReq,
    item: &mut syn::Item,
    fired: &mut BTreeMap<String, usize>,
) -> Result<(), String> {
    let has = |r: &str| req.rules.iter().any(|x| x == r);
    // R40 struct fields become `pub` (visibility only: contracts of other modules' functions name them)
    if has("pub_fields") {
        if let syn::Item::Struct(s) = item {
            let mut n = 0;
            for f in s.fields.iter_mut() {
                if !matches!(f.vis, syn::Visibility::Public(_)) {
                    f.vis = syn::parse_quote!(pub);
                    n += 1;
                }
            }
            if n > 0 {
                *fired.entry("pub_fields".into()).or_insert(0) += n;
            }
        }
    }
    if has("attrs") {
        let mut n = 0;
        match item {
            syn::Item::Struct(s) => {
                n += s.attrs.len();
                s.attrs.clear();
                for f in s.fields.iter_mut() {
                    n += f.attrs.len();
                    f.attrs.clear();
                }
            }
            syn::Item::Enum(e) => {
                n += e.attrs.len();
                e.attrs.clear();
                for v in e.variants.iter_mut() {
                    n += v.attrs.len();
                    v.attrs.clear();
                    for f in v.fields.iter_mut() {
                        n += f.attrs.len();
                        f.attrs.clear();
                    }
                }
            }
            syn::Item::Const(c) => {
                n += c.attrs.len();
                c.attrs.clear();
            }
            syn::Item::Static(c) => {
                n += c.attrs.len();
                c.attrs.clear();
            }
            syn::Item::Type(c) => {
                n += c.attrs.len();
                c.attrs.clear();
            }
            syn::Item::Impl(i) => {
                n += i.attrs.len();
                i.attrs.clear();
                for ii in i.items.iter_mut() {
                    match ii {
                        syn::ImplItem::Fn(m) => {
                            n += m.attrs.len();
                            m.attrs.clear();
                            let mut v = StripAttrs { n: 0, off: req.off_features.clone() };
                            v.visit_block_mut(&mut m.block);
                            n += v.n;
                        }
                        syn::ImplItem::Const(c) => {
                            n += c.attrs.len();
                            c.attrs.clear();
                        }
                        syn::ImplItem::Type(c) => {
                            n += c.attrs.len();
                            c.attrs.clear();
                        }
                        _ => {}
                    }
                }
            }
            _ => {}
        }
        if n > 0 {
            *fired.entry("attrs".into()).or_insert(0) += n;
        }
    }
    if has("const_static") {
        // `const X: &str` -> `const X: &'static str` (the elided lifetime of a const is 'static)
        if let syn::Item::Const(c) = item {
            if let syn::Type::Reference(r) = &mut *c.ty {
                if r.lifetime.is_none() {
                    r.lifetime = Some(syn::parse_quote!('static));
                    *fired.entry("const_static".into()).or_insert(0) += 1;
                }
            }
        }
    }
    if has("generics") && !req.drop_generics.is_empty() {
        if let syn::Item::Struct(st) = item {
            let params: Vec<syn::GenericParam> = st
                .generics
                .params
                .iter()
                .filter(|p| match p {
                    syn::GenericParam::Type(t) => !req.drop_generics.contains(&t.ident.to_string()),
                    _ => true,
                })
                .cloned()
                .collect();
            let n = st.generics.params.len() - params.len();
            st.generics.params = params.into_iter().collect();
            if st.generics.params.is_empty() {
                st.generics.lt_token = None;
                st.generics.gt_token = None;
                st.generics.where_clause = None;
            }
            if n > 0 {
                *fired.entry("generics".into()).or_insert(0) += n;
            }
        }
    }
    if has("generics") && !req.subst.is_empty() {
        let mut v = TypeSubst {
            map: &req.subst,
            n: 0,
            err: None,
        };
        v.visit_item_mut(item);
        if let Some(e) = v.err {
            return Err(e);
        }
        if v.n > 0 {
            *fired.entry("generics".into()).or_insert(0) += v.n;
        }
    }
    Ok(())
}

// ---------------------------------------------------------------- R1
struct DeAsync {
    n: usize,
}
impl VisitMut for DeAsync {
    fn visit_expr_mut(&mut self, e: &mut syn::Expr) {
        visit_mut::visit_expr_mut(self, e);
        if let syn::Expr::Await(a) = e {
            *e = (*a.base).clone();
            self.n += 1;
        }
    }
}

// ---------------------------------------------------------------- R2
struct StripAttrs {
    n: usize,
    off: Vec<String>,
}
fn gated_off(attrs: &[syn::Attribute], off: &[String]) -> bool {
    attrs.iter().any(|a| {
        let t = norm(a);
        off.iter().any(|f| t == format!("#[cfg(feature=\"{f}\")]"))
    })
}
impl VisitMut for StripAttrs {
    fn visit_block_mut(&mut self, b: &mut syn::Block) {
        let before = b.stmts.len();
        let off = self.off.clone();
        b.stmts.retain(|s| match s {
            syn::Stmt::Local(l) => !gated_off(&l.attrs, &off),
            _ => true,
        });
        self.n += before - b.stmts.len();
        visit_mut::visit_block_mut(self, b);
    }
    fn visit_local_mut(&mut self, l: &mut syn::Local) {
        self.n += l.attrs.len();
        l.attrs.clear();
        visit_mut::visit_local_mut(self, l);
    }
    fn visit_expr_closure_mut(&mut self, c: &mut syn::ExprClosure) {
        self.n += c.attrs.len();
        c.attrs.clear();
        visit_mut::visit_expr_closure_mut(self, c);
    }
    fn visit_arm_mut(&mut self, a: &mut syn::Arm) {
        self.n += a.attrs.len();
        a.attrs.clear();
        visit_mut::visit_arm_mut(self, a);
    }
    fn visit_expr_method_call_mut(&mut self, c: &mut syn::ExprMethodCall) {
        self.n += c.attrs.len();
        c.attrs.clear();
        visit_mut::visit_expr_method_call_mut(self, c);
    }
}

// ---------------------------------------------------------------- R3
struct StripLog {
    n: usize,
    err: Option<String>,
}
const LOG_MACROS: &[&str] = &["trace", "debug", "info", "warn", "error"];

fn is_log_macro(m: &syn::Macro) -> bool {
    m.path
        .segments
        .last()
        .map(|s| LOG_MACROS.contains(&s.ident.to_string().as_str()))
        .unwrap_or(false)
}

/// root path of a call / method-call chain
fn chain_root_path(e: &syn::Expr) -> Option<String> {
    match e {
        syn::Expr::MethodCall(m) => chain_root_path(&m.receiver),
        syn::Expr::Call(c) => match &*c.func {
            syn::Expr::Path(p) => Some(norm(&p.path)),
            _ => None,
        },
        syn::Expr::Try(t) => chain_root_path(&t.expr),
        syn::Expr::Await(t) => chain_root_path(&t.base),
        syn::Expr::Paren(t) => chain_root_path(&t.expr),
        _ => None,
    }
}

fn deletable_stmt(s: &syn::Stmt) -> bool {
    match s {
        syn::Stmt::Macro(m) => is_log_macro(&m.mac),
        syn::Stmt::Expr(syn::Expr::Macro(m), _) => is_log_macro(&m.mac),
        syn::Stmt::Expr(e, _) => match chain_root_path(e) {
            Some(p) => p.starts_with("metrics::") || p == "tracing::Span::current",
            None => false,
        },
        _ => false,
    }
}

impl VisitMut for StripLog {
    fn visit_block_mut(&mut self, b: &mut syn::Block) {
        let before = b.stmts.len();
        b.stmts.retain(|s| !deletable_stmt(s));
        self.n += before - b.stmts.len();
        visit_mut::visit_block_mut(self, b);
    }
    fn visit_expr_mut(&mut self, e: &mut syn::Expr) {
        visit_mut::visit_expr_mut(self, e);
        // .instrument(..) -> receiver ; .inspect_err(|e| {log only}) -> receiver
        if let syn::Expr::MethodCall(m) = e {
            if m.method == "instrument" && m.args.len() == 1 {
                *e = (*m.receiver).clone();
                self.n += 1;
                return;
            }
            if m.method == "inspect_err" && m.args.len() == 1 {
                if let Some(syn::Expr::Closure(c)) = m.args.first() {
                    let ok = match &*c.body {
                        syn::Expr::Block(b) => b.block.stmts.iter().all(deletable_stmt),
                        syn::Expr::Macro(mm) => is_log_macro(&mm.mac),
                        _ => false,
                    };
                    if ok {
                        *e = (*m.receiver).clone();
                        self.n += 1;
                        return;
                    } else {
                        self.err = Some(
                            "unsupported: inspect_err closure with non-logging effects".into(),
                        );
                    }
                }
            }
        }
    }
    fn visit_local_mut(&mut self, l: &mut syn::Local) {
        visit_mut::visit_local_mut(self, l);
        // let x = tracing::Span::current()....to_string();  ->  let x = vx_trace_id_string();
        if let Some(init) = &mut l.init {
            if chain_root_path(&init.expr).as_deref() == Some("tracing::Span::current") {
                *init.expr = syn::parse_quote!(vx_trace_id_string());
                self.n += 1;
            }
        }
    }
}

// ---------------------------------------------------------------- R30
struct StdNet {
    n: usize,
}
impl VisitMut for StdNet {
    fn visit_path_mut(&mut self, p: &mut syn::Path) {
        visit_mut::visit_path_mut(self, p);
        if p.segments.len() >= 3 && p.segments[0].ident == "std" && p.segments[1].ident == "net" {
            let rest: Vec<syn::PathSegment> = p.segments.iter().skip(2).cloned().collect();
            p.leading_colon = None;
            p.segments = rest.into_iter().collect();
            self.n += 1;
        }
    }
}

// ---------------------------------------------------------------- R29
/// `o.map_or(D, F)` -> `match o { Some(v) => F(v), None => D }`, `o.is_some_and(F)` -> `match o { Some(v) => F(v), None => false }`
/// where F is a closure literal without `return` (its body is substituted with `let <pat> = v;`) or a path (called as a
/// function, so a datatype constructor becomes a constructor expression) and D is a path, literal or field access
/// (no evaluation to reorder). Anything else is left as it is. On a receiver that is not an `Option` the result does not
/// type-check, which ends the run with exit 2.
struct OptMatch {
    n: usize,
    /// also rewrite `o.map(F)` (R29b, rule `opt_map`)
    map: bool,
    others: bool,
    /// `o.and_then(F)` -> `match o { Some(v) => F(v), None => None }` (rule `opt_and_then`)
    and_then: bool,
    /// `r.map_err(F)` -> `match r { Ok(v) => Ok(v), Err(e) => Err(F(e)) }` (rule `res_map_err`)
    map_err: bool,
}
// ---------------------------------------------------------------- R31
/// statement `tokio::spawn(async move { .. });` (a detached task whose handle is discarded) is removed
struct SpawnDrop {
    n: usize,
}
impl VisitMut for SpawnDrop {
    fn visit_block_mut(&mut self, b: &mut syn::Block) {
        let before = b.stmts.len();
        b.stmts.retain(|st| {
            if let syn::Stmt::Expr(syn::Expr::Call(c), Some(_)) = st {
                if let syn::Expr::Path(p) = &*c.func {
                    if norm(&p.path) == "tokio::spawn" && c.args.len() == 1 {
                        if let syn::Expr::Async(_) = &c.args[0] {
                            return false;
                        }
                    }
                }
            }
            true
        });
        self.n += before - b.stmts.len();
        visit_mut::visit_block_mut(self, b);
    }
}
fn opt_simple_default(e: &syn::Expr) -> bool {
    match e {
        syn::Expr::Path(_) | syn::Expr::Lit(_) => true,
        syn::Expr::Field(f) => opt_simple_default(&f.base),
        syn::Expr::Paren(p) => opt_simple_default(&p.expr),
        syn::Expr::Reference(r) => opt_simple_default(&r.expr),
        _ => false,
    }
}
struct HasReturn(bool);
impl<'ast> syn::visit::Visit<'ast> for HasReturn {
    fn visit_expr_return(&mut self, _: &'ast syn::ExprReturn) {
        self.0 = true;
    }
    fn visit_expr_try(&mut self, _: &'ast syn::ExprTry) {
        self.0 = true;
    }
}
fn opt_apply(f: &syn::Expr, v: &syn::Ident) -> Option<syn::Expr> {
    match f {
        syn::Expr::Path(p) => Some(syn::parse_quote!(#p(#v))),
        syn::Expr::Closure(c) if c.inputs.len() == 1 && c.asyncness.is_none() => {
            let mut hr = HasReturn(false);
            syn::visit::Visit::visit_expr(&mut hr, &c.body);
            if hr.0 {
                return None;
            }
            let pat = match &c.inputs[0] {
                syn::Pat::Type(t) => {
                    let (p, ty) = (&t.pat, &t.ty);
                    quote::quote!(#p: #ty)
                }
                p => quote::quote!(#p),
            };
            let body = &c.body;
            Some(syn::parse_quote!({ let #pat = #v; #body }))
        }
        _ => None,
    }
}
impl VisitMut for OptMatch {
    fn visit_expr_mut(&mut self, e: &mut syn::Expr) {
        visit_mut::visit_expr_mut(self, e);
        if let syn::Expr::MethodCall(m) = e {
            let name = m.method.to_string();
            let v = syn::Ident::new("__vx_v", proc_macro2::Span::call_site());
            let recv = &m.receiver;
            if name == "map" && self.map && m.args.len() == 1 {
                if let Some(app) = opt_apply(&m.args[0], &v) {
                    *e = syn::parse_quote!(match #recv { Some(#v) => Some(#app), None => None });
                    self.n += 1;
                }
            } else if name == "map_err" && self.map_err && m.args.len() == 1 {
                if let Some(app) = opt_apply(&m.args[0], &v) {
                    *e = syn::parse_quote!(match #recv { Ok(__vx_ok) => Ok(__vx_ok), Err(#v) => Err(#app) });
                    self.n += 1;
                }
            } else if name == "and_then" && self.and_then && m.args.len() == 1 {
                if let Some(app) = opt_apply(&m.args[0], &v) {
                    *e = syn::parse_quote!(match #recv { Some(#v) => #app, None => None });
                    self.n += 1;
                }
            } else if !self.others {
            } else if name == "map_or" && m.args.len() == 2 && opt_simple_default(&m.args[0]) {
                if let Some(app) = opt_apply(&m.args[1], &v) {
                    let d = &m.args[0];
                    *e = syn::parse_quote!(match #recv { Some(#v) => #app, None => #d });
                    self.n += 1;
                }
            } else if name == "map_or_else" && m.args.len() == 2 {
                // `o.map_or_else(|| D, F)` -> `match o { Some(v) => F(v), None => D }`
                if let syn::Expr::Closure(dc) = &m.args[0] {
                    let mut hr = HasReturn(false);
                    syn::visit::Visit::visit_expr(&mut hr, &dc.body);
                    if dc.inputs.is_empty() && dc.asyncness.is_none() && !hr.0 {
                        if let Some(app) = opt_apply(&m.args[1], &v) {
                            let d = &dc.body;
                            *e = syn::parse_quote!(match #recv { Some(#v) => #app, None => #d });
                            self.n += 1;
                        }
                    }
                }
            } else if name == "is_some_and" && m.args.len() == 1 {
                if let Some(app) = opt_apply(&m.args[0], &v) {
                    *e = syn::parse_quote!(match #recv { Some(#v) => #app, None => false });
                    self.n += 1;
                }
            } else if name == "is_none_or" && m.args.len() == 1 {
                if let Some(app) = opt_apply(&m.args[0], &v) {
                    *e = syn::parse_quote!(match #recv { Some(#v) => #app, None => true });
                    self.n += 1;
                }
            }
        }
    }
}

// ---------------------------------------------------------------- R9b
struct ClosureWild {
    n: usize,
}
impl VisitMut for ClosureWild {
    fn visit_expr_closure_mut(&mut self, c: &mut syn::ExprClosure) {
        for p in c.inputs.iter_mut() {
            if let syn::Pat::Wild(_) = p {
                *p = syn::parse_quote!(_e);
                self.n += 1;
            }
        }
        visit_mut::visit_expr_closure_mut(self, c);
    }
}

// ---------------------------------------------------------------- R12
struct Statics<'a> {
    map: &'a BTreeMap<String, String>,
    n: usize,
}
impl<'a> VisitMut for Statics<'a> {
    fn visit_expr_mut(&mut self, e: &mut syn::Expr) {
        // `crypto::KEY_PAIR.0` is a field access on a path; check longest form first
        let key = norm(&*e);
        if let Some(rep) = self.map.get(&key) {
            if let Ok(ne) = syn::parse_str::<syn::Expr>(rep) {
                *e = ne;
                self.n += 1;
                return;
            }
        }
        // `&STATIC` -> the accessor already returns a reference
        if let syn::Expr::Reference(r) = e {
            if r.mutability.is_none() {
                let inner = norm(&*r.expr);
                if let Some(rep) = self.map.get(&inner) {
                    if let Ok(ne) = syn::parse_str::<syn::Expr>(rep) {
                        *e = ne;
                        self.n += 1;
                        return;
                    }
                }
            }
        }
        visit_mut::visit_expr_mut(self, e);
    }
}

// ---------------------------------------------------------------- R19
struct VecAlloc {
    n: usize,
}
impl VisitMut for VecAlloc {
    fn visit_expr_mut(&mut self, e: &mut syn::Expr) {
        visit_mut::visit_expr_mut(self, e);
        if let syn::Expr::Macro(m) = e {
            if m.mac.path.is_ident("vec") {
                // vec![0; n]
                let parsed: Result<VecRepeat, _> = syn::parse2(m.mac.tokens.clone());
                if let Ok(vr) = parsed {
                    if norm(&vr.elem) == "0" {
                        let len = vr.len;
                        *e = syn::parse_quote!(vx_alloc_zeroed(#len));
                        self.n += 1;
                    }
                }
            }
        }
    }
}
/// R19b (rule `alloc_reserve`, enabled on decoding paths only)
struct AllocReserve {
    n: usize,
}
impl VisitMut for AllocReserve {
    fn visit_expr_mut(&mut self, e: &mut syn::Expr) {
        visit_mut::visit_expr_mut(self, e);
        // capacity requests: `v.reserve(n)`, `v.try_reserve(n)`, `v.reserve_exact(n)`, `v.try_reserve_exact(n)` -> `v.vx_<name>(n)`
        // and `Vec::with_capacity(n)` -> `vx_with_capacity(n)`: same operation, but the stub carries the C04 allocation bound
        if let syn::Expr::MethodCall(m) = e {
            let name = m.method.to_string();
            if ["reserve", "try_reserve", "reserve_exact", "try_reserve_exact"].contains(&name.as_str()) && m.args.len() == 1 {
                m.method = syn::Ident::new(&format!("vx_{name}"), m.method.span());
                self.n += 1;
            }
        }
        if let syn::Expr::Call(c) = e {
            if let syn::Expr::Path(p) = &*c.func {
                let t = norm(&p.path);
                if (t == "Vec::with_capacity" || t.starts_with("Vec::<") && t.ends_with(">::with_capacity")) && c.args.len() == 1 {
                    let a = &c.args[0];
                    *e = syn::parse_quote!(vx_with_capacity(#a));
                    self.n += 1;
                    return;
                }
            }
        }
    }
}
struct VecRepeat {
    elem: syn::Expr,
    len: syn::Expr,
}
impl syn::parse::Parse for VecRepeat {
    fn parse(input: syn::parse::ParseStream) -> syn::Result<Self> {
        let elem: syn::Expr = input.parse()?;
        input.parse::<syn::Token![;]>()?;
        let len: syn::Expr = input.parse()?;
        if !input.is_empty() {
            return Err(input.error("trailing"));
        }
        Ok(VecRepeat { elem, len })
    }
}

// ---------------------------------------------------------------- R27 / R17
struct ErrorCause {
    n: usize,
}
impl VisitMut for ErrorCause {
    fn visit_expr_struct_mut(&mut self, st: &mut syn::ExprStruct) {
        for f in st.fields.iter_mut() {
            if let syn::Member::Named(id) = &f.member {
                if id == "cause" {
                    f.expr = syn::parse_quote!(vx_cause());
                    f.colon_token = Some(Default::default());
                    self.n += 1;
                    continue;
                }
            }
            self.visit_expr_mut(&mut f.expr);
        }
    }
}
struct HavocIter {
    n: usize,
}
fn chain_has(e: &syn::Expr, names: &[&str]) -> bool {
    match e {
        syn::Expr::MethodCall(m) => names.contains(&m.method.to_string().as_str()) || chain_has(&m.receiver, names),
        _ => false,
    }
}
impl VisitMut for HavocIter {
    fn visit_expr_mut(&mut self, e: &mut syn::Expr) {
        if let syn::Expr::MethodCall(m) = e {
            if m.method == "collect" && chain_has(&m.receiver, &["iter", "into_iter"]) {
                *e = syn::parse_quote!(vx_havoc());
                self.n += 1;
                return;
            }
        }
        visit_mut::visit_expr_mut(self, e);
    }
}

// ---------------------------------------------------------------- R32
/// `BASE.into_iter()|iter() (.map(|P| B) | .filter(|P| C))* .collect()` is what `FromIterator` does, written out:
/// `{ let mut it = VxIntoIter::vx_into_iter(BASE) | VxIterRef::vx_iter(&BASE); let mut out = VxCollect::vx_new();
///    loop { match it.next() { Some(x) => { [let x = {let P = x; B};]* [if {let P = &x; C} {]* VxCollect::vx_push(&mut out, x) [}]* }, None => break } } out }`.
/// Closures must be literals with one parameter and no `return`/`?`. The traits are the unit's model of the collection types.
struct IterLoop {
    n: usize,
    types: Vec<String>,
}
enum Adaptor {
    Map(syn::ExprClosure),
    Filter(syn::ExprClosure),
    /// `.map(path)`: the function named by the path is applied to the item
    MapPath(syn::ExprPath),
}
fn iter_chain(e: &syn::Expr) -> Option<(syn::Expr, bool, Vec<Adaptor>)> {
    // returns (base, by_ref, adaptors in application order) for the receiver of `.collect()`
    match e {
        syn::Expr::MethodCall(m) => {
            let name = m.method.to_string();
            if (name == "iter" || name == "into_iter") && m.args.is_empty() {
                return Some(((*m.receiver).clone(), name == "iter", vec![]));
            }
            if name == "map" && m.args.len() == 1 {
                if let syn::Expr::Path(p) = &m.args[0] {
                    let (base, by_ref, mut ads) = iter_chain(&m.receiver)?;
                    ads.push(Adaptor::MapPath(p.clone()));
                    return Some((base, by_ref, ads));
                }
            }
            if (name == "map" || name == "filter") && m.args.len() == 1 {
                if let syn::Expr::Closure(c) = &m.args[0] {
                    if c.inputs.len() != 1 || c.asyncness.is_some() {
                        return None;
                    }
                    let mut hr = HasReturn(false);
                    syn::visit::Visit::visit_expr(&mut hr, &c.body);
                    if hr.0 {
                        return None;
                    }
                    let (base, by_ref, mut ads) = iter_chain(&m.receiver)?;
                    ads.push(if name == "map" { Adaptor::Map(c.clone()) } else { Adaptor::Filter(c.clone()) });
                    return Some((base, by_ref, ads));
                }
            }
            None
        }
        _ => None,
    }
}
fn closure_pat(c: &syn::ExprClosure) -> proc_macro2::TokenStream {
    match &c.inputs[0] {
        syn::Pat::Type(t) => {
            let (p, ty) = (&t.pat, &t.ty);
            quote::quote!(#p: #ty)
        }
        p => quote::quote!(#p),
    }
}
impl VisitMut for IterLoop {
    fn visit_expr_mut(&mut self, e: &mut syn::Expr) {
        visit_mut::visit_expr_mut(self, e);
        if let syn::Expr::MethodCall(m) = e {
            if m.method == "collect" && m.args.is_empty() {
                if let Some((base, by_ref, ads)) = iter_chain(&m.receiver) {
                    // innermost statement first
                    let mut inner: syn::Expr = syn::parse_quote!({ VxCollect::vx_push(&mut __vx_out, __vx_x); });
                    for a in ads.iter().rev() {
                        inner = match a {
                            Adaptor::Map(c) => {
                                let pat = closure_pat(c);
                                let body = &c.body;
                                syn::parse_quote!({ let __vx_x = { let #pat = __vx_x; #body }; #inner })
                            }
                            Adaptor::Filter(c) => {
                                let pat = closure_pat(c);
                                let body = &c.body;
                                syn::parse_quote!({ if { let #pat = &__vx_x; #body } #inner })
                            }
                            Adaptor::MapPath(p) => syn::parse_quote!({ let __vx_x = #p(__vx_x); #inner }),
                        };
                    }
                    let start: syn::Expr = if by_ref {
                        syn::parse_quote!((#base).vx_iter())
                    } else {
                        syn::parse_quote!(VxIntoIter::vx_into_iter(#base))
                    };
                    let out_ty = m.turbofish.as_ref().and_then(|t| t.args.first().cloned());
                    let asc = self.types.get(self.n).and_then(|t| parse_type(t).ok());
                    let decl: syn::Stmt = match (asc, out_ty) {
                        (Some(t), _) => syn::parse_quote!(let mut __vx_out: #t = VxCollect::vx_new();),
                        (None, Some(syn::GenericArgument::Type(t))) => syn::parse_quote!(let mut __vx_out: #t = VxCollect::vx_new();),
                        _ => syn::parse_quote!(let mut __vx_out = VxCollect::vx_new();),
                    };
                    *e = syn::parse_quote!({
                        let mut __vx_it = #start;
                        #decl
                        loop {
                            match __vx_it.next() {
                                Some(__vx_x) => #inner,
                                None => { break; }
                            }
                        }
                        __vx_out
                    });
                    self.n += 1;
                }
            }
        }
    }
}


// ---------------------------------------------------------------- R35
/// `CHAIN.any(|P| C)`, `CHAIN.all(|P| C)`, `CHAIN.max_by_key(|P| K)` where CHAIN is what R32 accepts: written out as the loop
/// `Iterator::any/all/max_by_key` run (short-circuit for any/all; max_by_key keeps the *last* of several maxima, as std's
/// `reduce(|x, y| if x.0 > y.0 { x } else { y })` does)
struct IterSearch {
    n: usize,
    types: Vec<String>,
}
impl VisitMut for IterSearch {
    fn visit_expr_mut(&mut self, e: &mut syn::Expr) {
        visit_mut::visit_expr_mut(self, e);
        if let syn::Expr::MethodCall(m) = e {
            let name = m.method.to_string();
            if !(name == "any" || name == "all" || name == "max_by_key" || name == "position") || m.args.len() != 1 {
                return;
            }
            let c = match &m.args[0] {
                syn::Expr::Closure(c) if c.inputs.len() == 1 && c.asyncness.is_none() => c.clone(),
                _ => return,
            };
            let mut hr = HasReturn(false);
            syn::visit::Visit::visit_expr(&mut hr, &c.body);
            if hr.0 {
                return;
            }
            let Some((base, by_ref, ads)) = iter_chain(&m.receiver) else { return };
            let pat = closure_pat(&c);
            let body = &c.body;
            let (init, mut inner, fin): (syn::Expr, syn::Expr, syn::Expr) = match name.as_str() {
                "any" => (
                    syn::parse_quote!(false),
                    syn::parse_quote!({ if { let #pat = __vx_x; #body } { __vx_res = true; break; } }),
                    syn::parse_quote!(__vx_res),
                ),
                "position" => (
                    syn::parse_quote!(None),
                    syn::parse_quote!({ if { let #pat = __vx_x; #body } { __vx_res = Some(__vx_i); break; } __vx_i += 1; }),
                    syn::parse_quote!(__vx_res),
                ),
                "all" => (
                    syn::parse_quote!(true),
                    syn::parse_quote!({ if !{ let #pat = __vx_x; #body } { __vx_res = false; break; } }),
                    syn::parse_quote!(__vx_res),
                ),
                _ => (
                    syn::parse_quote!(None),
                    syn::parse_quote!({
                        let __vx_k = { let #pat = &__vx_x; #body };
                        __vx_res = match __vx_res {
                            Some((__vx_bk, __vx_bx)) => if __vx_bk > __vx_k { Some((__vx_bk, __vx_bx)) } else { Some((__vx_k, __vx_x)) },
                            None => Some((__vx_k, __vx_x)),
                        };
                    }),
                    syn::parse_quote!(match __vx_res { Some((__vx_bk, __vx_bx)) => Some(__vx_bx), None => None }),
                ),
            };
            for a in ads.iter().rev() {
                inner = match a {
                    Adaptor::Map(c) => {
                        let pat = closure_pat(c);
                        let body = &c.body;
                        syn::parse_quote!({ let __vx_x = { let #pat = __vx_x; #body }; #inner })
                    }
                    Adaptor::Filter(c) => {
                        let pat = closure_pat(c);
                        let body = &c.body;
                        syn::parse_quote!({ if { let #pat = &__vx_x; #body } #inner })
                    }
                    Adaptor::MapPath(p) => syn::parse_quote!({ let __vx_x = #p(__vx_x); #inner }),
                };
            }
            let start: syn::Expr = if by_ref {
                syn::parse_quote!((#base).vx_iter())
            } else {
                syn::parse_quote!(VxIntoIter::vx_into_iter(#base))
            };
            let asc = self.types.get(self.n).and_then(|t| if t.is_empty() { None } else { parse_type(t).ok() });
            let decl: syn::Stmt = match (asc, name.as_str()) {
                (Some(t), _) => syn::parse_quote!(let mut __vx_res: #t = #init;),
                (None, "max_by_key") => syn::parse_quote!(let mut __vx_res = #init;),
                (None, "position") => syn::parse_quote!(let mut __vx_res: Option<usize> = #init;),
                _ => syn::parse_quote!(let mut __vx_res: bool = #init;),
            };
            let counter: Option<syn::Stmt> = if name == "position" { Some(syn::parse_quote!(let mut __vx_i: usize = 0;)) } else { None };
            *e = syn::parse_quote!({
                let mut __vx_it = #start;
                #decl
                #counter
                loop {
                    match __vx_it.next() {
                        Some(__vx_x) => #inner,
                        None => { break; }
                    }
                }
                #fin
            });
            self.n += 1;
        }
    }
}

// ---------------------------------------------------------------- R38
struct ForIter {
    n: usize,
}
impl VisitMut for ForIter {
    fn visit_expr_mut(&mut self, e: &mut syn::Expr) {
        visit_mut::visit_expr_mut(self, e);
        if let syn::Expr::ForLoop(f) = e {
            if matches!(&*f.expr, syn::Expr::Range(_)) || f.label.is_some() {
                return;
            }
            let (pat, it, body) = (&f.pat, &f.expr, &f.body);
            *e = syn::parse_quote!({
                let mut __vx_it = VxIntoIter::vx_into_iter(#it);
                loop {
                    match __vx_it.next() {
                        Some(#pat) => #body,
                        None => { break; }
                    }
                }
            });
            self.n += 1;
        }
    }
}

// ---------------------------------------------------------------- R36
struct ParseTurbofish {
    n: usize,
}
impl VisitMut for ParseTurbofish {
    fn visit_expr_mut(&mut self, e: &mut syn::Expr) {
        visit_mut::visit_expr_mut(self, e);
        if let syn::Expr::MethodCall(m) = e {
            if m.method == "parse" && m.args.is_empty() {
                if let Some(tf) = &m.turbofish {
                    if tf.args.len() == 1 {
                        if let syn::GenericArgument::Type(syn::Type::Path(tp)) = &tf.args[0] {
                            if let Some(id) = tp.path.get_ident() {
                                let f = syn::Ident::new(&format!("vx_parse_{id}"), proc_macro2::Span::call_site());
                                let recv = &m.receiver;
                                // method syntax keeps the auto-(de)referencing of the original `.parse()` call
                                *e = syn::parse_quote!((#recv).#f());
                                self.n += 1;
                            }
                        }
                    }
                }
            }
        }
    }
}

// ---------------------------------------------------------------- R36b
struct ParseTypedLet {
    n: usize,
}
fn root_parse(e: &mut syn::Expr) -> Option<&mut syn::ExprMethodCall> {
    match e {
        syn::Expr::Try(t) => root_parse(&mut t.expr),
        syn::Expr::Paren(t) => root_parse(&mut t.expr),
        syn::Expr::MethodCall(m) => {
            if m.method == "parse" && m.args.is_empty() {
                Some(m)
            } else if m.method == "map_err" && m.args.len() == 1 {
                root_parse(&mut m.receiver)
            } else {
                None
            }
        }
        _ => None,
    }
}
impl VisitMut for ParseTypedLet {
    fn visit_local_mut(&mut self, l: &mut syn::Local) {
        visit_mut::visit_local_mut(self, l);
        if let syn::Pat::Type(pt) = &l.pat {
            let ty = (*pt.ty).clone();
            if let Some(init) = &mut l.init {
                if let Some(m) = root_parse(&mut init.expr) {
                    if m.turbofish.is_none() {
                        m.turbofish = Some(syn::parse_quote!(::<#ty>));
                        self.n += 1;
                    }
                }
            }
        }
    }
}

// ---------------------------------------------------------------- R41
struct JoinFn {
    n: usize,
}
impl VisitMut for JoinFn {
    fn visit_expr_mut(&mut self, e: &mut syn::Expr) {
        visit_mut::visit_expr_mut(self, e);
        if let syn::Expr::MethodCall(m) = e {
            if m.method == "join" && m.args.len() == 1 && m.turbofish.is_none() {
                let (recv, arg) = (&m.receiver, &m.args[0]);
                *e = syn::parse_quote!(vx_join(&#recv, #arg));
                self.n += 1;
            }
        }
    }
}

// ---------------------------------------------------------------- R39
fn param_pat(sig: &mut syn::Signature, block: &mut syn::Block) -> usize {
    let mut lets: Vec<syn::Stmt> = vec![];
    for (k, a) in sig.inputs.iter_mut().enumerate() {
        if let syn::FnArg::Typed(t) = a {
            if !matches!(&*t.pat, syn::Pat::Ident(_)) {
                let id = syn::Ident::new(&format!("__vx_p{k}"), proc_macro2::Span::call_site());
                let pat = (*t.pat).clone();
                lets.push(syn::parse_quote!(let #pat = #id;));
                *t.pat = syn::parse_quote!(#id);
            }
        }
    }
    let n = lets.len();
    for (i, l) in lets.into_iter().enumerate() {
        block.stmts.insert(i, l);
    }
    n
}

// ---------------------------------------------------------------- R34
struct IntoFrom {
    n: usize,
    paths: bool,
    /// R34b: the method calls `x.into()` / `x.try_into()` -> `From::from(x)` / `TryFrom::try_from(x)` (rule `into_method`)
    methods: bool,
}
impl VisitMut for IntoFrom {
    fn visit_expr_mut(&mut self, e: &mut syn::Expr) {
        visit_mut::visit_expr_mut(self, e);
        if !self.methods {
            return;
        }
        if let syn::Expr::MethodCall(m) = e {
            if m.args.is_empty() && m.turbofish.is_none() && (m.method == "into" || m.method == "try_into") {
                let recv = &m.receiver;
                *e = if m.method == "into" { syn::parse_quote!(From::from(#recv)) } else { syn::parse_quote!(TryFrom::try_from(#recv)) };
                self.n += 1;
            }
        }
    }
    fn visit_expr_path_mut(&mut self, p: &mut syn::ExprPath) {
        if !self.paths {
            return;
        }
        let t = norm(&p.path);
        if t == "Into::into" {
            *p = syn::parse_quote!(From::from);
            self.n += 1;
        } else if t == "TryInto::try_into" {
            *p = syn::parse_quote!(TryFrom::try_from);
            self.n += 1;
        }
    }
}

// ---------------------------------------------------------------- R17b
struct CutChain {
    method: String,
    n: usize,
}
fn find_call<'a>(e: &'a syn::Expr, method: &str) -> Option<&'a syn::Expr> {
    match e {
        syn::Expr::MethodCall(m) => {
            if m.method == method {
                Some(e)
            } else {
                find_call(&m.receiver, method)
            }
        }
        syn::Expr::Try(t) => find_call(&t.expr, method),
        syn::Expr::Await(t) => find_call(&t.base, method),
        syn::Expr::Paren(t) => find_call(&t.expr, method),
        _ => None,
    }
}
impl VisitMut for CutChain {
    fn visit_local_mut(&mut self, l: &mut syn::Local) {
        if let Some(init) = &mut l.init {
            let is_try = matches!(&*init.expr, syn::Expr::Try(_));
            if let Some(g) = find_call(&init.expr, &self.method) {
                // only cut if there is something after the call
                if !std::ptr::eq(g, &*init.expr) {
                    let g = g.clone();
                    *init.expr = if is_try {
                        syn::parse_quote!(vx_rest_of_request(#g)?)
                    } else {
                        syn::parse_quote!(vx_rest_of_request(#g))
                    };
                    self.n += 1;
                    return;
                }
            }
        }
        visit_mut::visit_local_mut(self, l);
    }
}

// ---------------------------------------------------------------- R26
struct MapField {
    n: usize,
}
fn field_chain_root(e: &syn::Expr) -> Option<String> {
    match e {
        syn::Expr::Field(f) => field_chain_root(&f.base),
        syn::Expr::Path(p) => p.path.get_ident().map(|i| i.to_string()),
        _ => None,
    }
}
impl VisitMut for MapField {
    fn visit_expr_mut(&mut self, e: &mut syn::Expr) {
        visit_mut::visit_expr_mut(self, e);
        if let syn::Expr::MethodCall(m) = e {
            if m.method == "map" && m.args.len() == 1 {
                if let Some(syn::Expr::Closure(c)) = m.args.first() {
                    if c.inputs.len() == 1 {
                        if let syn::Pat::Ident(pi) = &c.inputs[0] {
                            if matches!(&*c.body, syn::Expr::Field(_))
                                && field_chain_root(&c.body).as_deref() == Some(&pi.ident.to_string())
                            {
                                let recv = &m.receiver;
                                let id = &pi.ident;
                                let body = &c.body;
                                *e = syn::parse_quote!(match #recv { Some(#id) => Some(#body), None => None });
                                self.n += 1;
                            }
                        }
                    }
                }
            }
        }
    }
}

// ---------------------------------------------------------------- R25
struct ParseLit {
    n: usize,
}
impl VisitMut for ParseLit {
    fn visit_expr_mut(&mut self, e: &mut syn::Expr) {
        visit_mut::visit_expr_mut(self, e);
        if let syn::Expr::MethodCall(m) = e {
            if m.method == "parse" && m.args.is_empty() && m.turbofish.is_none() {
                if let syn::Expr::Lit(l) = &*m.receiver {
                    if let syn::Lit::Str(_) = &l.lit {
                        let recv = &m.receiver;
                        *e = syn::parse_quote!(vx_parse_lit(#recv));
                        self.n += 1;
                    }
                }
            }
        }
    }
}

// ---------------------------------------------------------------- R24
struct TryDesugar {
    n: usize,
}
impl VisitMut for TryDesugar {
    fn visit_expr_mut(&mut self, e: &mut syn::Expr) {
        visit_mut::visit_expr_mut(self, e);
        if let syn::Expr::Try(t) = e {
            let inner = &t.expr;
            *e = syn::parse_quote!(match #inner {
                Ok(__vx_v) => __vx_v,
                Err(__vx_e) => return Err(From::from(__vx_e)),
            });
            self.n += 1;
        }
    }
}

// ---------------------------------------------------------------- R23
struct AsDeref {
    n: usize,
}
impl VisitMut for AsDeref {
    fn visit_expr_mut(&mut self, e: &mut syn::Expr) {
        visit_mut::visit_expr_mut(self, e);
        if let syn::Expr::MethodCall(m) = e {
            if m.method == "as_deref" && m.args.is_empty() {
                let recv = &m.receiver;
                *e = syn::parse_quote!(vx_as_deref(&#recv));
                self.n += 1;
            }
        }
    }
}

// ---------------------------------------------------------------- R21
struct TakeRead {
    n: usize,
}
impl VisitMut for TakeRead {
    fn visit_expr_mut(&mut self, e: &mut syn::Expr) {
        visit_mut::visit_expr_mut(self, e);
        if let syn::Expr::MethodCall(m) = e {
            if m.method == "read_to_end" && m.args.len() == 1 {
                if let syn::Expr::MethodCall(t) = &*m.receiver {
                    if t.method == "take" && t.args.len() == 1 {
                        let recv = &t.receiver;
                        let n = t.args.first().unwrap();
                        let b = m.args.first().unwrap();
                        *e = syn::parse_quote!(#recv.vx_take_read_to_end(#n, #b));
                        self.n += 1;
                    }
                }
            }
        }
    }
}

// ---------------------------------------------------------------- R20
struct StrPattern {
    n: usize,
}
impl VisitMut for StrPattern {
    fn visit_expr_mut(&mut self, e: &mut syn::Expr) {
        visit_mut::visit_expr_mut(self, e);
        if let syn::Expr::MethodCall(m) = e {
            if m.method == "starts_with" && m.args.len() == 1 {
                if let Some(syn::Expr::Lit(l)) = m.args.first() {
                    if let syn::Lit::Char(_) = &l.lit {
                        let recv = &m.receiver;
                        let arg = m.args.first().unwrap();
                        *e = syn::parse_quote!(vx_starts_with_char(#recv, #arg));
                        self.n += 1;
                    }
                }
            }
        }
    }
}

// ---------------------------------------------------------------- R11
pub struct TypeSubst<'a> {
    pub map: &'a BTreeMap<String, String>,
    pub n: usize,
    pub err: Option<String>,
}
impl<'a> VisitMut for TypeSubst<'a> {
    fn visit_type_mut(&mut self, t: &mut syn::Type) {
        if let syn::Type::Path(p) = t {
            if p.qself.is_none() {
                let full = norm(&p.path);
                if p.path.segments.len() > 1 || full.contains('<') {
                    if let Some(rep) = self.map.get(&full) {
                        match parse_type(rep) {
                            Ok(nt) => {
                                *t = nt;
                                self.n += 1;
                                return;
                            }
                            Err(e) => self.err = Some(e),
                        }
                    }
                }
                if let Some(id) = p.path.get_ident() {
                    if let Some(rep) = self.map.get(&id.to_string()) {
                        match parse_type(rep) {
                            Ok(nt) => {
                                *t = nt;
                                self.n += 1;
                                return;
                            }
                            Err(e) => self.err = Some(e),
                        }
                    }
                }
            }
        }
        visit_mut::visit_type_mut(self, t);
    }
    fn visit_expr_path_mut(&mut self, p: &mut syn::ExprPath) {
        // `S::method(..)` where S is substituted
        if p.qself.is_none() && p.path.segments.len() >= 2 {
            let first = p.path.segments[0].ident.to_string();
            if !p.path.segments[0].arguments.is_none() {
                // `T::<A>::f(..)` where the type `T<A>` is substituted
                let key = norm(&p.path.segments[0]).replace("::<", "<");
                if let Some(rep) = self.map.get(&key) {
                    if let Ok(ty) = parse_type(rep) {
                        let rest: Vec<_> = p.path.segments.iter().skip(1).cloned().collect();
                        let np: syn::ExprPath = syn::parse_quote!(<#ty>::#(#rest)::*);
                        *p = np;
                        self.n += 1;
                        return;
                    }
                }
            }
            if p.path.segments[0].arguments.is_none() {
                if let Some(rep) = self.map.get(&first) {
                    if let Ok(ty) = parse_type(rep) {
                        let rest: Vec<_> = p.path.segments.iter().skip(1).cloned().collect();
                        let np: syn::ExprPath = syn::parse_quote!(<#ty>::#(#rest)::*);
                        *p = np;
                        self.n += 1;
                        return;
                    }
                }
            }
        }
        visit_mut::visit_expr_path_mut(self, p);
    }
}

const MARKER_BOUNDS: &[&str] = &["Send", "Sync", "Unpin", "Debug", "Sized"];

fn filter_bounds(
    bounds: &mut syn::punctuated::Punctuated<syn::TypeParamBound, syn::Token![+]>,
) -> usize {
    let mut n = 0;
    let kept: Vec<syn::TypeParamBound> = bounds
        .iter()
        .filter(|b| match b {
            syn::TypeParamBound::Trait(t) => {
                let last = t
                    .path
                    .segments
                    .last()
                    .map(|s| s.ident.to_string())
                    .unwrap_or_default();
                let drop = MARKER_BOUNDS.contains(&last.as_str());
                if drop {
                    n += 1;
                }
                !drop
            }
            syn::TypeParamBound::Lifetime(l) => {
                let drop = l.ident == "static";
                if drop {
                    n += 1;
                }
                !drop
            }
            _ => true,
        })
        .cloned()
        .collect();
    *bounds = kept.into_iter().collect();
    n
}

fn generics(req: &ItemReq, sig: &mut syn::Signature, block: &mut syn::Block) -> Result<usize, String> {
    let mut n = 0;
    // drop named generic parameters
    let params: Vec<syn::GenericParam> = sig
        .generics
        .params
        .iter()
        .filter(|p| match p {
            syn::GenericParam::Type(t) => {
                let drop = req.drop_generics.contains(&t.ident.to_string());
                if drop {
                    n += 1;
                }
                !drop
            }
            _ => true,
        })
        .cloned()
        .collect();
    sig.generics.params = params.into_iter().collect();
    for p in sig.generics.params.iter_mut() {
        if let syn::GenericParam::Type(t) = p {
            n += filter_bounds(&mut t.bounds);
            // bound renaming: "bound:Deserialize<'a>" -> "JsonDe"
            for b in t.bounds.iter_mut() {
                if let syn::TypeParamBound::Trait(tb) = b {
                    let key = format!("bound:{}", norm(&tb.path));
                    if let Some(rep) = req.subst.get(&key) {
                        if let Ok(np) = syn::parse_str::<syn::Path>(rep) {
                            tb.path = np;
                            n += 1;
                        }
                    }
                }
            }
        }
    }
    // drop lifetimes named in drop_generics (e.g. "'a")
    {
        let before = sig.generics.params.len();
        let params: Vec<syn::GenericParam> = sig
            .generics
            .params
            .iter()
            .filter(|p| match p {
                syn::GenericParam::Lifetime(l) => !req.drop_generics.contains(&format!("'{}", l.lifetime.ident)),
                _ => true,
            })
            .cloned()
            .collect();
        sig.generics.params = params.into_iter().collect();
        n += before - sig.generics.params.len();
        if sig.generics.params.is_empty() {
            sig.generics.lt_token = None;
            sig.generics.gt_token = None;
        }
    }
    if sig.generics.params.is_empty() {
        sig.generics.lt_token = None;
        sig.generics.gt_token = None;
    }
    // where clause: drop predicates on dropped params, filter marker bounds
    if let Some(w) = &mut sig.generics.where_clause {
        let preds: Vec<syn::WherePredicate> = w
            .predicates
            .iter()
            .filter(|p| match p {
                syn::WherePredicate::Type(t) => {
                    let name = norm(&t.bounded_ty);
                    !req.drop_generics.contains(&name)
                }
                _ => true,
            })
            .cloned()
            .collect();
        w.predicates = preds.into_iter().collect();
        for p in w.predicates.iter_mut() {
            if let syn::WherePredicate::Type(t) = p {
                n += filter_bounds(&mut t.bounds);
            }
        }
        if w.predicates.is_empty() {
            sig.generics.where_clause = None;
        }
    }
    let mut v = TypeSubst {
        map: &req.subst,
        n: 0,
        err: None,
    };
    v.visit_signature_mut(sig);
    v.visit_block_mut(block);
    if let Some(e) = v.err {
        return Err(e);
    }
    Ok(n + v.n)
}

#[allow(dead_code)]
pub fn expr_text(e: &syn::Expr) -> String {
    e.to_token_stream().to_string()
}
