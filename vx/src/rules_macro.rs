//! Macro-related rewrites: R4 (match_packet! via a small macro_rules interpreter),
//! R8 (tokio::select!), R13 (format!).

use proc_macro2::{Delimiter, Group, Spacing, TokenStream, TokenTree};
use quote::{quote, ToTokens};
use std::collections::BTreeMap;
use syn::parse::{ParseStream, Parser};
use syn::visit_mut::{self, VisitMut};

// ---------------------------------------------------------------- macro_rules interpreter
#[derive(Debug, Clone)]
enum M {
    Tok(TokenTree),
    Frag { name: String, kind: String },
    Rep { inner: Vec<M>, sep: Option<TokenTree> },
    Group(Delimiter, Vec<M>),
}

struct Arm {
    matcher: Vec<M>,
    transcriber: TokenStream,
}

fn parse_matcher(ts: TokenStream) -> Result<Vec<M>, String> {
    let toks: Vec<TokenTree> = ts.into_iter().collect();
    let mut out = vec![];
    let mut i = 0;
    while i < toks.len() {
        match &toks[i] {
            TokenTree::Punct(p) if p.as_char() == '$' => {
                match toks.get(i + 1) {
                    Some(TokenTree::Ident(name)) => {
                        // $name:kind
                        match (toks.get(i + 2), toks.get(i + 3)) {
                            (Some(TokenTree::Punct(c)), Some(TokenTree::Ident(kind)))
                                if c.as_char() == ':' =>
                            {
                                out.push(M::Frag {
                                    name: name.to_string(),
                                    kind: kind.to_string(),
                                });
                                i += 4;
                            }
                            _ => return Err("macro matcher: `$name` without `:kind`".into()),
                        }
                    }
                    Some(TokenTree::Group(g)) if g.delimiter() == Delimiter::Parenthesis => {
                        let inner = parse_matcher(g.stream())?;
                        // optional separator, then operator
                        let mut j = i + 2;
                        let mut sep = None;
                        match toks.get(j) {
                            Some(TokenTree::Punct(p)) if "*+?".contains(p.as_char()) => {}
                            Some(t) => {
                                sep = Some(t.clone());
                                j += 1;
                            }
                            None => return Err("macro matcher: repetition without operator".into()),
                        }
                        match toks.get(j) {
                            Some(TokenTree::Punct(p)) if p.as_char() == '*' => {}
                            _ => {
                                return Err(
                                    "unsupported: macro repetition operator other than `*`".into()
                                )
                            }
                        }
                        out.push(M::Rep { inner, sep });
                        i = j + 1;
                    }
                    _ => return Err("macro matcher: stray `$`".into()),
                }
            }
            TokenTree::Group(g) => {
                out.push(M::Group(g.delimiter(), parse_matcher(g.stream())?));
                i += 1;
            }
            t => {
                out.push(M::Tok(t.clone()));
                i += 1;
            }
        }
    }
    Ok(out)
}

fn parse_macro_rules(ts: TokenStream) -> Result<Vec<Arm>, String> {
    let toks: Vec<TokenTree> = ts.into_iter().collect();
    let mut arms = vec![];
    let mut i = 0;
    while i < toks.len() {
        let TokenTree::Group(m) = &toks[i] else {
            return Err("macro_rules: expected matcher group".into());
        };
        match (toks.get(i + 1), toks.get(i + 2)) {
            (Some(TokenTree::Punct(a)), Some(TokenTree::Punct(b)))
                if a.as_char() == '=' && b.as_char() == '>' => {}
            _ => return Err("macro_rules: expected `=>`".into()),
        }
        let Some(TokenTree::Group(t)) = toks.get(i + 3) else {
            return Err("macro_rules: expected transcriber group".into());
        };
        arms.push(Arm {
            matcher: parse_matcher(m.stream())?,
            transcriber: t.stream(),
        });
        i += 4;
        if let Some(TokenTree::Punct(p)) = toks.get(i) {
            if p.as_char() == ';' {
                i += 1;
            }
        }
    }
    Ok(arms)
}

#[derive(Default, Clone, Debug)]
struct Bindings {
    one: BTreeMap<String, TokenStream>,
    reps: Vec<BTreeMap<String, TokenStream>>,
}

fn tok_eq(a: &TokenTree, b: &TokenTree) -> bool {
    match (a, b) {
        (TokenTree::Ident(x), TokenTree::Ident(y)) => x == y,
        (TokenTree::Punct(x), TokenTree::Punct(y)) => x.as_char() == y.as_char(),
        (TokenTree::Literal(x), TokenTree::Literal(y)) => x.to_string() == y.to_string(),
        _ => false,
    }
}

fn match_frag(kind: &str, input: ParseStream) -> syn::Result<TokenStream> {
    match kind {
        "expr" => {
            let e: syn::Expr = input.parse()?;
            // keep precedence with a None-delimited group, as rustc does
            let simple = matches!(
                e,
                syn::Expr::Path(_)
                    | syn::Expr::Lit(_)
                    | syn::Expr::Block(_)
                    | syn::Expr::Paren(_)
                    | syn::Expr::MethodCall(_)
                    | syn::Expr::Call(_)
                    | syn::Expr::Field(_)
                    | syn::Expr::Continue(_)
                    | syn::Expr::Break(_)
                    | syn::Expr::Return(_)
                    | syn::Expr::Macro(_)
            );
            if simple {
                Ok(e.to_token_stream())
            } else {
                Ok(TokenTree::Group(Group::new(Delimiter::Parenthesis, e.to_token_stream())).into())
            }
        }
        "pat" => {
            let p = syn::Pat::parse_multi_with_leading_vert(input)?;
            Ok(p.to_token_stream())
        }
        "ty" => {
            let t: syn::Type = input.parse()?;
            Ok(t.to_token_stream())
        }
        "ident" => {
            let t: syn::Ident = input.parse()?;
            Ok(t.to_token_stream())
        }
        "tt" => {
            let t: TokenTree = input.parse()?;
            Ok(t.into())
        }
        other => Err(input.error(format!("unsupported fragment kind `{other}`"))),
    }
}

fn match_seq(
    ms: &[M],
    input: ParseStream,
    one: &mut BTreeMap<String, TokenStream>,
    reps: &mut Vec<BTreeMap<String, TokenStream>>,
) -> syn::Result<()> {
    for m in ms {
        match m {
            M::Tok(t) => {
                // multi-char puncts arrive one char at a time on both sides
                let got: TokenTree = input.parse()?;
                if !tok_eq(t, &got) {
                    return Err(input.error("literal token mismatch"));
                }
            }
            M::Frag { name, kind } => {
                let ts = match_frag(kind, input)?;
                one.insert(name.clone(), ts);
            }
            M::Group(d, inner) => {
                let got: TokenTree = input.parse()?;
                let TokenTree::Group(g) = got else {
                    return Err(input.error("expected group"));
                };
                if g.delimiter() != *d {
                    return Err(input.error("delimiter mismatch"));
                }
                let inner = inner.clone();
                let mut o2 = BTreeMap::new();
                let mut r2 = vec![];
                let parser = |i: ParseStream| -> syn::Result<()> {
                    match_seq(&inner, i, &mut o2, &mut r2)?;
                    if !i.is_empty() {
                        return Err(i.error("trailing tokens in group"));
                    }
                    Ok(())
                };
                parser.parse2(g.stream())?;
                one.extend(o2);
                reps.extend(r2);
            }
            M::Rep { inner, sep } => {
                let mut first = true;
                loop {
                    if input.is_empty() {
                        break;
                    }
                    let fork = input.fork();
                    if !first {
                        if let Some(s) = sep {
                            let got: TokenTree = match fork.parse() {
                                Ok(g) => g,
                                Err(_) => break,
                            };
                            if !tok_eq(s, &got) {
                                break;
                            }
                        }
                    }
                    let mut o2 = BTreeMap::new();
                    let mut r2 = vec![];
                    match match_seq(inner, &fork, &mut o2, &mut r2) {
                        Ok(()) => {
                            if !r2.is_empty() {
                                return Err(input.error("unsupported: nested macro repetition"));
                            }
                            // commit
                            use syn::parse::discouraged::Speculative;
                            input.advance_to(&fork);
                            reps.push(o2);
                            first = false;
                        }
                        Err(_) => break,
                    }
                }
            }
        }
    }
    Ok(())
}

fn transcribe(ts: TokenStream, b: &Bindings, layer: Option<&BTreeMap<String, TokenStream>>) -> Result<TokenStream, String> {
    let toks: Vec<TokenTree> = ts.into_iter().collect();
    let mut out = TokenStream::new();
    let mut i = 0;
    while i < toks.len() {
        match &toks[i] {
            TokenTree::Punct(p) if p.as_char() == '$' => match toks.get(i + 1) {
                Some(TokenTree::Ident(name)) => {
                    let n = name.to_string();
                    let v = layer
                        .and_then(|l| l.get(&n))
                        .or_else(|| b.one.get(&n))
                        .ok_or_else(|| format!("macro transcriber: unbound `${n}`"))?;
                    out.extend(v.clone());
                    i += 2;
                }
                Some(TokenTree::Group(g)) if g.delimiter() == Delimiter::Parenthesis => {
                    let mut j = i + 2;
                    let mut sep = None;
                    match toks.get(j) {
                        Some(TokenTree::Punct(p)) if p.as_char() == '*' => {}
                        Some(t) => {
                            sep = Some(t.clone());
                            j += 1;
                        }
                        None => return Err("macro transcriber: repetition without `*`".into()),
                    }
                    for (k, rep) in b.reps.iter().enumerate() {
                        if k > 0 {
                            if let Some(s) = &sep {
                                out.extend(std::iter::once(s.clone()));
                            }
                        }
                        out.extend(transcribe(g.stream(), b, Some(rep))?);
                    }
                    i = j + 1;
                }
                _ => return Err("macro transcriber: stray `$`".into()),
            },
            TokenTree::Group(g) => {
                let inner = transcribe(g.stream(), b, layer)?;
                let mut ng = Group::new(g.delimiter(), inner);
                ng.set_span(g.span());
                out.extend(std::iter::once(TokenTree::Group(ng)));
                i += 1;
            }
            t => {
                out.extend(std::iter::once(t.clone()));
                i += 1;
            }
        }
    }
    Ok(out)
}

fn expand_once(arms: &[Arm], input: TokenStream) -> Result<TokenStream, String> {
    for arm in arms {
        let mut b = Bindings::default();
        let matcher = arm.matcher.clone();
        let res = {
            let one = &mut b.one;
            let reps = &mut b.reps;
            let parser = |i: ParseStream| -> syn::Result<()> {
                match_seq(&matcher, i, one, reps)?;
                if !i.is_empty() {
                    return Err(i.error("trailing tokens"));
                }
                Ok(())
            };
            parser.parse2(input.clone())
        };
        if res.is_ok() {
            return transcribe(arm.transcriber.clone(), &b, None);
        }
    }
    Err("match_packet!: no macro arm matches the invocation".into())
}

fn is_macro_named(m: &syn::Macro, name: &str) -> bool {
    m.path.segments.last().map(|s| s.ident == name).unwrap_or(false)
}

fn expand_full(arms: &[Arm], name: &str, input: TokenStream, depth: usize) -> Result<syn::Expr, String> {
    if depth > 8 {
        return Err("match_packet!: recursion too deep".into());
    }
    let ts = expand_once(arms, input)?;
    let e: syn::Expr = syn::parse2(ts.clone())
        .map_err(|er| format!("match_packet!: expansion is not an expression: {er}: {ts}"))?;
    if let syn::Expr::Macro(m) = &e {
        if is_macro_named(&m.mac, name) {
            return expand_full(arms, name, m.mac.tokens.clone(), depth + 1);
        }
    }
    Ok(e)
}

struct Expander<'a> {
    arms: &'a [Arm],
    name: &'a str,
    n: usize,
    err: Option<String>,
}
impl<'a> VisitMut for Expander<'a> {
    fn visit_expr_mut(&mut self, e: &mut syn::Expr) {
        if let syn::Expr::Macro(m) = e {
            if is_macro_named(&m.mac, self.name) {
                match expand_full(self.arms, self.name, m.mac.tokens.clone(), 0) {
                    Ok(ne) => {
                        *e = ne;
                        self.n += 1;
                    }
                    Err(er) => {
                        self.err = Some(er);
                        return;
                    }
                }
            }
        }
        visit_mut::visit_expr_mut(self, e);
    }
    fn visit_stmt_mut(&mut self, s: &mut syn::Stmt) {
        if let syn::Stmt::Macro(m) = s {
            if is_macro_named(&m.mac, self.name) {
                match expand_full(self.arms, self.name, m.mac.tokens.clone(), 0) {
                    Ok(ne) => {
                        *s = syn::Stmt::Expr(ne, m.semi_token);
                        self.n += 1;
                    }
                    Err(er) => {
                        self.err = Some(er);
                        return;
                    }
                }
            }
        }
        visit_mut::visit_stmt_mut(self, s);
    }
}

pub fn expand_match_packet(repo: &str, macro_file: &str, block: &mut syn::Block) -> Result<usize, String> {
    let path = format!("{repo}/{macro_file}");
    let src = std::fs::read_to_string(&path).map_err(|e| format!("cannot read {path}: {e}"))?;
    let file = syn::parse_file(&src).map_err(|e| format!("cannot parse {path}: {e}"))?;
    let mut def = None;
    for it in &file.items {
        if let syn::Item::Macro(m) = it {
            if m.ident.as_ref().map(|i| i == "match_packet").unwrap_or(false) {
                def = Some(m.mac.tokens.clone());
            }
        }
    }
    let def = def.ok_or("macro_rules! match_packet not found")?;
    let arms = parse_macro_rules(def)?;
    let mut v = Expander {
        arms: &arms,
        name: "match_packet",
        n: 0,
        err: None,
    };
    v.visit_block_mut(block);
    match v.err {
        Some(e) => Err(e),
        None => Ok(v.n),
    }
}

// ---------------------------------------------------------------- R8 select!
struct SelectArm {
    pat: syn::Pat,
    fut: syn::Expr,
    /// `pat = fut, if pre => body`: the arm takes part only when `pre` holds at entry
    pre: Option<syn::Expr>,
    body: syn::Expr,
}
struct SelectBody {
    biased: bool,
    arms: Vec<SelectArm>,
}
impl syn::parse::Parse for SelectBody {
    fn parse(input: ParseStream) -> syn::Result<Self> {
        // optional `biased;`
        let mut biased = false;
        if input.peek(syn::Ident) && input.peek2(syn::Token![;]) {
            let id: syn::Ident = input.parse()?;
            if id != "biased" {
                return Err(input.error("unexpected ident before `;` in select!"));
            }
            input.parse::<syn::Token![;]>()?;
            biased = true;
        }
        let mut arms = vec![];
        while !input.is_empty() {
            let pat = syn::Pat::parse_single(input)?;
            input.parse::<syn::Token![=]>()?;
            let fut: syn::Expr = input.parse()?;
            let mut pre = None;
            if input.peek(syn::Token![,]) {
                input.parse::<syn::Token![,]>()?;
                input.parse::<syn::Token![if]>()?;
                pre = Some(input.parse::<syn::Expr>()?);
            }
            input.parse::<syn::Token![=>]>()?;
            let body: syn::Expr = if input.peek(syn::token::Brace) {
                let b: syn::ExprBlock = input.parse()?;
                syn::Expr::Block(b)
            } else {
                input.parse()?
            };
            if input.peek(syn::Token![,]) {
                input.parse::<syn::Token![,]>()?;
            }
            arms.push(SelectArm { pat, fut, pre, body });
        }
        if arms.len() < 2 {
            return Err(input.error("select! with fewer than two arms"));
        }
        Ok(SelectBody { biased, arms })
    }
}

/// R8b (rule `select_poll`): the polling order of `select!` is kept. Every arm's future must be a method call `R.m(args)`; its
/// readiness at this poll is asked from the model (`R.vx_ready_m(args, epoch)`, a ghost bool), the winner is chosen by
/// `vx_select_pick2/3(biased, r0, r1, ..)`: a ready arm, and with `biased;` the first ready arm in source order.
fn select_to_expr_poll(ts: TokenStream) -> Result<syn::Expr, String> {
    let sb: SelectBody = syn::parse2(ts).map_err(|e| format!("unsupported select! shape: {e}"))?;
    let n = sb.arms.len();
    if n > 3 {
        return Err("unsupported: select! with more than three arms (select_poll)".into());
    }
    if sb.arms.iter().any(|a| a.pre.is_some()) {
        return Err("unsupported: select! arm precondition (select_poll)".into());
    }
    let biased = sb.biased;
    let mut readies: Vec<syn::Stmt> = vec![];
    let mut rnames: Vec<syn::Ident> = vec![];
    for (i, arm) in sb.arms.iter().enumerate() {
        let syn::Expr::MethodCall(m) = &arm.fut else {
            return Err("unsupported: select! arm future is not a method call (select_poll)".into());
        };
        let rn = syn::Ident::new(&format!("__vx_r{i}"), proc_macro2::Span::call_site());
        let f = syn::Ident::new(&format!("vx_ready_{}", m.method), proc_macro2::Span::call_site());
        let (recv, args) = (&m.receiver, &m.args);
        let call: syn::Expr = if args.is_empty() { syn::parse_quote!((#recv).#f(__vx_sel)) } else { syn::parse_quote!((#recv).#f(#args, __vx_sel)) };
        readies.push(syn::parse_quote!(let #rn = #call;));
        rnames.push(rn);
    }
    let pick = syn::Ident::new(&format!("vx_select_pick{n}"), proc_macro2::Span::call_site());
    let mut acc: Option<syn::Expr> = None;
    for (i, arm) in sb.arms.into_iter().enumerate().rev() {
        let SelectArm { pat, fut, body, .. } = arm;
        let this: syn::Block = syn::parse_quote!({ let #pat = #fut; #body });
        acc = Some(match acc {
            None => syn::Expr::Block(syn::ExprBlock { attrs: vec![], label: None, block: this }),
            Some(rest) => {
                let rest_block: syn::Block = match rest {
                    syn::Expr::Block(b) if b.label.is_none() => b.block,
                    other => syn::parse_quote!({ #other }),
                };
                let lit = syn::LitInt::new(&format!("{i}usize"), proc_macro2::Span::call_site());
                syn::parse_quote!(if __vx_k == #lit #this else #rest_block)
            }
        });
    }
    let chain = acc.unwrap();
    Ok(syn::parse_quote!({
        let __vx_sel = vx_select_enter();
        #(#readies)*
        let __vx_k = #pick(#biased, #(#rnames),*);
        #chain
    }))
}

/// R8c: `self.m()` with `m` in `cancel` -> the statement that models this arm losing the race
fn cancelled_stmt(fut: &syn::Expr, cancel: &[String]) -> Option<syn::Stmt> {
    let syn::Expr::MethodCall(m) = fut else { return None };
    if !cancel.iter().any(|c| m.method == c) || crate::norm(&m.receiver) != "self" || !m.args.is_empty() {
        return None;
    }
    let f = syn::Ident::new(&format!("vx_cancelled_{}", m.method), proc_macro2::Span::call_site());
    Some(syn::parse_quote!(self.#f();))
}

fn select_to_expr(ts: TokenStream, cancel: &[String]) -> Result<syn::Expr, String> {
    let sb: SelectBody = syn::parse2(ts).map_err(|e| format!("unsupported select! shape: {e}"))?;
    let mut acc: Option<syn::Expr> = None;
    let losers: Vec<Option<syn::Stmt>> = sb.arms.iter().map(|a| cancelled_stmt(&a.fut, cancel)).collect();
    let n = sb.arms.len();
    if sb.arms.last().map(|a| a.pre.is_some()).unwrap_or(false) {
        // every arm could be disabled then (tokio panics without an `else` branch): not modelled
        return Err("unsupported: select! whose last arm has a precondition".into());
    }
    for (i, arm) in sb.arms.into_iter().enumerate().rev() {
        let SelectArm { pat, fut, pre, body } = arm;
        // the other arms ran until this one completed: each modelled loser stops between two iterations of its loop
        let lost: Vec<&syn::Stmt> = (0..n).filter(|j| *j != i).filter_map(|j| losers[j].as_ref()).collect();
        let this: syn::Expr = syn::parse_quote!({ #(#lost)* let #pat = #fut; #body });
        acc = Some(match acc {
            None => this,
            Some(rest) => {
                let syn::Expr::Block(tb) = this else { unreachable!() };
                let tblock = tb.block;
                let rest_block: syn::Block = match rest {
                    syn::Expr::Block(b) if b.label.is_none() => b.block,
                    other => syn::parse_quote!({ #other }),
                };
                match pre {
                    // a disabled arm never wins
                    Some(c) => syn::parse_quote!(if (#c) && vx_select_nondet() #tblock else #rest_block),
                    None => syn::parse_quote!(if vx_select_nondet() #tblock else #rest_block),
                }
            }
        });
    }
    Ok(acc.unwrap())
}

struct SelectRewrite {
    n: usize,
    err: Option<String>,
    poll: bool,
    cancel: Vec<String>,
}
fn is_select(m: &syn::Macro) -> bool {
    let p = crate::norm(&m.path);
    p == "tokio::select" || p == "select"
}
impl VisitMut for SelectRewrite {
    fn visit_expr_mut(&mut self, e: &mut syn::Expr) {
        if let syn::Expr::Macro(m) = e {
            if is_select(&m.mac) {
                match (if self.poll { select_to_expr_poll(m.mac.tokens.clone()) } else { select_to_expr(m.mac.tokens.clone(), &self.cancel) }) {
                    Ok(ne) => {
                        *e = ne;
                        self.n += 1;
                    }
                    Err(er) => {
                        self.err = Some(er);
                        return;
                    }
                }
            }
        }
        visit_mut::visit_expr_mut(self, e);
    }
    fn visit_stmt_mut(&mut self, s: &mut syn::Stmt) {
        if let syn::Stmt::Macro(m) = s {
            if is_select(&m.mac) {
                match (if self.poll { select_to_expr_poll(m.mac.tokens.clone()) } else { select_to_expr(m.mac.tokens.clone(), &self.cancel) }) {
                    Ok(ne) => {
                        *s = syn::Stmt::Expr(ne, m.semi_token);
                        self.n += 1;
                    }
                    Err(er) => {
                        self.err = Some(er);
                        return;
                    }
                }
            }
        }
        visit_mut::visit_stmt_mut(self, s);
    }
}
pub fn rewrite_select(block: &mut syn::Block, poll: bool, cancel: &[String]) -> Result<usize, String> {
    let mut v = SelectRewrite { n: 0, err: None, poll, cancel: cancel.to_vec() };
    v.visit_block_mut(block);
    match v.err {
        Some(e) => Err(e),
        None => Ok(v.n),
    }
}

// ---------------------------------------------------------------- R13 format!
struct FormatRewrite {
    n: usize,
    err: Option<String>,
}
struct FormatArgs {
    lit: syn::LitStr,
    args: Vec<syn::Expr>,
}
impl syn::parse::Parse for FormatArgs {
    fn parse(input: ParseStream) -> syn::Result<Self> {
        let lit: syn::LitStr = input.parse()?;
        let mut args = vec![];
        while !input.is_empty() {
            input.parse::<syn::Token![,]>()?;
            if input.is_empty() {
                break;
            }
            args.push(input.parse()?);
        }
        Ok(FormatArgs { lit, args })
    }
}
/// format!("a{}b{x}", e) -> vx_concat(&[ vx_piece("a"), vx_display(&e), vx_piece("b"), vx_display(&x) ])
/// expressed as nested calls so that the Verus prelude can give each piece a spec:
///   vx_fmt2(vx_fmt2(vx_str("a"), vx_show(&e)), ...)
fn format_to_expr(ts: TokenStream) -> Result<syn::Expr, String> {
    let fa: FormatArgs = syn::parse2(ts).map_err(|e| format!("unsupported format! shape: {e}"))?;
    let s = fa.lit.value();
    let mut pieces: Vec<syn::Expr> = vec![];
    let mut cur = String::new();
    let mut chars = s.chars().peekable();
    let mut next_arg = 0usize;
    while let Some(c) = chars.next() {
        match c {
            '{' => {
                if chars.peek() == Some(&'{') {
                    chars.next();
                    cur.push('{');
                    continue;
                }
                let mut name = String::new();
                loop {
                    match chars.next() {
                        Some('}') => break,
                        Some(ch) => name.push(ch),
                        None => return Err("format!: unterminated placeholder".into()),
                    }
                }
                if !cur.is_empty() {
                    let l = syn::LitStr::new(&cur, proc_macro2::Span::call_site());
                    pieces.push(syn::parse_quote!(vx_str(#l)));
                    cur.clear();
                }
                if name.is_empty() {
                    let a = fa
                        .args
                        .get(next_arg)
                        .ok_or("format!: missing positional argument")?;
                    next_arg += 1;
                    pieces.push(syn::parse_quote!(vx_show(&#a)));
                } else if name.chars().all(|ch| ch.is_alphanumeric() || ch == '_') {
                    let id = syn::Ident::new(&name, proc_macro2::Span::call_site());
                    pieces.push(syn::parse_quote!(vx_show(&#id)));
                } else {
                    return Err(format!("unsupported: format! placeholder `{{{name}}}`"));
                }
            }
            '}' => {
                if chars.peek() == Some(&'}') {
                    chars.next();
                }
                cur.push('}');
            }
            other => cur.push(other),
        }
    }
    if !cur.is_empty() {
        let l = syn::LitStr::new(&cur, proc_macro2::Span::call_site());
        pieces.push(syn::parse_quote!(vx_str(#l)));
    }
    if pieces.is_empty() {
        return Ok(syn::parse_quote!(vx_str("")));
    }
    let mut it = pieces.into_iter();
    let mut acc = it.next().unwrap();
    for p in it {
        acc = syn::parse_quote!(vx_fmt2(#acc, #p));
    }
    Ok(acc)
}
impl VisitMut for FormatRewrite {
    fn visit_expr_mut(&mut self, e: &mut syn::Expr) {
        visit_mut::visit_expr_mut(self, e);
        if let syn::Expr::Macro(m) = e {
            if m.mac.path.is_ident("format") {
                match format_to_expr(m.mac.tokens.clone()) {
                    Ok(ne) => {
                        *e = ne;
                        self.n += 1;
                    }
                    Err(er) => self.err = Some(er),
                }
            }
        }
    }
}
pub fn rewrite_format(block: &mut syn::Block) -> Result<usize, String> {
    let mut v = FormatRewrite { n: 0, err: None };
    v.visit_block_mut(block);
    match v.err {
        Some(e) => Err(e),
        None => Ok(v.n),
    }
}

#[allow(dead_code)]
fn _unused() -> TokenStream {
    let _ = Spacing::Alone;
    quote!()
}
