//! Control-flow rewrites: R5 R6 R7 R9 R10 R14 R15 R16, loop numbering, anchors.

use crate::norm;
use std::collections::BTreeMap;
use syn::visit::{self, Visit};
use syn::visit_mut::{self, VisitMut};

// ---------------------------------------------------------------- R5
pub struct ConstPat {
    pub n: usize,
}
impl VisitMut for ConstPat {
    fn visit_expr_mut(&mut self, e: &mut syn::Expr) {
        visit_mut::visit_expr_mut(self, e);
        let syn::Expr::Match(m) = e else { return };
        // scrutinee must be a plain path; every arm but the last a qualified/assoc const path,
        // the last a wildcard; no guards
        if !matches!(&*m.expr, syn::Expr::Path(_)) {
            return;
        }
        if m.arms.len() < 2 {
            return;
        }
        let (last, firsts) = m.arms.split_last().unwrap();
        if !matches!(last.pat, syn::Pat::Wild(_)) || last.guard.is_some() {
            return;
        }
        let mut conds = vec![];
        for a in firsts {
            if a.guard.is_some() {
                return;
            }
            match &a.pat {
                syn::Pat::Path(p) if p.qself.is_some() => {
                    let pe = syn::Expr::Path(syn::ExprPath {
                        attrs: vec![],
                        qself: p.qself.clone(),
                        path: p.path.clone(),
                    });
                    conds.push(pe);
                }
                _ => return,
            }
        }
        let scrut = &m.expr;
        let to_block = |body: &syn::Expr| -> syn::Block {
            match body {
                syn::Expr::Block(b) if b.label.is_none() && b.attrs.is_empty() => b.block.clone(),
                other => syn::parse_quote!({ #other }),
            }
        };
        let mut acc: syn::Expr = {
            let b = to_block(&last.body);
            syn::Expr::Block(syn::ExprBlock {
                attrs: vec![],
                label: None,
                block: b,
            })
        };
        for (a, c) in firsts.iter().zip(conds.iter()).rev() {
            let b = to_block(&a.body);
            acc = syn::parse_quote!(if #scrut == #c #b else #acc);
        }
        *e = acc;
        self.n += 1;
    }
}

// ---------------------------------------------------------------- R9
pub struct LetChain {
    pub n: usize,
    pub err: Option<String>,
}
fn and_operands(e: &syn::Expr, out: &mut Vec<syn::Expr>) {
    if let syn::Expr::Binary(b) = e {
        if matches!(b.op, syn::BinOp::And(_)) {
            and_operands(&b.left, out);
            and_operands(&b.right, out);
            return;
        }
    }
    out.push(e.clone());
}
impl VisitMut for LetChain {
    fn visit_expr_mut(&mut self, e: &mut syn::Expr) {
        visit_mut::visit_expr_mut(self, e);
        let syn::Expr::If(i) = e else { return };
        let mut ops = vec![];
        and_operands(&i.cond, &mut ops);
        if ops.len() < 2 || !ops.iter().any(|o| matches!(o, syn::Expr::Let(_))) {
            return;
        }
        if i.else_branch.is_some() {
            self.err = Some("unsupported: let-chain with else branch".into());
            return;
        }
        // `if a && let P = e && b { T }` == `if a { if let P = e { if b { T } } }` (no else branch: nothing to duplicate)
        let then = &i.then_branch;
        let mut body: syn::Expr = syn::parse_quote!(#then);
        for (k, op) in ops.iter().enumerate().rev() {
            body = if k == 0 { syn::parse_quote!(if #op #body) } else { syn::parse_quote!({ if #op #body }) };
            if k > 0 {
                // `body` must be a block for the enclosing `if`
            }
        }
        *e = body;
        self.n += 1;
    }
}

// ---------------------------------------------------------------- R6
struct HasLabelBreak<'a> {
    label: &'a str,
    found: usize,
}
impl<'a, 'ast> Visit<'ast> for HasLabelBreak<'a> {
    fn visit_expr_break(&mut self, b: &'ast syn::ExprBreak) {
        if let Some(l) = &b.label {
            if l.ident == self.label {
                self.found += 1;
            }
        }
        visit::visit_expr_break(self, b);
    }
}
fn count_breaks_stmt(s: &syn::Stmt, label: &str) -> usize {
    let mut v = HasLabelBreak { label, found: 0 };
    v.visit_stmt(s);
    v.found
}
fn count_breaks_block(b: &syn::Block, label: &str) -> usize {
    let mut v = HasLabelBreak { label, found: 0 };
    v.visit_block(b);
    v.found
}
fn is_label_break(s: &syn::Stmt, label: &str) -> bool {
    match s {
        syn::Stmt::Expr(syn::Expr::Break(b), _) => {
            b.expr.is_none() && b.label.as_ref().map(|l| l.ident == label).unwrap_or(false)
        }
        _ => false,
    }
}

fn nest(stmts: Vec<syn::Stmt>, label: &str) -> Result<Vec<syn::Stmt>, String> {
    let mut out: Vec<syn::Stmt> = vec![];
    let n = stmts.len();
    let mut it = stmts.into_iter().enumerate();
    while let Some((idx, s)) = it.next() {
        if count_breaks_stmt(&s, label) == 0 {
            out.push(s);
            continue;
        }
        let rest: Vec<syn::Stmt> = it.by_ref().map(|(_, s)| s).collect();
        let is_last = idx + 1 == n || rest.is_empty();
        match s {
            // if c { ...; break 'l; }   (no else)  =>  if c { ... } else { rest }
            syn::Stmt::Expr(syn::Expr::If(i), _)
                if i.else_branch.is_none()
                    && i.then_branch
                        .stmts
                        .last()
                        .map(|l| is_label_break(l, label))
                        .unwrap_or(false)
                    && count_breaks_block(&i.then_branch, label) == 1 =>
            {
                let mut then = i.then_branch.clone();
                then.stmts.pop();
                let cond = &i.cond;
                let rest_n = nest(rest, label)?;
                let e: syn::Expr = syn::parse_quote!(if #cond #then else { #(#rest_n)* });
                out.push(syn::Stmt::Expr(e, None));
                return Ok(out);
            }
            // let P = e else { ...; break 'l; };  =>  if let P = e { rest } else { ... }
            syn::Stmt::Local(l)
                if l.init
                    .as_ref()
                    .and_then(|i| i.diverge.as_ref())
                    .map(|(_, d)| match &**d {
                        syn::Expr::Block(b) => {
                            b.block
                                .stmts
                                .last()
                                .map(|x| is_label_break(x, label))
                                .unwrap_or(false)
                                && count_breaks_block(&b.block, label) == 1
                        }
                        _ => false,
                    })
                    .unwrap_or(false) =>
            {
                let init = l.init.as_ref().unwrap();
                let pat = &l.pat;
                let expr = &init.expr;
                let mut els = match &*init.diverge.as_ref().unwrap().1 {
                    syn::Expr::Block(b) => b.block.clone(),
                    _ => unreachable!(),
                };
                els.stmts.pop();
                let rest_n = nest(rest, label)?;
                let e: syn::Expr =
                    syn::parse_quote!(if let #pat = #expr { #(#rest_n)* } else #els);
                out.push(syn::Stmt::Expr(e, None));
                return Ok(out);
            }
            // last statement: if c {A} [else {B}] with breaks deeper inside: recurse (tail position)
            syn::Stmt::Expr(syn::Expr::If(mut i), semi) if is_last => {
                let then_n = nest(i.then_branch.stmts.clone(), label)?;
                i.then_branch.stmts = then_n;
                if let Some((_, eb)) = &mut i.else_branch {
                    match &mut **eb {
                        syn::Expr::Block(b) => {
                            b.block.stmts = nest(b.block.stmts.clone(), label)?;
                        }
                        _ => {
                            return Err(
                                "unsupported: labelled break inside else-if chain".to_string()
                            )
                        }
                    }
                }
                out.push(syn::Stmt::Expr(syn::Expr::If(i), semi));
                out.extend(rest);
                return Ok(out);
            }
            // a bare `break 'l;` in tail position ends the list
            ref st if is_label_break(st, label) && is_last => {
                return Ok(out);
            }
            _ => {
                return Err(format!(
                    "unsupported: `break '{label}` in a position R6 cannot restructure"
                ))
            }
        }
    }
    Ok(out)
}

struct LabelBlocks {
    n: usize,
    err: Option<String>,
}
impl VisitMut for LabelBlocks {
    fn visit_expr_mut(&mut self, e: &mut syn::Expr) {
        visit_mut::visit_expr_mut(self, e);
        if let syn::Expr::Block(b) = e {
            if let Some(l) = &b.label {
                let label = l.name.ident.to_string();
                match nest(b.block.stmts.clone(), &label) {
                    Ok(stmts) => {
                        let nb = syn::Block {
                            brace_token: b.block.brace_token,
                            stmts,
                        };
                        if count_breaks_block(&nb, &label) != 0 {
                            self.err = Some(format!("R6 left a `break '{label}` behind"));
                            return;
                        }
                        b.label = None;
                        b.block = nb;
                        self.n += 1;
                    }
                    Err(er) => self.err = Some(er),
                }
            }
        }
    }
}
pub fn label_blocks(block: &mut syn::Block) -> Result<usize, String> {
    let mut v = LabelBlocks { n: 0, err: None };
    v.visit_block_mut(block);
    match v.err {
        Some(e) => Err(e),
        None => Ok(v.n),
    }
}

// ---------------------------------------------------------------- R16
struct RenameSelf {
    n: usize,
}
impl VisitMut for RenameSelf {
    fn visit_expr_path_mut(&mut self, p: &mut syn::ExprPath) {
        if p.path.is_ident("self") {
            *p = syn::parse_quote!(this);
            self.n += 1;
        }
    }
}
pub fn mut_self(sig: &mut syn::Signature, block: &mut syn::Block) -> Result<usize, String> {
    let mut fired = 0;
    if let Some(syn::FnArg::Receiver(r)) = sig.inputs.first_mut() {
        if r.reference.is_none() && r.mutability.is_some() && r.colon_token.is_none() {
            r.mutability = None;
            let mut v = RenameSelf { n: 0 };
            v.visit_block_mut(block);
            block.stmts.insert(0, syn::parse_quote!(let mut this = self;));
            fired = 1 + v.n;
        }
    }
    Ok(fired)
}

// ---------------------------------------------------------------- R10
struct PinErase {
    n: usize,
}
impl VisitMut for PinErase {
    fn visit_expr_mut(&mut self, e: &mut syn::Expr) {
        visit_mut::visit_expr_mut(self, e);
        match e {
            syn::Expr::MethodCall(m) => {
                // self.get_mut() -> self
                if m.method == "get_mut" && m.args.is_empty() {
                    if let syn::Expr::Path(p) = &*m.receiver {
                        if p.path.is_ident("self") {
                            *e = (*m.receiver).clone();
                            self.n += 1;
                            return;
                        }
                    }
                }
                // Pin::new(&mut X).m(..) -> X.m(..)
                if let syn::Expr::Call(c) = &*m.receiver {
                    if let syn::Expr::Path(p) = &*c.func {
                        if norm(&p.path) == "Pin::new" && c.args.len() == 1 {
                            if let Some(syn::Expr::Reference(r)) = c.args.first() {
                                if r.mutability.is_some() {
                                    m.receiver = r.expr.clone();
                                    self.n += 1;
                                }
                            }
                        }
                    }
                }
            }
            _ => {}
        }
    }
}
pub fn pin_erase(sig: &mut syn::Signature, block: &mut syn::Block) -> Result<usize, String> {
    let mut n = 0;
    if let Some(syn::FnArg::Receiver(r)) = sig.inputs.first_mut() {
        if r.colon_token.is_some() && norm(&r.ty) == "Pin<&mutSelf>" {
            *r = syn::parse_quote!(&mut self);
            n += 1;
        }
    }
    let mut v = PinErase { n: 0 };
    v.visit_block_mut(block);
    Ok(n + v.n)
}

// ---------------------------------------------------------------- R15
struct CipherChunks {
    n: usize,
}
fn cipher_loop(f: &syn::ExprForLoop) -> Option<syn::Expr> {
    // for chunk in X.chunks_mut(BS) { let g = GenericArray::from_mut_slice(chunk); C.encrypt_block_mut(g); }
    let syn::Expr::MethodCall(mc) = &*f.expr else { return None };
    if mc.method != "chunks_mut" || mc.args.len() != 1 {
        return None;
    }
    let syn::Pat::Ident(chunk) = &*f.pat else { return None };
    if f.body.stmts.len() != 2 {
        return None;
    }
    let syn::Stmt::Local(l) = &f.body.stmts[0] else { return None };
    let syn::Pat::Ident(garr) = &l.pat else { return None };
    let init = l.init.as_ref()?;
    let syn::Expr::Call(c) = &*init.expr else { return None };
    let syn::Expr::Path(fp) = &*c.func else { return None };
    if norm(&fp.path) != "GenericArray::from_mut_slice" || c.args.len() != 1 {
        return None;
    }
    if norm(c.args.first()?) != chunk.ident.to_string() {
        return None;
    }
    let syn::Stmt::Expr(syn::Expr::MethodCall(call), Some(_)) = &f.body.stmts[1] else {
        return None;
    };
    if call.args.len() != 1 || norm(call.args.first()?) != garr.ident.to_string() {
        return None;
    }
    let name = call.method.to_string();
    let new_name = match name.as_str() {
        "encrypt_block_mut" => "vx_encrypt_blocks",
        "decrypt_block_mut" => "vx_decrypt_blocks",
        _ => return None,
    };
    let recv = &call.receiver;
    let x = &mc.receiver;
    let bs = mc.args.first()?;
    let m = syn::Ident::new(new_name, proc_macro2::Span::call_site());
    Some(syn::parse_quote!(#recv.#m(&mut #x, #bs)))
}
impl VisitMut for CipherChunks {
    fn visit_block_mut(&mut self, b: &mut syn::Block) {
        for s in b.stmts.iter_mut() {
            if let syn::Stmt::Expr(syn::Expr::ForLoop(f), _) = s {
                if let Some(ne) = cipher_loop(f) {
                    *s = syn::Stmt::Expr(ne, Some(Default::default()));
                    self.n += 1;
                }
            }
        }
        visit_mut::visit_block_mut(self, b);
    }
}
pub fn cipher_chunks(block: &mut syn::Block) -> Result<usize, String> {
    let mut v = CipherChunks { n: 0 };
    v.visit_block_mut(block);
    Ok(v.n)
}

// ---------------------------------------------------------------- R14
struct SpawnInline {
    n: usize,
}
impl VisitMut for SpawnInline {
    fn visit_block_mut(&mut self, b: &mut syn::Block) {
        for s in b.stmts.iter_mut() {
            if let syn::Stmt::Expr(syn::Expr::MethodCall(m), _) = s {
                if m.method == "spawn" && m.args.len() == 1 {
                    if let Some(syn::Expr::Async(a)) = m.args.first() {
                        let mut blk = a.block.clone();
                        // where the per-connection task begins (what runs before it runs in the spawning task)
                        blk.stmts.insert(0, syn::parse_quote!(vx_task_begin();));
                        *s = syn::Stmt::Expr(
                            syn::Expr::Block(syn::ExprBlock {
                                attrs: vec![],
                                label: None,
                                block: blk,
                            }),
                            None,
                        );
                        self.n += 1;
                    }
                }
            }
        }
        visit_mut::visit_block_mut(self, b);
    }
}
pub fn spawn_inline(block: &mut syn::Block) -> Result<usize, String> {
    let mut v = SpawnInline { n: 0 };
    v.visit_block_mut(block);
    Ok(v.n)
}

// ---------------------------------------------------------------- loop numbering + R7
pub struct LoopNumber {
    pub next: usize,
    pub break_value: bool,
    pub auto: BTreeMap<usize, Vec<String>>,
    pub n_bv: usize,
    pub err: Option<String>,
}

struct BreakRewrite {
    var: syn::Ident,
    n: usize,
    labelled_value_break: bool,
}
impl VisitMut for BreakRewrite {
    fn visit_expr_mut(&mut self, e: &mut syn::Expr) {
        match e {
            // do not descend into nested loops / closures / async blocks
            syn::Expr::Loop(_)
            | syn::Expr::While(_)
            | syn::Expr::ForLoop(_)
            | syn::Expr::Closure(_)
            | syn::Expr::Async(_) => {}
            syn::Expr::Break(b) => {
                if b.expr.is_some() {
                    if b.label.is_some() {
                        self.labelled_value_break = true;
                        return;
                    }
                    let mut val = (**b.expr.as_ref().unwrap()).clone();
                    self.visit_expr_mut(&mut val);
                    let var = &self.var;
                    *e = syn::parse_quote!({ #var = Some(#val); break; });
                    self.n += 1;
                }
            }
            _ => visit_mut::visit_expr_mut(self, e),
        }
    }
}

fn loop_marker(k: usize) -> syn::Stmt {
    let lit = syn::LitInt::new(&k.to_string(), proc_macro2::Span::call_site());
    syn::parse_quote!(__vx_loop!(#lit);)
}

impl VisitMut for LoopNumber {
    fn visit_expr_mut(&mut self, e: &mut syn::Expr) {
        match e {
            syn::Expr::Loop(l) => {
                let k = self.next;
                self.next += 1;
                let mut has_val = false;
                let var = syn::Ident::new(&format!("__vx_b{k}"), proc_macro2::Span::call_site());
                if self.break_value {
                    let mut br = BreakRewrite {
                        var: var.clone(),
                        n: 0,
                        labelled_value_break: false,
                    };
                    br.visit_block_mut(&mut l.body);
                    if br.labelled_value_break {
                        self.err = Some("unsupported: labelled break with value".into());
                    }
                    has_val = br.n > 0;
                    self.n_bv += br.n;
                }
                visit_mut::visit_block_mut(self, &mut l.body);
                l.body.stmts.insert(0, loop_marker(k));
                if has_val {
                    self.auto
                        .entry(k)
                        .or_default()
                        .push(format!("{var} is Some"));
                    let lp = syn::Expr::Loop(l.clone());
                    *e = syn::parse_quote!({
                        let mut #var = None;
                        #lp
                        #var.unwrap()
                    });
                }
            }
            syn::Expr::While(w) => {
                let k = self.next;
                self.next += 1;
                self.visit_expr_mut(&mut w.cond);
                visit_mut::visit_block_mut(self, &mut w.body);
                w.body.stmts.insert(0, loop_marker(k));
            }
            syn::Expr::ForLoop(f) => {
                let k = self.next;
                self.next += 1;
                self.visit_expr_mut(&mut f.expr);
                visit_mut::visit_block_mut(self, &mut f.body);
                f.body.stmts.insert(0, loop_marker(k));
            }
            _ => visit_mut::visit_expr_mut(self, e),
        }
    }
}

// ---------------------------------------------------------------- anchors
#[derive(Clone, Debug)]
enum Target {
    Let(String, usize),
    Call(String, usize),
    New(String, usize),
    QCall(String, usize),
    LoopMarker(usize),
}

struct Locator {
    target: Target,
    seen: usize,
    next_block: usize,
    stack: Vec<(usize, usize)>,
    /// path of (block id, stmt idx) from outermost to innermost at the hit
    hit: Option<Vec<(usize, usize)>>,
}
fn pat_binds(p: &syn::Pat, name: &str) -> bool {
    struct V<'a> {
        name: &'a str,
        hit: bool,
    }
    impl<'a, 'ast> Visit<'ast> for V<'a> {
        fn visit_pat_ident(&mut self, p: &'ast syn::PatIdent) {
            if p.ident == self.name {
                self.hit = true;
            }
            visit::visit_pat_ident(self, p);
        }
    }
    let mut v = V { name, hit: false };
    v.visit_pat(p);
    v.hit
}
impl<'ast> Visit<'ast> for Locator {
    fn visit_block(&mut self, b: &'ast syn::Block) {
        let id = self.next_block;
        self.next_block += 1;
        for (i, s) in b.stmts.iter().enumerate() {
            self.stack.push((id, i));
            self.visit_stmt(s);
            self.stack.pop();
        }
    }
    fn visit_local(&mut self, l: &'ast syn::Local) {
        if let Target::Let(name, n) = &self.target {
            if self.hit.is_none() && pat_binds(&l.pat, name) {
                if self.seen == *n {
                    self.hit = Some(self.stack.clone());
                }
                self.seen += 1;
            }
        }
        visit::visit_local(self, l);
    }
    fn visit_expr_method_call(&mut self, m: &'ast syn::ExprMethodCall) {
        // receiver first (source order)
        visit::visit_expr_method_call(self, m);
        if let Target::Call(name, n) = &self.target {
            if self.hit.is_none() && m.method == name {
                if self.seen == *n {
                    self.hit = Some(self.stack.clone());
                }
                self.seen += 1;
            }
        }
    }
    fn visit_expr_call(&mut self, c: &'ast syn::ExprCall) {
        visit::visit_expr_call(self, c);
        if let Target::QCall(name, n) = &self.target {
            // `<some::Type>::f(..)`: match on the last segment of the qualified self type
            if let syn::Expr::Path(p) = &*c.func {
                if let Some(q) = &p.qself {
                    if let syn::Type::Path(tp) = &*q.ty {
                        let last = tp
                            .path
                            .segments
                            .last()
                            .map(|s| s.ident.to_string())
                            .unwrap_or_default();
                        if self.hit.is_none() && &last == name {
                            if self.seen == *n {
                                self.hit = Some(self.stack.clone());
                            }
                            self.seen += 1;
                        }
                    }
                }
            }
        }
        if let Target::Call(name, n) = &self.target {
            if let syn::Expr::Path(p) = &*c.func {
                let last = p
                    .path
                    .segments
                    .last()
                    .map(|s| s.ident.to_string())
                    .unwrap_or_default();
                if self.hit.is_none() && &last == name {
                    if self.seen == *n {
                        self.hit = Some(self.stack.clone());
                    }
                    self.seen += 1;
                }
            }
        }
    }
    fn visit_expr_struct(&mut self, st: &'ast syn::ExprStruct) {
        if let Target::New(name, n) = &self.target {
            let last = st
                .path
                .segments
                .last()
                .map(|s| s.ident.to_string())
                .unwrap_or_default();
            if self.hit.is_none() && &last == name {
                if self.seen == *n {
                    self.hit = Some(self.stack.clone());
                }
                self.seen += 1;
            }
        }
        visit::visit_expr_struct(self, st);
    }
    fn visit_stmt_macro(&mut self, m: &'ast syn::StmtMacro) {
        if let Target::LoopMarker(k) = &self.target {
            if m.mac.path.is_ident("__vx_loop") && norm(&m.mac.tokens) == k.to_string() {
                self.hit = Some(self.stack.clone());
            }
        }
    }
}

struct Inserter {
    block_id: usize,
    index: usize,
    /// usize::MAX-1 = before tail, usize::MAX = end
    next_block: usize,
    stmt: syn::Stmt,
    done: bool,
}
impl VisitMut for Inserter {
    fn visit_block_mut(&mut self, b: &mut syn::Block) {
        let id = self.next_block;
        self.next_block += 1;
        // recurse first with the same numbering order as Locator (pre-order)
        for s in b.stmts.iter_mut() {
            self.visit_stmt_mut(s);
        }
        if id == self.block_id && !self.done {
            let idx = if self.index == usize::MAX {
                match b.stmts.last() {
                    Some(syn::Stmt::Expr(_, None)) => b.stmts.len() - 1,
                    _ => b.stmts.len(),
                }
            } else {
                self.index.min(b.stmts.len())
            };
            b.stmts.insert(idx, self.stmt.clone());
            self.done = true;
        }
    }
}

fn split_count(s: &str) -> (String, usize) {
    match s.rsplit_once('#') {
        Some((a, b)) => match b.parse::<usize>() {
            Ok(n) => (a.to_string(), n),
            Err(_) => (s.to_string(), 0),
        },
        None => (s.to_string(), 0),
    }
}

pub fn place_anchor(block: &mut syn::Block, anchor: &str) -> Result<(), String> {
    place_anchor_as(block, anchor, anchor)
}
/// locate `anchor` (possibly translated to the current names) but emit the marker under the name the contract uses
pub fn place_anchor_as(block: &mut syn::Block, anchor: &str, marker_name: &str) -> Result<(), String> {
    let lit = syn::LitStr::new(marker_name, proc_macro2::Span::call_site());
    let marker: syn::Stmt = syn::parse_quote!(__vx_at!(#lit););
    let (block_id, index) = if anchor == "fn:begin" {
        (0usize, 0usize)
    } else if anchor == "fn:before-tail" {
        (0usize, usize::MAX)
    } else {
        let (kind, rest) = anchor
            .split_once(':')
            .ok_or_else(|| format!("bad anchor `{anchor}`"))?;
        let (target, mode): (Target, &str) = if let Some(k) = kind.strip_prefix("loop#") {
            let k: usize = k.parse().map_err(|_| format!("bad anchor `{anchor}`"))?;
            (Target::LoopMarker(k), rest)
        } else if kind == "after-let" || kind == "before-let" {
            let (name, n) = split_count(rest);
            (
                Target::Let(name, n),
                if kind == "after-let" { "after" } else { "before" },
            )
        } else if kind == "after-qcall" || kind == "before-qcall" {
            let (name, n) = split_count(rest);
            (
                Target::QCall(name, n),
                if kind == "after-qcall" { "after" } else { "before" },
            )
        } else if kind == "after-new" || kind == "before-new" {
            let (name, n) = split_count(rest);
            (
                Target::New(name, n),
                if kind == "after-new" { "after" } else { "before" },
            )
        } else if kind == "after-call" || kind == "before-call" {
            let (name, n) = split_count(rest);
            (
                Target::Call(name, n),
                if kind == "after-call" { "after" } else { "before" },
            )
        } else {
            return Err(format!("bad anchor `{anchor}`"));
        };
        let mut loc = Locator {
            target: target.clone(),
            seen: 0,
            next_block: 0,
            stack: vec![],
            hit: None,
        };
        loc.visit_block(block);
        let path = loc
            .hit
            .ok_or_else(|| format!("lost anchor `{anchor}`: target not found"))?;
        match (&target, mode) {
            (Target::LoopMarker(_), "begin") => {
                let (b, i) = *path.last().unwrap();
                (b, i + 1)
            }
            (Target::LoopMarker(_), "end") => {
                let (b, _) = *path.last().unwrap();
                (b, usize::MAX)
            }
            (Target::LoopMarker(_), "before") | (Target::LoopMarker(_), "after") => {
                if path.len() < 2 {
                    return Err(format!("lost anchor `{anchor}`: loop has no enclosing stmt"));
                }
                let (b, i) = path[path.len() - 2];
                (b, if mode == "before" { i } else { i + 1 })
            }
            (_, "after") => {
                let (b, i) = *path.last().unwrap();
                (b, i + 1)
            }
            (_, "before") => {
                let (b, i) = *path.last().unwrap();
                (b, i)
            }
            _ => return Err(format!("bad anchor `{anchor}`")),
        }
    };
    let mut ins = Inserter {
        block_id,
        index,
        next_block: 0,
        stmt: marker,
        done: false,
    };
    ins.visit_block_mut(block);
    if !ins.done {
        return Err(format!("lost anchor `{anchor}`: block not found"));
    }
    Ok(())
}
