//! vx — mechanical extractor: real functions of /repo -> Verus-acceptable text.
//!
//! Usage: vx <job.json>   (writes a JSON result to stdout)
//!        vx --list <file.rs>   (lists items of a file: impls, fns, structs)
//!
//! vx never pattern-matches on source text: it parses the file with syn,
//! selects items by path, applies the rewrite rules named in the job (and only
//! those), and pretty-prints the result with prettyplease. Every rule that
//! fires is counted in the result so that the evidence can list exactly what
//! the extraction changed. See DESIGN.md §3 for the rule table.

mod rules;
mod select;

use proc_macro2::TokenStream;
use quote::ToTokens;
use serde::{Deserialize, Serialize};
use std::collections::BTreeMap;

#[derive(Deserialize, Debug, Clone)]
pub struct Job {
    pub repo: String,
    pub items: Vec<ItemReq>,
}

#[derive(Deserialize, Debug, Clone, Default)]
pub struct ItemReq {
    pub key: String,
    pub file: String,
    #[serde(default)]
    pub modpath: Vec<String>,
    /// fn | impl_fn | struct | enum | const | impl | type | impl_const
    pub kind: String,
    #[serde(default)]
    pub name: String,
    #[serde(default)]
    pub self_ty: Option<String>,
    #[serde(default, rename = "trait")]
    pub trait_: Option<String>,
    #[serde(default)]
    pub rules: Vec<String>,
    /// type-identifier substitution (R11), e.g. {"S": "Reader"}
    #[serde(default)]
    pub subst: BTreeMap<String, String>,
    /// generic parameters to drop from the signature (R11)
    #[serde(default)]
    pub drop_generics: Vec<String>,
    /// anchors at which a `__vx_at!("..")` marker statement is wanted
    #[serde(default)]
    pub anchors: Vec<String>,
    /// file holding `macro_rules! match_packet` (R4)
    #[serde(default)]
    pub macro_file: Option<String>,
    /// path rewrites for statics (R12): "crypto::ENCODED_PUB" -> "crypto::encoded_pub()"
    #[serde(default)]
    pub statics: BTreeMap<String, String>,
    /// R17b: method name after which a request-builder chain is cut (`cut_chain` rule)
    #[serde(default)]
    pub cut_method: Option<String>,
    /// R32: type ascriptions for the k-th collector (`let mut __vx_out: T`), where inference needs them before the loop
    #[serde(default)]
    pub collect_types: Vec<String>,
    /// R35: type ascriptions for the k-th search accumulator (`let mut __vx_res: T`) of a `max_by_key`
    #[serde(default)]
    pub search_types: Vec<String>,
    /// names the contract text was written against: (kind, identifier) of every parameter, `let` / `if let` / `for` binding of the
    /// function in source order (recorded on the pinned tree). If the current function has the same sequence of kinds, identifiers
    /// that differ are treated as renamed: anchors are translated and the map is returned so that clause text can follow
    #[serde(default)]
    pub expect_names: Vec<(String, String, String)>,
    /// cargo features that are off in the shipped configuration: statements gated on them are dropped (R2)
    #[serde(default)]
    pub off_features: Vec<String>,
    /// R8c: methods `m` of `self` whose future, when it loses a `select!`, is modelled as cancelled between two iterations of
    /// its loop: the winning arm starts with `self.vx_cancelled_m();` (contract = loop invariant of `m`, proved where `m` is verified)
    #[serde(default)]
    pub select_cancel: Vec<String>,
}

#[derive(Serialize, Debug, Default)]
pub struct ItemOut {
    pub key: String,
    pub ok: bool,
    pub error: Option<String>,
    pub kind: String,
    pub file: String,
    pub line_start: usize,
    pub line_end: usize,
    /// for fns
    pub vis: String,
    pub sig: String,
    pub ret: String,
    pub body: String,
    /// for non-fn items
    pub text: String,
    pub loops: usize,
    /// auto-generated loop clauses (R7): loop index -> ensures text
    pub auto_loop_ensures: BTreeMap<usize, Vec<String>>,
    pub rules_fired: BTreeMap<String, usize>,
    pub anchors_placed: Vec<String>,
    /// (kind, identifier) of every parameter and binding, in source order (after the rewrite rules)
    pub names: Vec<(String, String, String)>,
    /// expected identifier -> current identifier, for renamed bindings (only when the shapes agree)
    pub rename: BTreeMap<String, String>,
    /// struct fields (name, type) for generated view functions
    pub fields: Vec<(String, String)>,
    /// enum variants
    pub variants: Vec<String>,
}

pub fn norm(ts: impl ToTokens) -> String {
    let s = ts.to_token_stream().to_string();
    s.chars().filter(|c| !c.is_whitespace()).collect()
}

pub fn print_item(item: syn::Item) -> String {
    let file = syn::File {
        shebang: None,
        attrs: vec![],
        items: vec![item],
    };
    prettyplease::unparse(&file)
}

pub fn print_block(block: &syn::Block) -> String {
    // print as `fn __vx() <block>` and strip the header
    let f: syn::ItemFn = syn::parse_quote! { fn __vx() #block };
    let s = print_item(syn::Item::Fn(f));
    let idx = s.find('{').expect("block brace");
    s[idx..].trim_end().to_string()
}

pub fn print_sig(vis: &syn::Visibility, sig: &syn::Signature) -> (String, String, String) {
    // returns (vis, sig-without-return, return type)
    let mut sig2 = sig.clone();
    let ret = match &sig2.output {
        syn::ReturnType::Default => String::new(),
        syn::ReturnType::Type(_, t) => print_type(t),
    };
    sig2.output = syn::ReturnType::Default;
    let where_clause = sig2.generics.where_clause.take();
    let f = syn::ItemFn {
        attrs: vec![],
        vis: syn::Visibility::Inherited,
        sig: sig2,
        block: Box::new(syn::parse_quote!({})),
    };
    let s = print_item(syn::Item::Fn(f));
    let idx = s.rfind('{').expect("sig brace");
    let mut sigtext = s[..idx].trim_end().to_string();
    if let Some(w) = where_clause {
        if !w.predicates.is_empty() {
            // where clauses are emitted after the return type by the assembler
            sigtext.push_str(&format!(" /*where*/ {}", w.to_token_stream()));
        }
    }
    (vis.to_token_stream().to_string(), sigtext, ret)
}

pub fn print_type(t: &syn::Type) -> String {
    let item: syn::Item = syn::parse_quote! { type __VX = #t; };
    let s = print_item(item);
    let a = s.find('=').unwrap();
    let b = s.rfind(';').unwrap();
    s[a + 1..b].trim().to_string()
}

pub fn parse_type(s: &str) -> Result<syn::Type, String> {
    syn::parse_str::<syn::Type>(s).map_err(|e| format!("bad type `{s}`: {e}"))
}

fn run_item(repo: &str, req: &ItemReq) -> ItemOut {
    let mut out = ItemOut {
        key: req.key.clone(),
        kind: req.kind.clone(),
        file: req.file.clone(),
        ..Default::default()
    };
    match run_item_inner(repo, req, &mut out) {
        Ok(()) => out.ok = true,
        Err(e) => {
            out.ok = false;
            out.error = Some(e);
        }
    }
    out
}

fn run_item_inner(repo: &str, req: &ItemReq, out: &mut ItemOut) -> Result<(), String> {
    let path = format!("{}/{}", repo, req.file);
    let src = std::fs::read_to_string(&path).map_err(|e| format!("cannot read {path}: {e}"))?;
    let file = syn::parse_file(&src).map_err(|e| format!("cannot parse {path}: {e}"))?;
    let sel = select::select(&file, req)?;
    out.line_start = sel.line_start;
    out.line_end = sel.line_end;
    match sel.what {
        select::What::Fn { vis, sig, block } => {
            let mut f = rules::FnUnderEdit {
                vis,
                sig,
                block,
                fired: BTreeMap::new(),
                loops: 0,
                auto_loop_ensures: BTreeMap::new(),
                anchors_placed: vec![],
                names: vec![],
                rename: BTreeMap::new(),
            };
            rules::apply(repo, req, &mut f)?;
            let (v, s, r) = print_sig(&f.vis, &f.sig);
            out.vis = v;
            out.sig = s;
            out.ret = r;
            out.body = print_block(&f.block);
            out.loops = f.loops;
            out.auto_loop_ensures = f.auto_loop_ensures;
            out.rules_fired = f.fired;
            out.anchors_placed = f.anchors_placed;
            out.names = f.names;
            out.rename = f.rename;
        }
        select::What::Item(mut item) => {
            let mut fired = BTreeMap::new();
            rules::apply_item(req, &mut item, &mut fired)?;
            if let syn::Item::Struct(s) = &item {
                for f in s.fields.iter() {
                    let n = f.ident.as_ref().map(|i| i.to_string()).unwrap_or_default();
                    out.fields.push((n, print_type(&f.ty)));
                }
            }
            if let syn::Item::Enum(e) = &item {
                for v in e.variants.iter() {
                    out.variants.push(v.ident.to_string());
                }
            }
            out.text = print_item(item);
            out.rules_fired = fired;
        }
        select::What::Tokens(ts) => {
            out.text = ts.to_string();
        }
    }
    Ok(())
}

fn main() {
    let args: Vec<String> = std::env::args().collect();
    if args.len() == 3 && args[1] == "--list" {
        let src = std::fs::read_to_string(&args[2]).expect("read");
        let file = syn::parse_file(&src).expect("parse");
        let listing = select::list(&file);
        println!("{}", serde_json::to_string_pretty(&listing).unwrap());
        return;
    }
    if args.len() != 2 {
        eprintln!("usage: vx <job.json> | vx --list <file.rs>");
        std::process::exit(2);
    }
    let job_text = std::fs::read_to_string(&args[1]).expect("read job");
    let job: Job = serde_json::from_str(&job_text).expect("parse job");
    let outs: Vec<ItemOut> = job.items.iter().map(|r| run_item(&job.repo, r)).collect();
    println!("{}", serde_json::to_string_pretty(&outs).unwrap());
}

#[allow(dead_code)]
pub fn ts_of(s: &str) -> TokenStream {
    s.parse().expect("tokens")
}
