//! Item selection by path (never by text).

use crate::{norm, ItemReq};
use proc_macro2::TokenStream;
use serde::Serialize;
use syn::spanned::Spanned;

pub enum What {
    Fn {
        vis: syn::Visibility,
        sig: syn::Signature,
        block: syn::Block,
    },
    Item(syn::Item),
    #[allow(dead_code)]
    Tokens(TokenStream),
}

pub struct Selected {
    pub what: What,
    pub line_start: usize,
    pub line_end: usize,
}

fn items_in<'a>(file: &'a syn::File, modpath: &[String]) -> Result<&'a Vec<syn::Item>, String> {
    let mut items = &file.items;
    for m in modpath {
        let mut found = None;
        for it in items {
            if let syn::Item::Mod(im) = it {
                if im.ident == m {
                    if let Some((_, content)) = &im.content {
                        found = Some(content);
                    }
                }
            }
        }
        items = found.ok_or_else(|| format!("module `{m}` not found"))?;
    }
    Ok(items)
}

fn impl_matches(i: &syn::ItemImpl, self_ty: &Option<String>, trait_: &Option<String>) -> bool {
    if let Some(st) = self_ty {
        if &norm(&i.self_ty) != st {
            return false;
        }
    }
    match (trait_, &i.trait_) {
        (Some(t), Some((_, path, _))) => {
            // match on the full normalized path or on its last segment (with generics)
            let full = norm(path);
            let last = path.segments.last().map(norm).unwrap_or_default();
            let last_ident = path
                .segments
                .last()
                .map(|s| s.ident.to_string())
                .unwrap_or_default();
            &full == t || &last == t || &last_ident == t
        }
        (Some(t), None) => t == "-",
        (None, None) => true,
        (None, Some(_)) => self_ty.is_some() && false,
    }
}

pub fn select(file: &syn::File, req: &ItemReq) -> Result<Selected, String> {
    let items = items_in(file, &req.modpath)?;
    let span_lines = |s: proc_macro2::Span| (s.start().line, s.end().line);
    match req.kind.as_str() {
        "fn" => {
            for it in items {
                if let syn::Item::Fn(f) = it {
                    if f.sig.ident == req.name {
                        let (a, b) = span_lines(f.span());
                        return Ok(Selected {
                            what: What::Fn {
                                vis: f.vis.clone(),
                                sig: f.sig.clone(),
                                block: (*f.block).clone(),
                            },
                            line_start: a,
                            line_end: b,
                        });
                    }
                }
            }
            Err(format!("fn `{}` not found in {}", req.name, req.file))
        }
        "impl_fn" => {
            let mut hits = vec![];
            for it in items {
                if let syn::Item::Impl(i) = it {
                    if !impl_matches_loose(i, &req.self_ty, &req.trait_) {
                        continue;
                    }
                    for ii in &i.items {
                        if let syn::ImplItem::Fn(m) = ii {
                            if m.sig.ident == req.name {
                                hits.push(m);
                            }
                        }
                    }
                }
            }
            if hits.len() != 1 {
                return Err(format!(
                    "impl fn `{}` (self_ty={:?}, trait={:?}) matched {} times in {}",
                    req.name,
                    req.self_ty,
                    req.trait_,
                    hits.len(),
                    req.file
                ));
            }
            let m = hits[0];
            let (a, b) = span_lines(m.span());
            Ok(Selected {
                what: What::Fn {
                    vis: m.vis.clone(),
                    sig: m.sig.clone(),
                    block: m.block.clone(),
                },
                line_start: a,
                line_end: b,
            })
        }
        "impl_const" => {
            for it in items {
                if let syn::Item::Impl(i) = it {
                    if !impl_matches_loose(i, &req.self_ty, &req.trait_) {
                        continue;
                    }
                    for ii in &i.items {
                        if let syn::ImplItem::Const(c) = ii {
                            if c.ident == req.name {
                                let (a, b) = span_lines(c.span());
                                let ident = &c.ident;
                                let ty = &c.ty;
                                let expr = &c.expr;
                                let item: syn::Item =
                                    syn::parse_quote! { const #ident: #ty = #expr; };
                                return Ok(Selected {
                                    what: What::Item(item),
                                    line_start: a,
                                    line_end: b,
                                });
                            }
                        }
                    }
                }
            }
            Err(format!(
                "impl const `{}` (self_ty={:?}) not found in {}",
                req.name, req.self_ty, req.file
            ))
        }
        "impl" => {
            let mut hits = vec![];
            for it in items {
                if let syn::Item::Impl(i) = it {
                    if impl_matches(i, &req.self_ty, &req.trait_) {
                        hits.push(i);
                    }
                }
            }
            if hits.len() != 1 {
                return Err(format!(
                    "impl (self_ty={:?}, trait={:?}) matched {} times in {}",
                    req.self_ty,
                    req.trait_,
                    hits.len(),
                    req.file
                ));
            }
            let (a, b) = span_lines(hits[0].span());
            Ok(Selected {
                what: What::Item(syn::Item::Impl(hits[0].clone())),
                line_start: a,
                line_end: b,
            })
        }
        "struct" | "enum" | "const" | "type" | "static" => {
            for it in items {
                let (name, ok) = match it {
                    syn::Item::Struct(s) => (s.ident.to_string(), req.kind == "struct"),
                    syn::Item::Enum(s) => (s.ident.to_string(), req.kind == "enum"),
                    syn::Item::Const(s) => (s.ident.to_string(), req.kind == "const"),
                    syn::Item::Type(s) => (s.ident.to_string(), req.kind == "type"),
                    syn::Item::Static(s) => (s.ident.to_string(), req.kind == "static"),
                    _ => (String::new(), false),
                };
                if ok && name == req.name {
                    let (a, b) = span_lines(it.span());
                    return Ok(Selected {
                        what: What::Item(it.clone()),
                        line_start: a,
                        line_end: b,
                    });
                }
            }
            Err(format!(
                "{} `{}` not found in {} (mod {:?})",
                req.kind, req.name, req.file, req.modpath
            ))
        }
        other => Err(format!("unknown item kind `{other}`")),
    }
}

fn impl_matches_loose(i: &syn::ItemImpl, self_ty: &Option<String>, trait_: &Option<String>) -> bool {
    // like impl_matches, but trait None = "any"
    if let Some(st) = self_ty {
        if &norm(&i.self_ty) != st {
            return false;
        }
    }
    match trait_ {
        None => true,
        Some(_) => impl_matches(i, &None, trait_),
    }
}

#[derive(Serialize)]
pub struct Listing {
    pub modpath: Vec<String>,
    pub kind: String,
    pub name: String,
    pub self_ty: String,
    pub trait_: String,
    pub fns: Vec<String>,
    pub line: usize,
}

pub fn list(file: &syn::File) -> Vec<Listing> {
    let mut out = vec![];
    fn walk(items: &Vec<syn::Item>, modpath: &mut Vec<String>, out: &mut Vec<Listing>) {
        for it in items {
            match it {
                syn::Item::Mod(m) => {
                    // test modules are not part of the running code
                    let is_test = m.attrs.iter().any(|a| norm(a).contains("cfg(test)"));
                    if is_test {
                        continue;
                    }
                    if let Some((_, content)) = &m.content {
                        modpath.push(m.ident.to_string());
                        walk(content, modpath, out);
                        modpath.pop();
                    }
                }
                syn::Item::Impl(i) => {
                    let mut fns = vec![];
                    for ii in &i.items {
                        match ii {
                            syn::ImplItem::Fn(m) => fns.push(m.sig.ident.to_string()),
                            syn::ImplItem::Const(c) => fns.push(format!("const {}", c.ident)),
                            _ => {}
                        }
                    }
                    out.push(Listing {
                        modpath: modpath.clone(),
                        kind: "impl".into(),
                        name: String::new(),
                        self_ty: norm(&i.self_ty),
                        trait_: i.trait_.as_ref().map(|t| norm(&t.1)).unwrap_or_default(),
                        fns,
                        line: i.span().start().line,
                    });
                }
                syn::Item::Fn(f) => out.push(Listing {
                    modpath: modpath.clone(),
                    kind: "fn".into(),
                    name: f.sig.ident.to_string(),
                    self_ty: String::new(),
                    trait_: String::new(),
                    fns: vec![],
                    line: f.span().start().line,
                }),
                syn::Item::Struct(s) => out.push(Listing {
                    modpath: modpath.clone(),
                    kind: "struct".into(),
                    name: s.ident.to_string(),
                    self_ty: String::new(),
                    trait_: String::new(),
                    fns: s
                        .fields
                        .iter()
                        .map(|f| f.ident.as_ref().map(|i| i.to_string()).unwrap_or_default())
                        .collect(),
                    line: s.span().start().line,
                }),
                syn::Item::Const(c) => out.push(Listing {
                    modpath: modpath.clone(),
                    kind: "const".into(),
                    name: c.ident.to_string(),
                    self_ty: String::new(),
                    trait_: String::new(),
                    fns: vec![],
                    line: c.span().start().line,
                }),
                syn::Item::Enum(s) => out.push(Listing {
                    modpath: modpath.clone(),
                    kind: "enum".into(),
                    name: s.ident.to_string(),
                    self_ty: String::new(),
                    trait_: String::new(),
                    fns: s.variants.iter().map(|v| v.ident.to_string()).collect(),
                    line: s.span().start().line,
                }),
                _ => {}
            }
        }
    }
    walk(&file.items, &mut vec![], &mut out);
    out
}
