//! Codec witnesses (C09, C04).
use crate::{cursor, max_alloc, reset_alloc, rt};
use passage_packets::{AsyncReadPacket, AsyncWritePacket};

/// independent reference encoder: little-endian base-128 groups
fn ref_enc(mut n: u128) -> Vec<u8> {
    let mut out = vec![];
    loop {
        let g = (n % 128) as u8;
        n /= 128;
        if n == 0 {
            out.push(g);
            return out;
        }
        out.push(g | 0x80);
    }
}

fn boundary_i64(seed: u64) -> Vec<i64> {
    let mut v = vec![0i64, 1, -1, 127, 128, 255, 256, i64::MAX, i64::MIN, i64::MIN + 1, i32::MAX as i64, i32::MIN as i64];
    for k in 0..64u32 {
        let p = 1i64.wrapping_shl(k);
        v.push(p);
        v.push(p.wrapping_sub(1));
        v.push(p.wrapping_neg());
    }
    let mut x = seed.wrapping_mul(0x9E3779B97F4A7C15) | 1;
    for _ in 0..200 {
        x ^= x << 13;
        x ^= x >> 7;
        x ^= x << 17;
        v.push(x as i64);
    }
    v
}

pub fn varlong_roundtrip(seed: u64) -> usize {
    let rt = rt();
    let mut found = 0;
    for v in boundary_i64(seed) {
        let mut w: Vec<u8> = vec![];
        rt.block_on(w.write_varlong(v)).expect("write");
        let expect = ref_enc((v as u64) as u128);
        if w != expect {
            println!("REPRODUCED varlong write_varlong({v}) -> {w:?}, protocol says {expect:?}");
            found += 1;
            continue;
        }
        let mut w2 = w.clone();
        w2.extend_from_slice(&[0xAA, 0xBB]);
        let mut c = cursor(&w2);
        let r = rt.block_on(c.read_varlong());
        let pos = c.position() as usize;
        match r {
            Ok(x) if x == v && pos == w.len() => {}
            other => {
                println!("REPRODUCED varlong read_varlong(enc({v}) = {w:?}) -> {other:?}, consumed {pos} of {} bytes", w.len());
                found += 1;
                if found >= 3 {
                    break;
                }
            }
        }
    }
    found
}

pub fn varint_roundtrip(seed: u64) -> usize {
    let rt = rt();
    let mut found = 0;
    for v64 in boundary_i64(seed) {
        let v = v64 as i32;
        let mut w: Vec<u8> = vec![];
        rt.block_on(w.write_varint(v)).expect("write");
        let expect = ref_enc((v as u32) as u128);
        if w != expect {
            println!("REPRODUCED varint write_varint({v}) -> {w:?}, protocol says {expect:?}");
            found += 1;
            continue;
        }
        let mut w2 = w.clone();
        w2.extend_from_slice(&[0xAA, 0xBB]);
        let mut c = cursor(&w2);
        let r = rt.block_on(c.read_varint());
        let pos = c.position() as usize;
        match r {
            Ok(x) if x == v && pos == w.len() => {}
            other => {
                println!("REPRODUCED varint read_varint(enc({v}) = {w:?}) -> {other:?}, consumed {pos} of {} bytes", w.len());
                found += 1;
                if found >= 3 {
                    break;
                }
            }
        }
    }
    found
}

/// length prefixes a client can put in front of a string / byte array, followed by a few bytes only
pub fn alloc_bound(_seed: u64) -> usize {
    let mut found = 0;
    let prefixes: Vec<(i32, &str)> = vec![(-1, "-1"), (i32::MIN, "i32::MIN"), (i32::MAX, "2^31-1"), (0x4000_0000, "2^30"), (1 << 24, "2^24")];
    for (len, name) in prefixes {
        for which in ["read_string", "read_bytes"] {
            let mut input = ref_enc((len as u32) as u128);
            input.extend_from_slice(b"abc");
            let inp = input.clone();
            reset_alloc();
            let res = std::panic::catch_unwind(move || {
                let rt = rt();
                let mut c = cursor(&inp);
                if which == "read_string" {
                    rt.block_on(c.read_string()).map(|s| s.len())
                } else {
                    rt.block_on(c.read_bytes()).map(|s| s.len())
                }
            });
            let peak = max_alloc();
            match res {
                Err(_) => {
                    println!("REPRODUCED alloc {which} on {} input bytes with length prefix {name}: PANIC (capacity overflow), largest allocation request {peak} bytes", input.len());
                    found += 1;
                }
                Ok(r) => {
                    if peak > 1 << 20 {
                        println!("REPRODUCED alloc {which} on {} input bytes with length prefix {name}: requested {peak} bytes of memory, result {:?}", input.len(), r.map_err(|e| e.to_string()));
                        found += 1;
                    }
                }
            }
        }
    }
    found
}
