//! C05 witness: a transport that accepts one byte per poll_write / returns Pending every other call.
use passage_protocol::crypto::stream::{create_ciphers, CipherStream};
use std::pin::Pin;
use std::task::{Context, Poll};
use tokio::io::{AsyncRead, AsyncReadExt, AsyncWrite, AsyncWriteExt, ReadBuf};

/// accepts at most `max` bytes per call and returns Pending on every `pend`-th call
struct Trickle { out: std::sync::Arc<std::sync::Mutex<Vec<u8>>>, max: usize, pend: usize, calls: usize }
impl AsyncWrite for Trickle {
    fn poll_write(mut self: Pin<&mut Self>, cx: &mut Context<'_>, buf: &[u8]) -> Poll<std::io::Result<usize>> {
        self.calls += 1;
        if self.pend != 0 && self.calls % self.pend == 0 {
            cx.waker().wake_by_ref();
            return Poll::Pending;
        }
        let n = buf.len().min(self.max);
        self.out.lock().unwrap().extend_from_slice(&buf[..n]);
        Poll::Ready(Ok(n))
    }
    fn poll_flush(self: Pin<&mut Self>, _: &mut Context<'_>) -> Poll<std::io::Result<()>> { Poll::Ready(Ok(())) }
    fn poll_shutdown(self: Pin<&mut Self>, _: &mut Context<'_>) -> Poll<std::io::Result<()>> { Poll::Ready(Ok(())) }
}
impl AsyncRead for Trickle {
    fn poll_read(self: Pin<&mut Self>, _: &mut Context<'_>, _: &mut ReadBuf<'_>) -> Poll<std::io::Result<()>> { Poll::Ready(Ok(())) }
}
/// delivers `chunk` bytes per poll_read
struct Drip { data: Vec<u8>, pos: usize, chunk: usize }
impl AsyncRead for Drip {
    fn poll_read(mut self: Pin<&mut Self>, _: &mut Context<'_>, buf: &mut ReadBuf<'_>) -> Poll<std::io::Result<()>> {
        let n = self.chunk.min(self.data.len() - self.pos).min(buf.remaining());
        let (a, b) = (self.pos, self.pos + n);
        buf.put_slice(&self.data[a..b]);
        self.pos = b;
        Poll::Ready(Ok(()))
    }
}
impl AsyncWrite for Drip {
    fn poll_write(self: Pin<&mut Self>, _: &mut Context<'_>, b: &[u8]) -> Poll<std::io::Result<usize>> { Poll::Ready(Ok(b.len())) }
    fn poll_flush(self: Pin<&mut Self>, _: &mut Context<'_>) -> Poll<std::io::Result<()>> { Poll::Ready(Ok(())) }
    fn poll_shutdown(self: Pin<&mut Self>, _: &mut Context<'_>) -> Poll<std::io::Result<()>> { Poll::Ready(Ok(())) }
}

pub fn schedules(_seed: u64) -> usize {
    let rt = crate::rt();
    let secret = b"verysecuresecret";
    let plain: Vec<u8> = (0..200u32).map(|i| (i * 7 + 3) as u8).collect();
    // reference ciphertext: everything accepted at once
    let run = |max: usize, pend: usize| -> Vec<u8> {
        let out = std::sync::Arc::new(std::sync::Mutex::new(vec![]));
        let o2 = out.clone();
        rt.block_on(async {
            let (e, d) = create_ciphers(secret).unwrap();
            let mut s = CipherStream::new(Trickle { out: o2, max, pend, calls: 0 }, Some(e), Some(d));
            s.write_all(&plain).await.unwrap();
        });
        let v = out.lock().unwrap().clone();
        v
    };
    let reference = run(usize::MAX, 0);
    let mut found = 0;
    for (max, pend) in [(1usize, 0usize), (3, 0), (7, 2), (usize::MAX, 2), (1, 3)] {
        let got = run(max, pend);
        if got != reference {
            let first = got.iter().zip(reference.iter()).position(|(a, b)| a != b);
            println!("REPRODUCED cipher transport accepting <= {max} bytes per write, Pending every {pend} calls: ciphertext differs from the continuous CFB8 stream at byte {first:?} of {}", reference.len());
            found += 1;
        }
    }
    // a write that got Pending is abandoned (its future lost a select!, or hit a timeout) and the next write carries other bytes
    // of the same length: what reaches the wire is the continuous CFB-8 stream of the bytes reported as written, nothing else
    {
        struct PendFirst { out: std::sync::Arc<std::sync::Mutex<Vec<u8>>>, pending_left: usize }
        impl AsyncWrite for PendFirst {
            fn poll_write(mut self: Pin<&mut Self>, _: &mut Context<'_>, buf: &[u8]) -> Poll<std::io::Result<usize>> {
                if self.pending_left > 0 { self.pending_left -= 1; return Poll::Pending; }
                self.out.lock().unwrap().extend_from_slice(buf);
                Poll::Ready(Ok(buf.len()))
            }
            fn poll_flush(self: Pin<&mut Self>, _: &mut Context<'_>) -> Poll<std::io::Result<()>> { Poll::Ready(Ok(())) }
            fn poll_shutdown(self: Pin<&mut Self>, _: &mut Context<'_>) -> Poll<std::io::Result<()>> { Poll::Ready(Ok(())) }
        }
        impl AsyncRead for PendFirst {
            fn poll_read(self: Pin<&mut Self>, _: &mut Context<'_>, _: &mut ReadBuf<'_>) -> Poll<std::io::Result<()>> { Poll::Ready(Ok(())) }
        }
        for (la, lb) in [(10usize, 10usize), (10, 7), (1, 1), (40, 40)] {
            let a: Vec<u8> = (0..la).map(|i| 0xA0 ^ i as u8).collect();
            let b: Vec<u8> = (0..lb).map(|i| 0x5B ^ (3 * i) as u8).collect();
            let c: Vec<u8> = plain[..33].to_vec();
            let out = std::sync::Arc::new(std::sync::Mutex::new(vec![]));
            let abandoned = rt.block_on(async {
                let (e, d) = create_ciphers(secret).unwrap();
                let mut s = CipherStream::new(PendFirst { out: out.clone(), pending_left: 1 }, Some(e), Some(d));
                let waker = std::task::Waker::noop();
                let mut cx = Context::from_waker(waker);
                let first = Pin::new(&mut s).poll_write(&mut cx, &a);
                let abandoned = first.is_pending();
                if let Poll::Ready(Ok(n)) = first { if n < a.len() { s.write_all(&a[n..]).await.unwrap(); } }
                s.write_all(&b).await.unwrap();
                s.write_all(&c).await.unwrap();
                abandoned
            });
            let got = out.lock().unwrap().clone();
            let expect_plain: Vec<u8> = if abandoned { [b.clone(), c.clone()].concat() } else { [a.clone(), b.clone(), c.clone()].concat() };
            let out2 = std::sync::Arc::new(std::sync::Mutex::new(vec![]));
            rt.block_on(async {
                let (e, d) = create_ciphers(secret).unwrap();
                let mut s = CipherStream::new(Trickle { out: out2.clone(), max: usize::MAX, pend: 0, calls: 0 }, Some(e), Some(d));
                s.write_all(&expect_plain).await.unwrap();
            });
            let want = out2.lock().unwrap().clone();
            if got != want {
                let first = got.iter().zip(want.iter()).position(|(x, y)| x != y);
                println!("REPRODUCED cipher a {la}-byte write that got Pending was abandoned, then {lb} other bytes and 33 more were written: the wire differs from the CFB8 stream of the bytes reported as written at byte {first:?} ({} bytes on the wire, {} expected)", got.len(), want.len());
                found += 1;
            }
        }
    }
    // read side: ciphertext delivered in small reads must decrypt to the plaintext
    for chunk in [1usize, 2, 5, 64] {
        let got = rt.block_on(async {
            let (e, d) = create_ciphers(secret).unwrap();
            let mut s = CipherStream::new(Drip { data: reference.clone(), pos: 0, chunk }, Some(e), Some(d));
            let mut out = vec![0u8; plain.len()];
            s.read_exact(&mut out).await.map(|_| out)
        });
        if got.as_ref().ok() != Some(&plain) {
            println!("REPRODUCED cipher reads of {chunk} bytes do not decrypt to the plaintext");
            found += 1;
        }
    }
    // the switch: a stream that starts in the clear and is switched to encryption after `k` bytes were consumed; the transport
    // may deliver the last plaintext bytes and the first ciphertext bytes in the same read (pipelining client, TCP coalescing)
    for k in [1usize, 5, 40] {
        for chunk in [1usize, 3, 64, 4096] {
            for first_read in [1usize, 2, k] {
                let clear: Vec<u8> = (0..k as u32).map(|i| (i * 13 + 1) as u8).collect();
                let mut wire = clear.clone();
                wire.extend_from_slice(&reference);
                let (c2, p2) = (clear.clone(), plain.clone());
                let got: Result<(Vec<u8>, Vec<u8>), std::io::Error> = rt.block_on(async move {
                    let mut s = CipherStream::new(Drip { data: wire, pos: 0, chunk }, None, None);
                    // the clear part is consumed in reads of `first_read` bytes, like read_varint / read_exact do
                    let mut head = vec![0u8; c2.len()];
                    let mut at = 0;
                    while at < head.len() {
                        let n = first_read.min(head.len() - at);
                        s.read_exact(&mut head[at..at + n]).await?;
                        at += n;
                    }
                    let (e, d) = create_ciphers(secret).unwrap();
                    s.set_encryption(Some(e), Some(d));
                    let mut out = vec![0u8; p2.len()];
                    s.read_exact(&mut out).await?;
                    Ok((head, out))
                });
                match got {
                    Ok((h, o)) if h == clear && o == plain => {}
                    _ => {
                        if found < 5 {
                            println!("REPRODUCED cipher switch after {k} clear bytes (transport reads of {chunk} bytes, reader asks for {first_read} at a time): the bytes after the switch do not decrypt to the plaintext");
                        }
                        found += 1;
                    }
                }
            }
        }
    }
    found
}

