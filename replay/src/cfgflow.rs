//! C14 bounded sweep of the configuration flow: `passage::start(config)` with non-default limits on a loopback port; every limit
//! is then observed from a client: the maximum frame length, the connection timeout and the auth cookie expiry (together with the
//! auth secret) must be the configured ones - not the built-in defaults - by the time they are enforced. Finite and stated.

use passage::config::Config;
use passage_packets::handshake::serverbound as hand_in;
use passage_packets::login::clientbound as login_out;
use passage_packets::login::serverbound as login_in;
use passage_packets::{AsyncReadPacket, AsyncWritePacket, ReadPacket, State};
use passage_protocol::cookie::{sign, AuthCookie, AUTH_COOKIE_KEY};
use std::net::SocketAddr;
use std::time::{Duration, SystemTime, UNIX_EPOCH};
use tokio::io::{AsyncReadExt, AsyncWriteExt};
use tokio::net::TcpStream;
use uuid::Uuid;

async fn read_frame(s: &mut TcpStream) -> Result<(i32, std::io::Cursor<Vec<u8>>), String> {
    let len = s.read_varint().await.map_err(|e| e.to_string())?;
    let id = s.read_varint().await.map_err(|e| e.to_string())?;
    let mut body = vec![0u8; (len - 1).max(0) as usize];
    s.read_exact(&mut body).await.map_err(|e| e.to_string())?;
    Ok((id, std::io::Cursor::new(body)))
}

/// transfer-intent login up to the Encryption Request with an auth cookie of the given age; returns `should_authenticate`
async fn cookie_login(address: SocketAddr, secret: &[u8], age: u64) -> Result<bool, String> {
    let mut c = TcpStream::connect(address).await.map_err(|e| e.to_string())?;
    let local = c.local_addr().map_err(|e| e.to_string())?;
    c.write_packet(hand_in::HandshakePacket { protocol_version: 767, server_address: "play.example".into(), server_port: 25565, next_state: State::Transfer }).await.map_err(|e| e.to_string())?;
    c.write_packet(login_in::LoginStartPacket { user_name: "Claimed".into(), user_id: Uuid::from_u128(1) }).await.map_err(|e| e.to_string())?;
    let now = SystemTime::now().duration_since(UNIX_EPOCH).map_err(|e| e.to_string())?.as_secs();
    let cookie = AuthCookie { timestamp: now - age, client_addr: local, user_name: "Claimed".into(), user_id: Uuid::from_u128(1), target: None, profile_properties: vec![], extra: Default::default() };
    let payload = sign(&serde_json::to_vec(&cookie).map_err(|e| e.to_string())?, secret);
    for _ in 0..3 {
        let (id, mut b) = tokio::time::timeout(Duration::from_secs(3), read_frame(&mut c)).await.map_err(|_| "no answer within 3 s".to_string())??;
        match id {
            0x05 => {
                let req = login_out::CookieRequestPacket::read_from_buffer(&mut b).await.map_err(|e| e.to_string())?;
                let payload = if req.key == AUTH_COOKIE_KEY { Some(payload.clone()) } else { None };
                c.write_packet(login_in::CookieResponsePacket { key: req.key, payload }).await.map_err(|e| e.to_string())?;
            }
            0x01 => {
                let enc = login_out::EncryptionRequestPacket::read_from_buffer(&mut b).await.map_err(|e| e.to_string())?;
                return Ok(enc.should_authenticate);
            }
            other => return Err(format!("unexpected packet id {other:#x} before the Encryption Request")),
        }
    }
    Err("no Encryption Request after three packets".into())
}

async fn wait_up(address: SocketAddr) -> bool {
    for _ in 0..300 {
        if let Ok(mut s) = TcpStream::connect(address).await {
            let _ = s.shutdown().await;
            return true;
        }
        tokio::time::sleep(Duration::from_millis(10)).await;
    }
    false
}

pub fn sweep(_seed: u64) -> usize {
    let rt = tokio::runtime::Builder::new_multi_thread().worker_threads(2).enable_all().build().expect("rt");
    let mut found = 0;
    let secret = "cfgflow-secret";
    // (configured expiry, cookie age, the cookie must be accepted): ages on both sides of the configured value and of the built-in default (6 h)
    let cases: [(u64, u64, bool); 5] = [(60, 10, true), (60, 3600, false), (86_400, 7 * 3600, true), (86_400, 90_000, false), (21_600, 3600, true)];
    for expiry in [60u64, 86_400, 21_600] {
        let problems: Vec<String> = rt.block_on(async {
            let mut problems = vec![];
            let port = std::net::TcpListener::bind("127.0.0.1:0").expect("bind").local_addr().unwrap().port();
            let address = SocketAddr::from(([127, 0, 0, 1], port));
            let config = Config { address: address.to_string(), timeout: 2, max_packet_length: 400, auth_cookie_expiry: expiry, auth_secret: Some(secret.to_string()), ..Default::default() };
            let server = tokio::spawn(async move { passage::start(config).await.map_err(|e| e.to_string()) });
            if !wait_up(address).await {
                server.abort();
                return vec!["passage::start did not open its port".to_string()];
            }
            // auth cookie expiry + auth secret
            for (e, age, accept) in cases.iter().filter(|c| c.0 == expiry) {
                match cookie_login(address, secret.as_bytes(), *age).await {
                    Ok(should_auth) if should_auth == *accept => problems.push(format!(
                        "auth_cookie_expiry={e}s, auth_secret set: a correctly signed cookie aged {age}s was {} (should_authenticate={should_auth})",
                        if *accept { "refused although it is younger than the configured expiry" } else { "accepted although it is older than the configured expiry" })),
                    Ok(_) => {}
                    Err(err) => problems.push(format!("auth_cookie_expiry={e}s: login with a cookie aged {age}s failed: {err}")),
                }
            }
            // max_packet_length = 80: a handshake frame of more than 500 bytes must not be answered
            if let Ok(mut c) = TcpStream::connect(address).await {
                let _ = c.write_packet(hand_in::HandshakePacket { protocol_version: 767, server_address: "a".repeat(500), server_port: 25565, next_state: State::Status }).await;
                let _ = c.write_packet(passage_packets::status::serverbound::StatusRequestPacket).await;
                if let Ok(Ok((id, _))) = tokio::time::timeout(Duration::from_secs(1), read_frame(&mut c)).await {
                    problems.push(format!("max_packet_length=400: a handshake frame of more than 500 bytes was answered with packet id {id:#x}"));
                }
            }
            // a frame within the configured maximum is served
            if let Ok(mut c) = TcpStream::connect(address).await {
                let _ = c.write_packet(hand_in::HandshakePacket { protocol_version: 767, server_address: "a".repeat(40), server_port: 25565, next_state: State::Status }).await;
                let _ = c.write_packet(passage_packets::status::serverbound::StatusRequestPacket).await;
                let _ = c.write_packet(passage_packets::status::serverbound::PingPacket { payload: 7 }).await;
                let mut pong = false;
                while let Ok(Ok((id, _))) = tokio::time::timeout(Duration::from_secs(1), read_frame(&mut c)).await { if id == 0x01 { pong = true; } }
                if !pong { problems.push("max_packet_length=400: a status exchange with a 40-byte host name got no Pong".to_string()); }
            }
            // timeout = 2 s: a silent connection is closed after about 2 s (not after the default 120 s)
            if let Ok(mut c) = TcpStream::connect(address).await {
                let started = std::time::Instant::now();
                let mut buf = [0u8; 16];
                match tokio::time::timeout(Duration::from_secs(6), c.read(&mut buf)).await {
                    Ok(_) => {
                        let t = started.elapsed();
                        if t < Duration::from_millis(1500) { problems.push(format!("timeout=2s: a silent connection was closed after {t:?}")); }
                    }
                    Err(_) => problems.push("timeout=2s: a silent connection was still open after 6 s".to_string()),
                }
            }
            server.abort();
            problems
        });
        for p in problems {
            println!("REPRODUCED config_flow passage::start with timeout=2 max_packet_length=400 auth_cookie_expiry={expiry}: {p}");
            found += 1;
        }
    }
    found
}
