//! C18 witness sweep: adapters built from configuration values by the real `DynFilterAdapters::from_config` /
//! `DynStrategyAdapter::from_config` are compared with an independent reference evaluator (written from the property
//! statement) on a fixed, enumerated input space. Finite and stated: not a proof; used to attach a concrete input to a failed
//! obligation of U14 and as the `thorough` sanity sweep of U14's environment contracts.

use passage::adapter::filter::DynFilterAdapters;
use passage::adapter::strategy::DynStrategyAdapter;
use passage::config as cfg;
use passage_adapters::Target;
use passage_adapters::filter::FilterAdapter;
use passage_adapters::strategy::StrategyAdapter;
use std::collections::HashMap;
use std::net::SocketAddr;
use uuid::Uuid;

fn target(id: &str, meta: &[(&str, &str)]) -> Target {
    Target {
        identifier: id.to_string(),
        address: "127.0.0.1:25565".parse().unwrap(),
        meta: meta.iter().map(|(k, v)| (k.to_string(), v.to_string())).collect::<HashMap<_, _>>(),
    }
}

/// reference: one rule on the (possibly missing) value
fn ref_op(op: &cfg::FilterOperation, v: Option<&str>) -> bool {
    match op {
        cfg::FilterOperation::Equals(x) => v == Some(x.as_str()),
        cfg::FilterOperation::NotEquals(x) => v != Some(x.as_str()),
        cfg::FilterOperation::Exists => v.is_some(),
        cfg::FilterOperation::NotExists => v.is_none(),
        cfg::FilterOperation::In(xs) => match v {
            Some(s) => xs.iter().any(|x| x == s),
            None => false,
        },
        cfg::FilterOperation::NotIn(xs) => match v {
            Some(s) => !xs.iter().any(|x| x == s),
            None => true,
        },
    }
}

/// the host-name patterns of this sweep are `^prefix` literals, so the reference needs no regex engine
fn ref_scope(hostname: &Option<String>, host: &str) -> bool {
    match hostname {
        None => true,
        Some(p) => host.starts_with(p.trim_start_matches('^')),
    }
}

fn ref_listed(usernames: &Option<Vec<String>>, username: &Option<String>, ids: &Option<Vec<String>>, name: &str, id: &Uuid) -> bool {
    usernames.as_ref().is_some_and(|xs| xs.iter().any(|x| x == name))
        || username.as_ref().is_some_and(|p| name.starts_with(p.trim_start_matches('^')))
        || ids.as_ref().is_some_and(|xs| xs.iter().any(|x| Uuid::parse_str(x).ok() == Some(*id)))
}

fn ref_qualifies(f: &cfg::OptionFilterAdapter, host: &str, name: &str, id: &Uuid, t: &Target) -> bool {
    if !ref_scope(&f.hostname, host) {
        return true;
    }
    match &f.filter {
        cfg::FilterAdapter::Meta(m) => m.rules.iter().all(|r| ref_op(&r.operation, t.meta.get(&r.key).map(|s| s.as_str()))),
        cfg::FilterAdapter::PlayerAllow(p) => ref_listed(&p.usernames, &p.username, &p.ids, name, id),
        cfg::FilterAdapter::PlayerBlock(p) => !ref_listed(&p.usernames, &p.username, &p.ids, name, id),
    }
}

fn players(t: &Target, field: &str) -> u32 {
    t.meta.get(field).and_then(|s| s.parse::<u32>().ok()).unwrap_or(0)
}

pub fn sweep(_seed: u64) -> usize {
    let rt = crate::rt();
    let client: SocketAddr = "10.0.0.1:40000".parse().unwrap();
    let alice = Uuid::parse_str("00000000-0000-0000-0000-0000000000a1").unwrap();
    let bob = Uuid::parse_str("00000000-0000-0000-0000-0000000000b2").unwrap();
    let s = |x: &str| x.to_string();
    let ops = vec![
        cfg::FilterOperation::Equals(s("a")),
        cfg::FilterOperation::NotEquals(s("a")),
        cfg::FilterOperation::Exists,
        cfg::FilterOperation::NotExists,
        cfg::FilterOperation::In(vec![s("a"), s("b")]),
        cfg::FilterOperation::NotIn(vec![s("a"), s("b")]),
        cfg::FilterOperation::In(vec![]),
        cfg::FilterOperation::NotIn(vec![]),
    ];
    let scopes = [None, Some(s("^lobby")), Some(s("^mini"))];
    // single filters: every operation, allow / block lists by name, pattern and id, each under every scope
    let mut singles: Vec<cfg::OptionFilterAdapter> = vec![];
    for sc in &scopes {
        for op in &ops {
            singles.push(cfg::OptionFilterAdapter {
                hostname: sc.clone(),
                filter: cfg::FilterAdapter::Meta(cfg::MetaFilter { rules: vec![cfg::FilterRule { key: s("k"), operation: op.clone() }] }),
            });
        }
        singles.push(cfg::OptionFilterAdapter {
            hostname: sc.clone(),
            filter: cfg::FilterAdapter::Meta(cfg::MetaFilter {
                rules: vec![
                    cfg::FilterRule { key: s("k"), operation: cfg::FilterOperation::Exists },
                    cfg::FilterRule { key: s("players"), operation: cfg::FilterOperation::NotEquals(s("9")) },
                ],
            }),
        });
        singles.push(cfg::OptionFilterAdapter { hostname: sc.clone(), filter: cfg::FilterAdapter::Meta(cfg::MetaFilter { rules: vec![] }) });
        for (u, p, i) in [
            (Some(vec![s("alice")]), None, None),
            (None, Some(s("^al")), None),
            (None, None, Some(vec![alice.to_string()])),
            (Some(vec![]), None, Some(vec![])),
            (None, None, None),
            (Some(vec![s("bob")]), Some(s("^zz")), Some(vec![bob.to_string(), alice.to_string()])),
        ] {
            singles.push(cfg::OptionFilterAdapter {
                hostname: sc.clone(),
                filter: cfg::FilterAdapter::PlayerAllow(cfg::PlayerAllowFilter { usernames: u.clone(), username: p.clone(), ids: i.clone() }),
            });
            singles.push(cfg::OptionFilterAdapter {
                hostname: sc.clone(),
                filter: cfg::FilterAdapter::PlayerBlock(cfg::PlayerBlockFilter { usernames: u, username: p, ids: i }),
            });
        }
    }
    // two rules on the same key (every ordered pair of operations): all of them must hold
    for a in &ops {
        for b in &ops {
            singles.push(cfg::OptionFilterAdapter {
                hostname: None,
                filter: cfg::FilterAdapter::Meta(cfg::MetaFilter {
                    rules: vec![cfg::FilterRule { key: s("k"), operation: a.clone() }, cfg::FilterRule { key: s("k"), operation: b.clone() }],
                }),
            });
        }
    }
    // three rules, two keys interleaved
    singles.push(cfg::OptionFilterAdapter {
        hostname: None,
        filter: cfg::FilterAdapter::Meta(cfg::MetaFilter {
            rules: vec![
                cfg::FilterRule { key: s("players"), operation: cfg::FilterOperation::Exists },
                cfg::FilterRule { key: s("k"), operation: cfg::FilterOperation::NotEquals(s("c")) },
                cfg::FilterRule { key: s("players"), operation: cfg::FilterOperation::NotIn(vec![s("3")]) },
            ],
        }),
    });
    let targets = vec![
        target("t0", &[]),
        target("t1", &[("k", "a"), ("players", "3")]),
        target("t2", &[("k", "b"), ("players", "9")]),
        target("t3", &[("k", ""), ("players", "x")]),
        target("t4", &[("k", "c"), ("players", "3")]),
        target("t5", &[("other", "a"), ("players", "7")]),
    ];
    let hosts = ["lobby.example.org", "mini.example.org", "other"];
    let users = [("alice", alice), ("bob", bob), ("al", bob), ("Alice", bob), ("BOB", alice)];
    let mut found = 0usize;
    let mut cases = 0usize;
    // chains: every single filter, and every ordered pair taken with stride (keeps the sweep at a few thousand chains)
    let mut chains: Vec<Vec<cfg::OptionFilterAdapter>> = vec![vec![]];
    for f in &singles {
        chains.push(vec![f.clone()]);
    }
    for (i, f) in singles.iter().enumerate() {
        for (j, g) in singles.iter().enumerate() {
            if (i * 7 + j * 3) % 23 == 0 {
                chains.push(vec![f.clone(), g.clone()]);
            }
        }
    }
    let strategies = vec![
        cfg::StrategyAdapter::Any,
        cfg::StrategyAdapter::PlayerFill(cfg::PlayerFillStrategy { field: s("players"), max_players: 8 }),
        cfg::StrategyAdapter::PlayerFill(cfg::PlayerFillStrategy { field: s("players"), max_players: 0 }),
        cfg::StrategyAdapter::PlayerFill(cfg::PlayerFillStrategy { field: s("missing"), max_players: 1 }),
    ];
    for chain in &chains {
        let built = match rt.block_on(DynFilterAdapters::from_config(chain.clone())) {
            Ok(b) => b,
            Err(e) => {
                println!("REPRODUCED filters valid configuration {chain:?} rejected: {e}");
                found += 1;
                continue;
            }
        };
        for host in hosts {
            for (name, id) in &users {
                cases += 1;
                let got = rt.block_on(built.filter(&client, (host, 25565), 770, (name, id), targets.clone()));
                let want: Vec<String> =
                    targets.iter().filter(|t| chain.iter().all(|f| ref_qualifies(f, host, name, id, t))).map(|t| t.identifier.clone()).collect();
                let got_ids: Option<Vec<String>> = got.as_ref().ok().map(|v| v.iter().map(|t| t.identifier.clone()).collect());
                if got_ids.as_ref() != Some(&want) {
                    if found < 5 {
                        println!("REPRODUCED filters chain={chain:?} host={host} player={name}/{id} -> offered {got_ids:?}, qualifying {want:?}");
                    }
                    found += 1;
                    continue;
                }
                let offered: Vec<Target> = got.unwrap();
                for sc in &strategies {
                    let strat = match rt.block_on(DynStrategyAdapter::from_config(sc.clone())) {
                        Ok(x) => x,
                        Err(_) => continue,
                    };
                    let pick = rt.block_on(strat.select(&client, (host, 25565), 770, (name, id), offered.clone()));
                    let pick_id = pick.as_ref().ok().map(|o| o.as_ref().map(|t| t.identifier.clone()));
                    let ok = match sc {
                        cfg::StrategyAdapter::Any => pick_id == Some(want.first().cloned()),
                        cfg::StrategyAdapter::PlayerFill(p) => match &pick_id {
                            Some(Some(id)) => {
                                let t = offered.iter().find(|t| &t.identifier == id);
                                t.is_some_and(|t| {
                                    players(t, &p.field) < p.max_players
                                        && offered.iter().all(|o| players(o, &p.field) >= p.max_players || players(o, &p.field) <= players(t, &p.field))
                                })
                            }
                            Some(None) => offered.iter().all(|o| players(o, &p.field) >= p.max_players),
                            None => false,
                        },
                        _ => true,
                    };
                    if !ok {
                        if found < 5 {
                            println!("REPRODUCED filters strategy={sc:?} offered={want:?} host={host} player={name} -> picked {pick_id:?}");
                        }
                        found += 1;
                    }
                }
            }
        }
    }
    // invalid configurations must be refused
    for bad in [
        cfg::OptionFilterAdapter { hostname: Some(s("(")), filter: cfg::FilterAdapter::Meta(cfg::MetaFilter { rules: vec![] }) },
        cfg::OptionFilterAdapter {
            hostname: None,
            filter: cfg::FilterAdapter::PlayerAllow(cfg::PlayerAllowFilter { usernames: None, username: Some(s("(")), ids: None }),
        },
        cfg::OptionFilterAdapter {
            hostname: None,
            filter: cfg::FilterAdapter::PlayerBlock(cfg::PlayerBlockFilter { usernames: None, username: None, ids: Some(vec![alice.to_string(), s("not-a-uuid")]) }),
        },
    ] {
        cases += 1;
        if rt.block_on(DynFilterAdapters::from_config(vec![bad.clone()])).is_ok() {
            println!("REPRODUCED filters invalid configuration accepted: {bad:?}");
            found += 1;
        }
    }
    eprintln!("filters: {} chains, {cases} cases, {found} mismatches", chains.len());
    found
}
