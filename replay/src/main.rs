//! Replay / witness search against the real crates of /repo.
//!
//! `replay <scenario>` runs one scenario and prints one line per finding:
//!   REPRODUCED <scenario> <concrete input> -> <what the real code did>
//! and exits 0 (nothing reproduced) or 3 (at least one reproduced).
//! Nothing here is a verdict on its own: the checks call it only after a proof
//! obligation failed, to attach a concrete failing input to the violation.

use std::alloc::{GlobalAlloc, Layout, System};
use std::io::Cursor;
use std::sync::atomic::{AtomicUsize, Ordering};

mod admission;
mod assume;
mod agones;
mod filters;
mod fixedloc;
mod cfgflow;
mod cipher;
mod codec;
mod grpc;
mod keepalive;
mod limiter;
mod mojang;
mod conn;
mod packets;

pub struct CountingAlloc;
pub static MAX_REQ: AtomicUsize = AtomicUsize::new(0);
unsafe impl GlobalAlloc for CountingAlloc {
    unsafe fn alloc(&self, l: Layout) -> *mut u8 {
        MAX_REQ.fetch_max(l.size(), Ordering::Relaxed);
        unsafe { System.alloc(l) }
    }
    unsafe fn alloc_zeroed(&self, l: Layout) -> *mut u8 {
        MAX_REQ.fetch_max(l.size(), Ordering::Relaxed);
        unsafe { System.alloc_zeroed(l) }
    }
    unsafe fn dealloc(&self, p: *mut u8, l: Layout) {
        unsafe { System.dealloc(p, l) }
    }
    unsafe fn realloc(&self, p: *mut u8, l: Layout, n: usize) -> *mut u8 {
        MAX_REQ.fetch_max(n, Ordering::Relaxed);
        unsafe { System.realloc(p, l, n) }
    }
}
#[global_allocator]
static A: CountingAlloc = CountingAlloc;

pub fn reset_alloc() {
    MAX_REQ.store(0, Ordering::Relaxed);
}
pub fn max_alloc() -> usize {
    MAX_REQ.load(Ordering::Relaxed)
}

pub fn rt() -> tokio::runtime::Runtime {
    tokio::runtime::Builder::new_current_thread()
        .enable_all()
        .build()
        .expect("runtime")
}

pub fn cursor(b: &[u8]) -> Cursor<Vec<u8>> {
    Cursor::new(b.to_vec())
}

fn main() {
    let args: Vec<String> = std::env::args().collect();
    if args.len() < 2 {
        eprintln!("usage: replay <scenario> [seed]");
        std::process::exit(2);
    }
    let seed: u64 = args.get(2).and_then(|s| s.parse().ok()).unwrap_or(0);
    // keep panics of the code under test quiet; they are reported as findings
    if std::env::var_os("REPLAY_PANIC_VERBOSE").is_none() {
        std::panic::set_hook(Box::new(|_| {}));
    }
    let n = match args[1].as_str() {
        "varint" => codec::varint_roundtrip(seed),
        "varlong" => codec::varlong_roundtrip(seed),
        "alloc" => codec::alloc_bound(seed),
        "packets" => packets::roundtrip(seed),
        "locale" => conn::locale(seed),
        "fixed_locale" => fixedloc::sweep(seed),
        "filters" => filters::sweep(seed),
        "admission" => admission::sweep(seed),
        "assume" => assume::all(seed),
        "shutdown" => admission::shutdown(seed),
        "stall" => admission::stall(seed),
        "drain" => admission::drain(seed),
        "deadline" => admission::deadline(seed),
        "keepalive" => keepalive::sweep(seed),
        "agones" => agones::histories(seed),
        "limits" => conn::limits(seed),
        "config_flow" => cfgflow::sweep(seed),
        "frames" => conn::frames(seed),
        "truncated" => conn::truncated(seed),
        "session" => conn::session(seed),
        "order" => conn::order(seed),
        "enc_response" => conn::enc_response(seed),
        "cookie_matrix" => conn::cookie_matrix(seed),
        "cipher" => cipher::schedules(seed),
        "mojang" => mojang::request(seed),
        "mchash" => mojang::mchash(seed),
        "grpc" => grpc::round_trip(seed),
        "grpc_wire" => grpc::request_wire(seed),
        "limiter_big" => limiter::big_limit(seed),
        "limiter" => limiter::sweep(seed),
        "cookie_unparseable" => conn::cookie_unparseable(seed),
        "malformed" => packets::malformed(seed),
        other => {
            eprintln!("unknown scenario {other}");
            std::process::exit(2);
        }
    };
    if n > 0 {
        std::process::exit(3);
    }
}
