//! C07 bounded stand-in for the wall-clock half of the property (which no contract of a sequential function can state): the real
//! `Connection::listen` under tokio's paused (virtual) clock, with discovery / filter / strategy adapters of configurable latency,
//! a scripted client with an echo policy and a configurable arrival time of Client Information. The timeline of clientbound Keep
//! Alive / Disconnect / Transfer packets is compared with the one the property demands. Finite and stated: not a proof.

use passage_adapters::authentication::Profile;
use passage_adapters::discovery::DiscoveryAdapter;
use passage_adapters::filter::FilterAdapter;
use passage_adapters::strategy::StrategyAdapter;
use passage_adapters::{FixedAuthenticationAdapter, FixedLocalizationAdapter, FixedStatusAdapter, Protocol, Target};
use passage_packets::configuration::clientbound as conf_out;
use passage_packets::configuration::serverbound as conf_in;
use passage_packets::handshake::serverbound as hand_in;
use passage_packets::login::clientbound as login_out;
use passage_packets::login::serverbound as login_in;
use passage_packets::{AsyncReadPacket, AsyncWritePacket, ChatMode, DisplayedSkinParts, MainHand, ParticleStatus, ReadPacket, State};
use passage_protocol::connection::Connection;
use passage_protocol::crypto;
use passage_protocol::crypto::stream::CipherStream;
use std::collections::HashMap;
use std::net::SocketAddr;
use std::str::FromStr;
use std::sync::Arc;
use std::time::Duration;
use tokio::io::AsyncReadExt;
use tokio::time::Instant;
use uuid::Uuid;

#[derive(Debug)]
struct SlowDiscovery(u64, Vec<Target>);
impl DiscoveryAdapter for SlowDiscovery {
    async fn discover(&self) -> passage_adapters::Result<Vec<Target>> {
        tokio::time::sleep(Duration::from_secs(self.0)).await;
        Ok(self.1.clone())
    }
}
#[derive(Debug)]
struct SlowFilter(u64);
impl FilterAdapter for SlowFilter {
    async fn filter(&self, _c: &SocketAddr, _s: (&str, u16), _p: Protocol, _u: (&str, &Uuid), targets: Vec<Target>) -> passage_adapters::Result<Vec<Target>> {
        tokio::time::sleep(Duration::from_secs(self.0)).await;
        Ok(targets)
    }
}
#[derive(Debug)]
struct SlowStrategy(u64);
impl StrategyAdapter for SlowStrategy {
    async fn select(&self, _c: &SocketAddr, _s: (&str, u16), _p: Protocol, _u: (&str, &Uuid), targets: Vec<Target>) -> passage_adapters::Result<Option<Target>> {
        tokio::time::sleep(Duration::from_secs(self.0)).await;
        Ok(targets.first().cloned())
    }
}

#[derive(Clone, Copy, Debug, PartialEq)]
enum Echo {
    Prompt,
    /// echoes after this many seconds (less than a period)
    Delayed(u64),
    Never,
    WrongId,
    /// echoes every Keep Alive twice and sends one unsolicited echo first
    Duplicate,
}

#[derive(Debug, PartialEq, Clone)]
enum Seen {
    KeepAlive(u64),
    Disconnect(u64),
    Transfer(u64, String, u16),
}

async fn read_frame<S: tokio::io::AsyncRead + Unpin + Send + Sync>(s: &mut S) -> Result<(i32, std::io::Cursor<Vec<u8>>), String> {
    let len = s.read_varint().await.map_err(|e| e.to_string())?;
    let id = s.read_varint().await.map_err(|e| e.to_string())?;
    let mut body = vec![0u8; (len - 1).max(0) as usize];
    s.read_exact(&mut body).await.map_err(|e| e.to_string())?;
    Ok((id, std::io::Cursor::new(body)))
}

/// runs one schedule; returns (what the client saw with virtual timestamps in whole seconds, how listen() ended)
async fn run(d: u64, f: u64, s: u64, ci_delay: u64, echo: Echo, login_delay: u64) -> (Vec<Seen>, String, Option<String>) {
    let start = Instant::now();
    let target = Target { identifier: "t".into(), address: SocketAddr::from_str("10.1.2.3:25570").unwrap(), meta: HashMap::new() };
    let (mut client, server_stream) = tokio::io::duplex(1 << 16);
    let mut server = Connection::new(
        server_stream,
        Arc::new(FixedStatusAdapter::default()),
        Arc::new(SlowDiscovery(d, vec![target])),
        Arc::new(SlowFilter(f)),
        Arc::new(SlowStrategy(s)),
        Arc::new(FixedAuthenticationAdapter::new(Profile { id: Uuid::from_u128(7), name: "Authed".into(), properties: vec![], profile_actions: vec![] })),
        Arc::new(FixedLocalizationAdapter::default()),
    )
    .with_client_address(SocketAddr::from_str("127.0.0.1:25564").unwrap());
    let server = tokio::spawn(async move { server.listen().await.map_err(|e| e.to_string()) });
    let mut seen = vec![];
    let res: Result<(), String> = async {
        client.write_packet(hand_in::HandshakePacket { protocol_version: 767, server_address: "play.example".into(), server_port: 25565, next_state: State::Login }).await.map_err(|e| e.to_string())?;
        // a slow login (the client joins the session server first): the configuration phase starts `login_delay` seconds late
        if login_delay > 0 { tokio::time::sleep(Duration::from_secs(login_delay)).await; }
        client.write_packet(login_in::LoginStartPacket { user_name: "Claimed".into(), user_id: Uuid::from_u128(1) }).await.map_err(|e| e.to_string())?;
        let (id, mut b) = read_frame(&mut client).await?;
        if id != 0x05 { return Err(format!("expected cookie request, got {id}")); }
        let req = login_out::CookieRequestPacket::read_from_buffer(&mut b).await.map_err(|e| e.to_string())?;
        client.write_packet(login_in::CookieResponsePacket { key: req.key, payload: None }).await.map_err(|e| e.to_string())?;
        let (id, mut b) = read_frame(&mut client).await?;
        if id != 0x01 { return Err(format!("expected encryption request, got {id}")); }
        let enc = login_out::EncryptionRequestPacket::read_from_buffer(&mut b).await.map_err(|e| e.to_string())?;
        let secret = b"verysecuresecret".to_vec();
        let key = &crypto::KEY_PAIR.1;
        client.write_packet(login_in::EncryptionResponsePacket {
            shared_secret: crypto::encrypt(key, &secret).map_err(|e| e.to_string())?,
            verify_token: crypto::encrypt(key, &enc.verify_token).map_err(|e| e.to_string())?,
        }).await.map_err(|e| e.to_string())?;
        let mut client = CipherStream::from_secret(client, &secret).map_err(|e| e.to_string())?;
        let (id, _b) = read_frame(&mut client).await?;
        if id != 0x02 { return Err(format!("expected login success, got {id}")); }
        client.write_packet(login_in::LoginAcknowledgedPacket).await.map_err(|e| e.to_string())?;
        if echo == Echo::Duplicate {
            client.write_packet(conf_in::KeepAlivePacket { id: 4242 }).await.map_err(|e| e.to_string())?;
        }
        let ci_at = start + Duration::from_secs(login_delay + ci_delay);
        let mut ci_sent = false;
        let mut pending_echo: Option<(Instant, u64)> = None;
        loop {
            // next thing the client has to do by itself
            let next_self = [if ci_sent { None } else { Some(ci_at) }, pending_echo.map(|p| p.0)].into_iter().flatten().min();
            let frame = match next_self {
                Some(at) => match tokio::time::timeout_at(at, read_frame(&mut client)).await { Ok(f) => Some(f?), Err(_) => None },
                None => Some(read_frame(&mut client).await?),
            };
            let now = Instant::now();
            match frame {
                None => {
                    if !ci_sent && now >= ci_at {
                        client.write_packet(conf_in::ClientInformationPacket {
                            locale: "en_US".into(), view_distance: 10, chat_mode: ChatMode::Enabled, chat_colors: false,
                            displayed_skin_parts: DisplayedSkinParts(0), main_hand: MainHand::Left, enable_text_filtering: false,
                            allow_server_listing: false, particle_status: ParticleStatus::All,
                        }).await.map_err(|e| e.to_string())?;
                        ci_sent = true;
                    }
                    if let Some((at, id)) = pending_echo {
                        if now >= at {
                            client.write_packet(conf_in::KeepAlivePacket { id }).await.map_err(|e| e.to_string())?;
                            pending_echo = None;
                        }
                    }
                }
                Some((id, mut b)) => {
                    let t = (now - start).as_secs();
                    match id {
                        0x04 => {
                            let p = conf_out::KeepAlivePacket::read_from_buffer(&mut b).await.map_err(|e| e.to_string())?;
                            seen.push(Seen::KeepAlive(t));
                            match echo {
                                Echo::Prompt => { client.write_packet(conf_in::KeepAlivePacket { id: p.id }).await.map_err(|e| e.to_string())?; }
                                Echo::Duplicate => {
                                    client.write_packet(conf_in::KeepAlivePacket { id: p.id }).await.map_err(|e| e.to_string())?;
                                    client.write_packet(conf_in::KeepAlivePacket { id: p.id }).await.map_err(|e| e.to_string())?;
                                }
                                Echo::Delayed(k) => pending_echo = Some((now + Duration::from_secs(k), p.id)),
                                Echo::WrongId => { client.write_packet(conf_in::KeepAlivePacket { id: p.id.wrapping_add(1) }).await.map_err(|e| e.to_string())?; }
                                Echo::Never => {}
                            }
                        }
                        0x02 => { seen.push(Seen::Disconnect(t)); return Ok(()); }
                        0x0A => {}
                        0x0B => {
                            let p = conf_out::TransferPacket::read_from_buffer(&mut b).await.map_err(|e| e.to_string())?;
                            seen.push(Seen::Transfer(t, p.host, p.port));
                            return Ok(());
                        }
                        other => return Err(format!("unexpected configuration packet id {other}")),
                    }
                }
            }
        }
    }.await;
    let result = match tokio::time::timeout(Duration::from_secs(600), server).await {
        Ok(Ok(Ok(()))) => "Ok".to_string(),
        Ok(Ok(Err(e))) => format!("Err({e})"),
        Ok(Err(e)) => format!("panicked: {e}"),
        Err(_) => "still running".into(),
    };
    (seen, result, res.err())
}

/// what the property demands for this schedule (period 16 s; latencies are chosen so that nothing else falls on a tick)
fn expected(d: u64, f: u64, s: u64, ci: u64, echo: Echo) -> (Vec<Seen>, bool) {
    let end = ci + d + f + s;
    let echoes = matches!(echo, Echo::Prompt | Echo::Delayed(_) | Echo::Duplicate);
    let mut out = vec![];
    let mut t = 16;
    let mut first_unechoed: Option<u64> = None;
    while t < end {
        if let Some(_u) = first_unechoed {
            // the previous Keep Alive is still unechoed when the next one is due: timeout Disconnect, the connection ends
            out.push(Seen::Disconnect(t));
            return (out, false);
        }
        out.push(Seen::KeepAlive(t));
        if !echoes {
            first_unechoed = Some(t);
        }
        t += 16;
    }
    out.push(Seen::Transfer(end, "10.1.2.3".into(), 25570));
    (out, true)
}

pub fn sweep(_seed: u64) -> usize {
    let rt = tokio::runtime::Builder::new_current_thread().enable_all().start_paused(true).build().expect("rt");
    let lat = [0u64, 5, 21, 37];
    let cis = [0u64, 3, 20, 35];
    let echoes = [Echo::Prompt, Echo::Delayed(10), Echo::Never, Echo::WrongId, Echo::Duplicate];
    let mut found = 0;
    let mut cases = 0;
    for &d in &lat {
        for &f in &lat {
            for &s in &lat {
                for &ci in &cis {
                    // keep every routing-stage boundary and the end off the 16 s grid
                    let marks = [ci, ci + d, ci + d + f, ci + d + f + s];
                    if marks.iter().any(|m| m % 16 == 0 && *m != 0) {
                        continue;
                    }
                    for &e in &echoes {
                        cases += 1;
                        let (seen, result, client_err) = rt.block_on(run(d, f, s, ci, e, 0));
                        let (want, ok) = expected(d, f, s, ci, e);
                        let result_ok = if ok { result == "Ok" } else { result.starts_with("Err") };
                        if seen != want || !result_ok {
                            if found < 5 {
                                println!("REPRODUCED keepalive discovery={d}s filter={f}s strategy={s}s client-information-after={ci}s echo={e:?}: client saw {seen:?} and listen() ended with {result} (client: {client_err:?}); the property demands {want:?} and {}", if ok { "Ok" } else { "an error" });
                            }
                            found += 1;
                        }
                    }
                }
            }
        }
    }
    // slow logins: the configuration phase starts L seconds after the connection was opened (more than one period). Here the
    // timeline is not prescribed, only what the property says: gaps of at most 16 s, never a second Keep Alive while one is
    // unechoed, a client that echoes within 10 s is never dropped and gets its Transfer when routing completes, a silent one gets
    // the timeout Disconnect at most 16 s after the Keep Alive it left unechoed
    for &login in &[28u64, 45] {
        for &d in &[0u64, 21] {
            for &f in &[0u64, 21] {
                for &s in &[0u64, 21] {
                    for &ci in &[0u64, 3] {
                        let marks = [login, login + ci, login + ci + d, login + ci + d + f, login + ci + d + f + s];
                        if marks.iter().any(|m| m % 16 == 0) {
                            continue;
                        }
                        for &e in &echoes {
                            cases += 1;
                            let (seen, result, client_err) = rt.block_on(run(d, f, s, ci, e, login));
                            if let Some(why) = violates(login, login + ci + d + f + s, e, &seen, &result) {
                                if found < 5 {
                                    println!("REPRODUCED keepalive login-takes={login}s discovery={d}s filter={f}s strategy={s}s client-information-after={ci}s echo={e:?}: client saw {seen:?} and listen() ended with {result} (client: {client_err:?}): {why}");
                                }
                                found += 1;
                            }
                        }
                    }
                }
            }
        }
    }
    eprintln!("keepalive: {cases} schedules, {found} mismatches");
    found
}

/// the property itself on one observed timeline (configuration phase from `cfg_start`, routing complete at `end`)
fn violates(cfg_start: u64, end: u64, echo: Echo, seen: &[Seen], result: &str) -> Option<String> {
    let echoes = matches!(echo, Echo::Prompt | Echo::Delayed(_) | Echo::Duplicate);
    let mut last = cfg_start; // time of the last Keep Alive (or the start of the phase)
    let mut unechoed: Option<u64> = None;
    for (i, ev) in seen.iter().enumerate() {
        match ev {
            Seen::KeepAlive(t) => {
                if t - last > 16 { return Some(format!("no Keep Alive for {} s (after t={last})", t - last)); }
                if unechoed.is_some() { return Some(format!("a second Keep Alive at t={t} while the one of t={last} is unechoed")); }
                last = *t;
                if !echoes { unechoed = Some(*t); }
            }
            Seen::Disconnect(t) => {
                if echoes { return Some(format!("a client that echoes every Keep Alive within 10 s was dropped at t={t}")); }
                let Some(u) = unechoed else { return Some(format!("timeout Disconnect at t={t} although no Keep Alive is unechoed")) };
                if t - u > 16 { return Some(format!("the Keep Alive of t={u} was left unechoed, the Disconnect came only at t={t}")); }
                if i != seen.len() - 1 || !result.starts_with("Err") { return Some("the connection went on after the timeout Disconnect".into()); }
                return None;
            }
            Seen::Transfer(t, host, port) => {
                if *t != end || host != "10.1.2.3" || *port != 25570 { return Some(format!("Transfer({t}, {host}:{port}) instead of the chosen target at t={end}")); }
                if let Some(u) = unechoed { if t - u > 16 { return Some(format!("the Keep Alive of t={u} was left unechoed for more than 16 s and the client still got its Transfer")); } }
                if t - last > 16 { return Some(format!("no Keep Alive for {} s before the Transfer", t - last)); }
                if i != seen.len() - 1 || result != "Ok" { return Some(format!("listen() ended with {result} after the Transfer")); }
                return None;
            }
        }
    }
    Some("neither Transfer nor Disconnect arrived".into())
}
