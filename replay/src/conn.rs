//! Connection-level witnesses: a scripted client against the real `Connection::listen` over an in-memory duplex.
use passage_adapters::authentication::Profile;
use passage_adapters::{AnyStrategyAdapter, FixedAuthenticationAdapter, FixedDiscoveryAdapter, FixedLocalizationAdapter, FixedStatusAdapter, MetaFilterAdapter, Target};
use passage_packets::configuration::clientbound as conf_out;
use passage_packets::configuration::serverbound as conf_in;
use passage_packets::handshake::serverbound as hand_in;
use passage_packets::login::clientbound as login_out;
use passage_packets::login::serverbound as login_in;
use passage_packets::{AsyncReadPacket, AsyncWritePacket, ChatMode, DisplayedSkinParts, MainHand, ParticleStatus, State};
use passage_protocol::connection::Connection;
use passage_protocol::cookie::{sign, AUTH_COOKIE_KEY, SESSION_COOKIE_KEY};
use passage_protocol::crypto;
use passage_protocol::crypto::stream::CipherStream;
use std::collections::HashMap;
use std::net::SocketAddr;
use std::str::FromStr;
use std::sync::Arc;
use tokio::io::{AsyncReadExt, DuplexStream};
use uuid::Uuid;

pub struct Scenario {
    pub intent: State,
    pub secret: Option<Vec<u8>>,
    pub auth_cookie: Option<Vec<u8>>,
    pub locale: String,
    pub targets: Vec<Target>,
    pub messages: HashMap<String, HashMap<String, String>>,
    pub default_locale: String,
    pub client_addr: SocketAddr,
    pub profile: Profile,
    pub stop_after_encryption_request: bool,
    /// the shared secret the client sends in its Encryption Response (vanilla: 16 bytes)
    pub shared_secret: Vec<u8>,
    /// how the client answers the verify token: 0 = as issued, 1 = last byte dropped, 2 = one byte appended, 3 = first bit flipped, 4 = empty
    pub token_mode: u8,
}

impl Default for Scenario {
    fn default() -> Self {
        Scenario {
            intent: State::Login,
            secret: None,
            auth_cookie: None,
            locale: "en_US".into(),
            targets: vec![],
            messages: HashMap::new(),
            default_locale: "en_us".into(),
            client_addr: SocketAddr::from_str("127.0.0.1:25564").unwrap(),
            profile: Profile { id: Uuid::from_u128(7), name: "Authed".into(), properties: vec![], profile_actions: vec![] },
            stop_after_encryption_request: false,
            shared_secret: b"verysecuresecret".to_vec(),
            token_mode: 0,
        }
    }
}

#[derive(Debug, Default)]
pub struct Transcript {
    pub auth_cookie_requested: bool,
    pub should_authenticate: Option<bool>,
    pub login_success: Option<(String, Uuid)>,
    pub disconnect: Option<String>,
    pub transfer: Option<(String, u16)>,
    pub stored: Vec<(String, Vec<u8>)>,
    pub client_error: Option<String>,
    pub server_result: Option<String>,
}

/// one frame from the server; no scenario of this file legitimately waits longer than 10 s for one (a server that goes silent
/// must not hang the check: the scenario then reports what it saw)
async fn read_frame<S: tokio::io::AsyncRead + Unpin + Send + Sync>(s: &mut S) -> Result<(i32, std::io::Cursor<Vec<u8>>), String> {
    match tokio::time::timeout(std::time::Duration::from_secs(10), read_frame_inner(s)).await {
        Ok(r) => r,
        Err(_) => Err("no frame from the server within 10 s".into()),
    }
}
async fn read_frame_inner<S: tokio::io::AsyncRead + Unpin + Send + Sync>(s: &mut S) -> Result<(i32, std::io::Cursor<Vec<u8>>), String> {
    let len = s.read_varint().await.map_err(|e| e.to_string())?;
    let id = s.read_varint().await.map_err(|e| e.to_string())?;
    let mut body = vec![0u8; (len - 1).max(0) as usize];
    s.read_exact(&mut body).await.map_err(|e| e.to_string())?;
    Ok((id, std::io::Cursor::new(body)))
}

pub async fn run(sc: Scenario) -> Transcript {
    use passage_packets::ReadPacket;
    let mut t = Transcript::default();
    let (mut client, server_stream): (DuplexStream, DuplexStream) = tokio::io::duplex(1 << 16);
    let mut server = Connection::new(
        server_stream,
        Arc::new(FixedStatusAdapter::default()),
        Arc::new(FixedDiscoveryAdapter::new(sc.targets.clone())),
        Arc::new(Vec::<MetaFilterAdapter>::new()),
        Arc::new(AnyStrategyAdapter::new()),
        Arc::new(FixedAuthenticationAdapter::new(sc.profile.clone())),
        Arc::new(FixedLocalizationAdapter::new(sc.default_locale.clone(), sc.messages.clone())),
    )
    .with_client_address(sc.client_addr)
    .with_auth_secret(sc.secret.clone());
    let server = tokio::spawn(async move { server.listen().await.map_err(|e| e.to_string()) });

    let res: Result<(), String> = async {
        client.write_packet(hand_in::HandshakePacket { protocol_version: 767, server_address: "play.example".into(), server_port: 25565, next_state: sc.intent }).await.map_err(|e| e.to_string())?;
        client.write_packet(login_in::LoginStartPacket { user_name: "Claimed".into(), user_id: Uuid::from_u128(1) }).await.map_err(|e| e.to_string())?;
        // session cookie request
        let (id, mut b) = read_frame(&mut client).await?;
        if id != 0x05 { return Err(format!("expected login cookie request, got id {id}")); }
        let req = login_out::CookieRequestPacket::read_from_buffer(&mut b).await.map_err(|e| e.to_string())?;
        if req.key != SESSION_COOKIE_KEY { return Err(format!("expected session cookie request, got {}", req.key)); }
        client.write_packet(login_in::CookieResponsePacket { key: req.key, payload: None }).await.map_err(|e| e.to_string())?;
        // optional auth cookie request, then encryption request
        let (mut id, mut b) = read_frame(&mut client).await?;
        if id == 0x05 {
            let req = login_out::CookieRequestPacket::read_from_buffer(&mut b).await.map_err(|e| e.to_string())?;
            if req.key != AUTH_COOKIE_KEY { return Err(format!("unexpected cookie request {}", req.key)); }
            t.auth_cookie_requested = true;
            client.write_packet(login_in::CookieResponsePacket { key: req.key, payload: sc.auth_cookie.clone() }).await.map_err(|e| e.to_string())?;
            let f = read_frame(&mut client).await?;
            id = f.0;
            b = f.1;
        }
        if id != 0x01 { return Err(format!("expected encryption request, got id {id}")); }
        let enc = login_out::EncryptionRequestPacket::read_from_buffer(&mut b).await.map_err(|e| e.to_string())?;
        t.should_authenticate = Some(enc.should_authenticate);
        if sc.stop_after_encryption_request { return Ok(()); }
        let shared_secret = sc.shared_secret.clone();
        let key = &crypto::KEY_PAIR.1;
        let mut token = enc.verify_token.to_vec();
        match sc.token_mode { 1 => { token.pop(); } 2 => token.push(0), 3 => token[0] ^= 0x80, 4 => token.clear(), _ => {} }
        client.write_packet(login_in::EncryptionResponsePacket {
            shared_secret: crypto::encrypt(key, &shared_secret).map_err(|e| e.to_string())?,
            verify_token: crypto::encrypt(key, &token).map_err(|e| e.to_string())?,
        }).await.map_err(|e| e.to_string())?;
        // a client whose secret has the wrong size keys its side with the first 16 bytes (zero-padded)
        let mut k16 = shared_secret.clone();
        k16.resize(16, 0);
        let mut client = CipherStream::from_secret(client, &k16).map_err(|e| e.to_string())?;
        let (id, mut b) = read_frame(&mut client).await?;
        if id != 0x02 { return Err(format!("expected login success, got id {id}")); }
        let ls = login_out::LoginSuccessPacket::read_from_buffer(&mut b).await.map_err(|e| e.to_string())?;
        t.login_success = Some((ls.user_name, ls.user_id));
        client.write_packet(login_in::LoginAcknowledgedPacket).await.map_err(|e| e.to_string())?;
        client.write_packet(conf_in::ClientInformationPacket {
            locale: sc.locale.clone(), view_distance: 10, chat_mode: ChatMode::Enabled, chat_colors: false,
            displayed_skin_parts: DisplayedSkinParts(0), main_hand: MainHand::Left, enable_text_filtering: false,
            allow_server_listing: false, particle_status: ParticleStatus::All,
        }).await.map_err(|e| e.to_string())?;
        loop {
            let (id, mut b) = read_frame(&mut client).await?;
            match id {
                0x02 => { t.disconnect = Some(conf_out::DisconnectPacket::read_from_buffer(&mut b).await.map_err(|e| e.to_string())?.reason); return Ok(()); }
                0x0A => { let p = conf_out::StoreCookiePacket::read_from_buffer(&mut b).await.map_err(|e| e.to_string())?; t.stored.push((p.key, p.payload)); }
                0x0B => { let p = conf_out::TransferPacket::read_from_buffer(&mut b).await.map_err(|e| e.to_string())?; t.transfer = Some((p.host, p.port)); return Ok(()); }
                0x04 => { let p = conf_out::KeepAlivePacket::read_from_buffer(&mut b).await.map_err(|e| e.to_string())?; client.write_packet(conf_in::KeepAlivePacket { id: p.id }).await.map_err(|e| e.to_string())?; }
                other => return Err(format!("unexpected configuration packet id {other}")),
            }
        }
    }.await;
    if let Err(e) = res { t.client_error = Some(e); }
    t.server_result = Some(match tokio::time::timeout(std::time::Duration::from_secs(5), server).await {
        Ok(Ok(Ok(()))) => "Ok".into(),
        Ok(Ok(Err(e))) => format!("Err({e})"),
        Ok(Err(e)) => format!("panicked: {e}"),
        Err(_) => "still running".into(),
    });
    t
}

/// C03: the Disconnect for "no target" must use the configured message for the locale the client reported
pub fn locale(_seed: u64) -> usize {
    let rt = crate::rt();
    let mut found = 0;
    let mut messages = HashMap::new();
    messages.insert("en_us".to_string(), HashMap::from([("disconnect_no_target".to_string(), "no target (default en_us)".to_string())]));
    messages.insert("de".to_string(), HashMap::from([("disconnect_no_target".to_string(), "kein Ziel (de)".to_string())]));
    messages.insert("fr_FR".to_string(), HashMap::from([("disconnect_no_target".to_string(), "pas de cible (fr_FR)".to_string())]));
    for (loc, expect) in [("de_DE", "kein Ziel (de)"), ("fr_FR", "pas de cible (fr_FR)"), ("de", "kein Ziel (de)"), ("xx_YY", "no target (default en_us)")] {
        let t = rt.block_on(run(Scenario { locale: loc.into(), messages: messages.clone(), ..Default::default() }));
        match &t.disconnect {
            Some(r) if r == expect => {}
            other => {
                println!("REPRODUCED locale client locale {loc:?}, no target chosen: Disconnect reason {other:?}, configured message for that locale is {expect:?} (transfer={:?}, client_error={:?}, server={:?})", t.transfer, t.client_error, t.server_result);
                found += 1;
            }
        }
    }
    found
}

/// C01: Login Success only after an Encryption Response with the issued verify token and a usable (16-byte) shared secret
pub fn enc_response(_seed: u64) -> usize {
    let rt = crate::rt();
    let mut found = 0;
    for (len, mode) in [(0usize, 0u8), (1, 0), (15, 0), (17, 0), (24, 0), (32, 0), (16, 1), (16, 2), (16, 3), (16, 4)] {
        let secret: Vec<u8> = (0..len).map(|i| b'a' + (i % 26) as u8).collect();
        let t = rt.block_on(run(Scenario { shared_secret: secret, token_mode: mode, targets: vec![target("10.0.0.7:25570", "lobby-1")], ..Default::default() }));
        if t.login_success.is_some() || t.transfer.is_some() || t.server_result.as_deref() == Some("Ok") || t.server_result.as_deref().is_some_and(|r| r.starts_with("panicked")) {
            println!("REPRODUCED enc_response shared secret of {len} bytes, verify token mode {mode}: login_success={:?} transfer={:?} server={:?}", t.login_success, t.transfer, t.server_result);
            found += 1;
        }
    }
    found
}

/// C02: a cookie with a valid tag that does not parse must lead to "told to authenticate", not to a dead connection
pub fn cookie_unparseable(_seed: u64) -> usize {
    let rt = crate::rt();
    let secret = b"cookie-secret".to_vec();
    let mut found = 0;
    for body in [b"x".to_vec(), b"{\"timestamp\":1}".to_vec(), vec![]] {
        let cookie = sign(&body, &secret);
        let t = rt.block_on(run(Scenario { intent: State::Transfer, secret: Some(secret.clone()), auth_cookie: Some(cookie), stop_after_encryption_request: true, ..Default::default() }));
        if t.should_authenticate != Some(true) {
            println!("REPRODUCED cookie_unparseable transfer with correctly tagged cookie over {:?}: client was not told to authenticate: should_authenticate={:?}, client_error={:?}, server={:?}", String::from_utf8_lossy(&body), t.should_authenticate, t.client_error, t.server_result);
            found += 1;
        }
    }
    found
}

/// C14: a listener configured with a small maximum frame length must refuse longer frames
pub fn limits(_seed: u64) -> usize {
    use passage_protocol::listener::Listener;
    use tokio::io::AsyncWriteExt;
    use tokio::net::TcpStream;
    use tokio_util::sync::CancellationToken;
    let rt = tokio::runtime::Builder::new_multi_thread().worker_threads(2).enable_all().build().expect("rt");
    let mut found = 0;
    rt.block_on(async {
        let stop = CancellationToken::new();
        let stop2 = stop.clone();
        let port = 39571u16;
        let server = tokio::spawn(async move {
            let mut l = Listener::new(
                Arc::new(FixedStatusAdapter::default()),
                Arc::new(FixedDiscoveryAdapter::new(vec![])),
                Arc::new(Vec::<MetaFilterAdapter>::new()),
                Arc::new(AnyStrategyAdapter::new()),
                Arc::new(FixedAuthenticationAdapter::default()),
                Arc::new(FixedLocalizationAdapter::default()),
            )
            .with_max_packet_length(64)
            .with_connection_timeout(std::time::Duration::from_secs(3));
            let _ = l.listen(("127.0.0.1", port), stop2).await.map_err(|e| e.to_string());
        });
        tokio::time::sleep(std::time::Duration::from_millis(300)).await;
        let mut c = match TcpStream::connect(("127.0.0.1", port)).await { Ok(c) => c, Err(e) => { eprintln!("connect failed: {e}"); return; } };
        // a 100+ byte handshake frame (status intent), then a status request
        let long = "a".repeat(100);
        let _ = c.write_packet(hand_in::HandshakePacket { protocol_version: 767, server_address: long, server_port: 25565, next_state: State::Status }).await;
        let _ = c.write_packet(passage_packets::status::serverbound::StatusRequestPacket).await;
        let _ = c.flush().await;
        let got = tokio::time::timeout(std::time::Duration::from_secs(2), read_frame(&mut c)).await;
        match got {
            Ok(Ok((id, _))) => {
                println!("REPRODUCED limits listener configured with max_packet_length=64 accepted a handshake frame of >100 bytes and answered with packet id {id:#x}");
                found += 1;
            }
            _ => {}
        }
        stop.cancel();
        let _ = tokio::time::timeout(std::time::Duration::from_secs(5), server).await;
    });
    found
}

fn target(addr: &str, id: &str) -> Target {
    Target { identifier: id.into(), address: SocketAddr::from_str(addr).unwrap(), meta: Default::default() }
}

/// C01/C03/C06/C10: a complete login, then a transfer with the stored cookie; checks identity, cookies, transfer target
pub fn session(_seed: u64) -> usize {
    use passage_protocol::cookie::{verify, AuthCookie, SessionCookie};
    let rt = crate::rt();
    let mut found = 0;
    let secret = b"cookie-secret".to_vec();
    for addr in ["10.0.0.7:25570", "[2001:db8::7]:25571"] {
        let sc = Scenario { secret: Some(secret.clone()), targets: vec![target(addr, "lobby-1"), target("10.9.9.9:1", "other")], ..Default::default() };
        let profile = sc.profile.clone();
        let t = rt.block_on(run(sc));
        let want = SocketAddr::from_str(addr).unwrap();
        // C01: the authenticated identity, not the claimed one
        if t.login_success != Some((profile.name.clone(), profile.id)) {
            println!("REPRODUCED session LoginSuccess carries {:?}, the authentication service vouched for {:?}/{}", t.login_success, profile.name, profile.id);
            found += 1;
        }
        // C03: exactly the chosen target, as last packet
        if t.transfer != Some((want.ip().to_string(), want.port())) {
            println!("REPRODUCED session Transfer {:?}, the strategy chose {want} (client_error={:?}, server={:?})", t.transfer, t.client_error, t.server_result);
            found += 1;
        }
        // C10: auth cookie then session cookie, both before the transfer
        let keys: Vec<&str> = t.stored.iter().map(|(k, _)| k.as_str()).collect();
        if keys != vec![AUTH_COOKIE_KEY, SESSION_COOKIE_KEY] {
            println!("REPRODUCED session stored cookies {keys:?}, expected [auth, session]");
            found += 1;
            continue;
        }
        let (ok, body) = verify(&t.stored[0].1, &secret);
        let parsed: Option<AuthCookie> = serde_json::from_slice(body).ok();
        match (&parsed, ok) {
            (Some(c), true) if c.user_name == profile.name && c.user_id == profile.id && c.client_addr.ip() == SocketAddr::from_str("127.0.0.1:25564").unwrap().ip() && c.target.as_deref() == Some("lobby-1") => {}
            _ => { println!("REPRODUCED session auth cookie does not verify or does not record the authenticated identity/target: ok={ok} cookie={:?}", parsed.map(|c| (c.user_name, c.target))); found += 1; }
        }
        let sess: Option<SessionCookie> = serde_json::from_slice(&t.stored[1].1).ok();
        if sess.as_ref().map(|s| (s.server_address.as_str(), s.server_port)) != Some(("play.example", 25565)) {
            println!("REPRODUCED session session cookie does not carry the handshake host/port");
            found += 1;
        }
        // C02/C10: the cookie is accepted on the next transfer from the same IP and yields the same identity
        let sc2 = Scenario { intent: State::Transfer, secret: Some(secret.clone()), auth_cookie: Some(t.stored[0].1.clone()), targets: vec![target(addr, "lobby-1")], ..Default::default() };
        let t2 = rt.block_on(run(sc2));
        if t2.should_authenticate != Some(false) || t2.login_success != Some((profile.name.clone(), profile.id)) {
            println!("REPRODUCED session a freshly issued cookie was not accepted on the next transfer: should_authenticate={:?} login={:?}", t2.should_authenticate, t2.login_success);
            found += 1;
        }
        if t2.stored.iter().any(|(k, _)| k == AUTH_COOKIE_KEY) {
            println!("REPRODUCED session an auth cookie was re-issued although authentication was skipped");
            found += 1;
        }
    }
    // C10: the tag of an issued cookie is HMAC-SHA256 under exactly the configured secret (checked independently), for secrets
    // shorter than, equal to and longer than the 64-byte block of SHA-256
    for n in [1usize, 6, 63, 64, 65, 96, 200] {
        use hmac::{Hmac, Mac};
        let long: Vec<u8> = (0..n).map(|i| (i * 11 + 5) as u8).collect();
        let t = rt.block_on(run(Scenario { secret: Some(long.clone()), targets: vec![target("10.0.0.7:25570", "lobby-1")], ..Default::default() }));
        match t.stored.iter().find(|(k, _)| k == AUTH_COOKIE_KEY) {
            Some((_, payload)) if payload.len() > 32 => {
                let mut mac = Hmac::<sha2::Sha256>::new_from_slice(&long).expect("hmac key");
                mac.update(&payload[32..]);
                if mac.finalize().into_bytes().as_slice() != &payload[..32] {
                    println!("REPRODUCED session the tag of the auth cookie issued under a {n}-byte secret is not HMAC-SHA256(secret, cookie)");
                    found += 1;
                }
            }
            _ => { println!("REPRODUCED session no auth cookie was issued under a {n}-byte secret"); found += 1; }
        }
    }
    // C10: no secret, no auth cookie
    let t = rt.block_on(run(Scenario { targets: vec![target("10.0.0.7:25570", "lobby-1")], ..Default::default() }));
    if t.stored.iter().any(|(k, _)| k == AUTH_COOKIE_KEY) { println!("REPRODUCED session auth cookie issued without a configured secret"); found += 1; }
    found
}

/// C02: the matrix of unacceptable cookies: each must lead to should_authenticate = true
pub fn cookie_matrix(_seed: u64) -> usize {
    use passage_protocol::cookie::AuthCookie;
    let rt = crate::rt();
    let secret = b"cookie-secret".to_vec();
    let now = std::time::SystemTime::now().duration_since(std::time::UNIX_EPOCH).unwrap().as_secs();
    let mk = |ts: u64, addr: &str| -> Vec<u8> {
        serde_json::to_vec(&AuthCookie { timestamp: ts, client_addr: SocketAddr::from_str(addr).unwrap(), user_name: "FromCookie".into(), user_id: Uuid::from_u128(9),
            target: None, profile_properties: vec![], extra: Default::default() }).unwrap()
    };
    let good = sign(&mk(now, "127.0.0.1:1"), &secret);
    let mut found_extra = 0;
    let mut cases: Vec<(&str, State, Option<Vec<u8>>, Option<Vec<u8>>, bool)> = vec![
        ("valid", State::Transfer, Some(secret.clone()), Some(good.clone()), false),
        ("login intent", State::Login, Some(secret.clone()), Some(good.clone()), true),
        ("no secret", State::Transfer, None, Some(good.clone()), true),
        ("absent", State::Transfer, Some(secret.clone()), None, true),
        ("empty", State::Transfer, Some(secret.clone()), Some(vec![]), true),
        ("other secret", State::Transfer, Some(secret.clone()), Some(sign(&mk(now, "127.0.0.1:1"), b"other")), true),
        ("other ip", State::Transfer, Some(secret.clone()), Some(sign(&mk(now, "127.0.0.2:1"), &secret)), true),
        ("expired", State::Transfer, Some(secret.clone()), Some(sign(&mk(now - 6 * 3600 - 5, "127.0.0.1:1"), &secret)), true),
    ];
    // independent reference of the cookie format: HMAC-SHA256 (keyed with the *whole* secret) followed by the message
    let ref_sign = |msg: &[u8], key: &[u8]| -> Vec<u8> {
        use hmac::Mac;
        let mut mac = hmac::Hmac::<sha2::Sha256>::new_from_slice(key).unwrap();
        mac.update(msg);
        let mut out = mac.finalize().into_bytes().to_vec();
        out.extend_from_slice(msg);
        out
    };
    let body = mk(now, "127.0.0.1:1");
    for (name, configured, signer, want_auth) in [
        ("reference-signed, same secret", &b"cookie-secret"[..], &b"cookie-secret"[..], false),
        ("secret is a prefix (first line) of the configured one", &b"line1\nline2"[..], &b"line1"[..], true),
        ("other second line", &b"line1\nline2"[..], &b"line1\nother"[..], true),
        ("empty key against a configured secret starting with a line break", &b"\nsecret"[..], &b""[..], true),
        ("configured secret with trailing line break, cookie signed without", &b"secret\n"[..], &b"secret"[..], true),
        ("64-byte secret", &[b'k'; 64][..], &[b'k'; 64][..], false),
        ("65-byte secret vs its 64-byte prefix", &[b'k'; 65][..], &[b'k'; 64][..], true),
        ("200-byte secret", &[b'z'; 200][..], &[b'z'; 200][..], false),
    ] {
        let t = rt.block_on(run(Scenario { intent: State::Transfer, secret: Some(configured.to_vec()), auth_cookie: Some(ref_sign(&body, signer)), stop_after_encryption_request: true, ..Default::default() }));
        if t.should_authenticate != Some(want_auth) {
            println!("REPRODUCED cookie_matrix case {name:?} (configured secret {:?}, cookie tagged with HMAC-SHA256 under {:?}): should_authenticate={:?}, expected {want_auth} (client_error={:?}, server={:?})",
                String::from_utf8_lossy(configured), String::from_utf8_lossy(signer), t.should_authenticate, t.client_error, t.server_result);
            found_extra += 1;
        }
    }
    for cut in [1usize, 31, 32, 33, good.len() - 1] { cases.push(("truncated", State::Transfer, Some(secret.clone()), Some(good[..cut].to_vec()), true)); }
    for bit in [0usize, 7, 255, 256, 8 * good.len() - 1] { let mut g = good.clone(); g[bit / 8] ^= 1 << (bit % 8); cases.push(("bit flip", State::Transfer, Some(secret.clone()), Some(g), true)); }
    let mut found = found_extra;
    for (name, intent, sec, cookie, want_auth) in cases {
        let t = rt.block_on(run(Scenario { intent, secret: sec, auth_cookie: cookie.clone(), stop_after_encryption_request: true, ..Default::default() }));
        if t.should_authenticate != Some(want_auth) {
            println!("REPRODUCED cookie_matrix case {name:?} ({} cookie bytes): should_authenticate={:?}, expected {want_auth} (client_error={:?}, server={:?})", cookie.map(|c| c.len()).unwrap_or(0), t.should_authenticate, t.client_error, t.server_result);
            found += 1;
        }
    }
    found
}

/// C06 sweep: a client that deviates from the packet order. At every step of the login the expected client packet is replaced by
/// another frame (a packet that is valid elsewhere in the protocol, a duplicate of the previous one, an unknown id, an empty
/// frame); from then on the server must send none of Login Success / Store Cookie / Transfer and `listen` must end with an error.
/// Status intent: a Ping before the Status Request gets no Pong, a second Status Request gets no second response.
pub fn order(_seed: u64) -> usize {
    use tokio::io::AsyncWriteExt;
    let rt = crate::rt();
    let mut found = 0;
    fn frame(id: i32, body: &[u8]) -> Vec<u8> {
        fn vi(mut v: u32, out: &mut Vec<u8>) { loop { let b = (v & 0x7f) as u8; v >>= 7; if v == 0 { out.push(b); break; } out.push(b | 0x80); } }
        let mut idb = vec![]; vi(id as u32, &mut idb);
        let mut out = vec![]; vi((idb.len() + body.len()) as u32, &mut out); out.extend(idb); out.extend_from_slice(body); out
    }
    // the deviations tried at each step: (label, frame)
    let deviations: Vec<(&str, Vec<u8>)> = vec![
        ("login acknowledged", frame(0x03, &[])),
        ("cookie response without payload", frame(0x04, &[1, b'k', 0])),
        ("login start again", { let mut b = vec![7]; b.extend_from_slice(b"Claimed"); b.extend_from_slice(&[0u8; 16]); frame(0x00, &b) }),
        ("unknown id 0x2a", frame(0x2a, &[1, 2, 3])),
        ("keep alive", frame(0x04, &[0, 0, 0, 0, 0, 0, 0, 1])),
        ("plugin response", frame(0x02, &[0, 0])),
    ];
    for step in 1..=4usize {
        for (label, dev) in &deviations {
            // skip deviations that carry the id the server expects at this step (0x04 at step 2 is a Cookie Response whatever its body)
            if (step == 1 && *label == "login start again") || (step == 2 && (*label == "cookie response without payload" || *label == "keep alive")) || (step == 4 && *label == "login acknowledged") {
                continue;
            }
            let dev = dev.clone();
            let (after, server_result): (Vec<i32>, String) = rt.block_on(async move {
                use passage_packets::ReadPacket;
                let (mut client, server_stream): (DuplexStream, DuplexStream) = tokio::io::duplex(1 << 16);
                let mut server = Connection::new(
                    server_stream,
                    Arc::new(FixedStatusAdapter::default()),
                    Arc::new(FixedDiscoveryAdapter::new(vec![target("10.0.0.7:25570", "lobby-1")])),
                    Arc::new(Vec::<MetaFilterAdapter>::new()),
                    Arc::new(AnyStrategyAdapter::new()),
                    Arc::new(FixedAuthenticationAdapter::default()),
                    Arc::new(FixedLocalizationAdapter::default()),
                )
                .with_client_address(SocketAddr::from_str("127.0.0.1:25564").unwrap());
                let server = tokio::spawn(async move { server.listen().await.map_err(|e| e.to_string()) });
                let mut after: Vec<i32> = vec![];
                let _: Result<(), String> = async {
                    client.write_packet(hand_in::HandshakePacket { protocol_version: 767, server_address: "play.example".into(), server_port: 25565, next_state: State::Login }).await.map_err(|e| e.to_string())?;
                    // step 1: Login Start
                    if step == 1 { client.write_all(&dev).await.map_err(|e| e.to_string())?; } else {
                        client.write_packet(login_in::LoginStartPacket { user_name: "Claimed".into(), user_id: Uuid::from_u128(1) }).await.map_err(|e| e.to_string())?;
                        let (_id, mut b) = read_frame(&mut client).await?;
                        let req = login_out::CookieRequestPacket::read_from_buffer(&mut b).await.map_err(|e| e.to_string())?;
                        // step 2: session Cookie Response
                        if step == 2 { client.write_all(&dev).await.map_err(|e| e.to_string())?; } else {
                            client.write_packet(login_in::CookieResponsePacket { key: req.key, payload: None }).await.map_err(|e| e.to_string())?;
                            let (_id, mut b) = read_frame(&mut client).await?;
                            let enc = login_out::EncryptionRequestPacket::read_from_buffer(&mut b).await.map_err(|e| e.to_string())?;
                            // step 3: Encryption Response
                            if step == 3 { client.write_all(&dev).await.map_err(|e| e.to_string())?; } else {
                                let key = &crypto::KEY_PAIR.1;
                                client.write_packet(login_in::EncryptionResponsePacket {
                                    shared_secret: crypto::encrypt(key, b"verysecuresecret").map_err(|e| e.to_string())?,
                                    verify_token: crypto::encrypt(key, &enc.verify_token).map_err(|e| e.to_string())?,
                                }).await.map_err(|e| e.to_string())?;
                                let mut client = CipherStream::from_secret(client, b"verysecuresecret").map_err(|e| e.to_string())?;
                                let (_id, _b) = read_frame(&mut client).await?; // Login Success
                                // step 4: Login Acknowledged
                                client.write_all(&dev).await.map_err(|e| e.to_string())?;
                                loop { match tokio::time::timeout(std::time::Duration::from_millis(1500), read_frame(&mut client)).await { Ok(Ok((id, _b))) => after.push(id), _ => return Ok(()) } }
                            }
                        }
                    }
                    loop { match tokio::time::timeout(std::time::Duration::from_millis(1500), read_frame(&mut client)).await { Ok(Ok((id, _b))) => after.push(id), _ => return Ok(()) } }
                }.await;
                let res = match tokio::time::timeout(std::time::Duration::from_secs(5), server).await {
                    Ok(Ok(Ok(()))) => "Ok".to_string(), Ok(Ok(Err(e))) => format!("Err({e})"), Ok(Err(e)) => format!("panicked: {e}"), Err(_) => "still running".into(),
                };
                (after, res)
            });
            // after the deviation nothing of the login / configuration may arrive any more (a Disconnect, id 0x00 in login / 0x02 in
            // configuration, would be acceptable; Login Success 0x02 in login state is not: before step 4 any 0x02 is a Login Success)
            let bad: Vec<&i32> = after.iter().filter(|id| if step < 4 { **id == 0x01 || **id == 0x02 || **id == 0x05 } else { **id == 0x0A || **id == 0x0B || **id == 0x04 }).collect();
            if !bad.is_empty() || !server_result.starts_with("Err") {
                println!("REPRODUCED order step {step} replaced by `{label}`: the server went on with packet ids {after:?} and listen() ended with {server_result}");
                found += 1;
            }
        }
    }
    // status intent
    let status: Vec<String> = rt.block_on(async {
        let mut problems = vec![];
        for variant in ["ping-first", "two-requests"] {
            let (mut client, server_stream): (DuplexStream, DuplexStream) = tokio::io::duplex(1 << 16);
            let mut server = Connection::new(
                server_stream,
                Arc::new(FixedStatusAdapter::default()),
                Arc::new(FixedDiscoveryAdapter::new(vec![])),
                Arc::new(Vec::<MetaFilterAdapter>::new()),
                Arc::new(AnyStrategyAdapter::new()),
                Arc::new(FixedAuthenticationAdapter::default()),
                Arc::new(FixedLocalizationAdapter::default()),
            );
            let server = tokio::spawn(async move { server.listen().await.map_err(|e| e.to_string()) });
            let _ = client.write_packet(hand_in::HandshakePacket { protocol_version: 767, server_address: "play.example".into(), server_port: 25565, next_state: State::Status }).await;
            let mut got: Vec<i32> = vec![];
            if variant == "ping-first" {
                let _ = client.write_all(&frame(0x01, &[0, 0, 0, 0, 0, 0, 0, 9])).await;
            } else {
                let _ = client.write_all(&frame(0x00, &[])).await;
                let _ = client.write_all(&frame(0x00, &[])).await;
            }
            while let Ok(Ok((id, _))) = tokio::time::timeout(std::time::Duration::from_secs(2), read_frame(&mut client)).await { got.push(id); }
            let res = tokio::time::timeout(std::time::Duration::from_secs(5), server).await;
            let ended_err = matches!(res, Ok(Ok(Err(_))));
            let ok = if variant == "ping-first" { got.is_empty() && ended_err } else { got == vec![0x00] && ended_err };
            if !ok { problems.push(format!("status {variant}: server sent packet ids {got:?}, listen() ended with an error: {ended_err}")); }
        }
        problems
    });
    for p in status { println!("REPRODUCED order {p}"); found += 1; }
    found
}

/// C06 / C09 bounded sweep of clientbound framing through the real `send_packet`: a status exchange whose Status Response grows
/// across the 1 / 2 / 3 / 4-byte length-prefix boundaries (favicon lengths around 127, 16 383 and 2 097 151 bytes of frame, every
/// length in a window around each boundary). The client decodes the raw byte stream with its own VarInt / frame decoder and must
/// see exactly one Status Response (id 0x00, a string holding JSON with the favicon) and one Pong (id 0x01, the ping's payload).
pub fn frames(_seed: u64) -> usize {
    use passage_adapters::{ServerStatus, ServerVersion};
    use tokio::io::AsyncWriteExt;
    let rt = crate::rt();
    let mut found = 0;
    fn vi(mut v: u32, out: &mut Vec<u8>) { loop { let b = (v & 0x7f) as u8; v >>= 7; if v == 0 { out.push(b); break; } out.push(b | 0x80); } }
    fn frame(id: i32, body: &[u8]) -> Vec<u8> {
        let mut idb = vec![]; vi(id as u32, &mut idb);
        let mut out = vec![]; vi((idb.len() + body.len()) as u32, &mut out); out.extend(idb); out.extend_from_slice(body); out
    }
    fn take_vi(b: &[u8], pos: &mut usize) -> Option<u32> {
        let mut v: u32 = 0;
        for i in 0..5 {
            let x = *b.get(*pos)?; *pos += 1;
            v |= ((x & 0x7f) as u32) << (7 * i);
            if x & 0x80 == 0 { return Some(v); }
        }
        None
    }
    let mut sizes: Vec<usize> = vec![0, 1, 50, 6000, 20_000, 70_000, 2_200_000];
    sizes.extend(40..140);
    sizes.extend(16_250..16_420);
    sizes.extend((2_097_000..2_097_160).step_by(3));
    for fav in sizes {
        let problem: Option<String> = rt.block_on(async move {
            let status = ServerStatus { version: ServerVersion { name: "v".into(), protocol: 767 }, players: None, description: None, favicon: Some("f".repeat(fav)), enforces_secure_chat: None };
            let (mut client, server_stream): (DuplexStream, DuplexStream) = tokio::io::duplex(1 << 23);
            let mut server = Connection::new(
                server_stream,
                Arc::new(FixedStatusAdapter::new(Some(status), 767, 0, 10_000)),
                Arc::new(FixedDiscoveryAdapter::new(vec![])),
                Arc::new(Vec::<MetaFilterAdapter>::new()),
                Arc::new(AnyStrategyAdapter::new()),
                Arc::new(FixedAuthenticationAdapter::default()),
                Arc::new(FixedLocalizationAdapter::default()),
            );
            let server = tokio::spawn(async move { server.listen().await.map_err(|e| e.to_string()) });
            let _ = client.write_packet(hand_in::HandshakePacket { protocol_version: 767, server_address: "play.example".into(), server_port: 25565, next_state: State::Status }).await;
            let _ = client.write_all(&frame(0x00, &[])).await;
            let _ = client.write_all(&frame(0x01, &[0, 0, 0, 0, 0, 0, 0x12, 0x34])).await;
            let res = tokio::time::timeout(std::time::Duration::from_secs(10), server).await;
            let mut raw = vec![];
            let _ = tokio::time::timeout(std::time::Duration::from_secs(5), client.read_to_end(&mut raw)).await;
            if !matches!(res, Ok(Ok(Ok(())))) { return Some(format!("listen() ended with {res:?}")); }
            // strict decoding of everything the server wrote
            let mut pos = 0usize;
            let Some(len) = take_vi(&raw, &mut pos) else { return Some("no length prefix".into()) };
            let start = pos;
            if start + len as usize > raw.len() { return Some(format!("first frame declares {len} bytes, only {} follow", raw.len() - start)); }
            if take_vi(&raw, &mut pos) != Some(0) { return Some("first frame is not a Status Response (id 0x00)".into()); }
            let Some(slen) = take_vi(&raw, &mut pos) else { return Some("no string length".into()) };
            if pos + slen as usize != start + len as usize { return Some(format!("Status Response: frame length {len} does not end where its string (length {slen}) ends")); }
            let body = &raw[pos..pos + slen as usize];
            let ok_json = serde_json::from_slice::<serde_json::Value>(body).ok().and_then(|v| v.get("favicon").and_then(|f| f.as_str().map(|s| s.len()))) == Some(fav);
            if !ok_json { return Some("Status Response body is not the JSON with the configured favicon".into()); }
            pos += slen as usize;
            let pong = frame(0x01, &[0, 0, 0, 0, 0, 0, 0x12, 0x34]);
            if raw[pos..] != pong[..] { return Some(format!("after the Status Response the client received {:?}.. ({} bytes), not exactly one Pong", &raw[pos..raw.len().min(pos + 12)], raw.len() - pos)); }
            None
        });
        if let Some(p) = problem {
            if found < 5 { println!("REPRODUCED frames status exchange with a favicon of {fav} bytes: {p}"); }
            found += 1;
        }
    }
    found
}

/// C04 bounded sweep at the connection level: every prefix of two legal client byte streams (status exchange; login start),
/// followed by the end of the stream. `listen` has to return - with an error or not - promptly: each run gets its own OS thread
/// and three seconds of wall-clock time, so that a handler that spins without ever yielding is seen as "still running".
pub fn truncated(_seed: u64) -> usize {
    fn vi(mut v: u32, out: &mut Vec<u8>) { loop { let b = (v & 0x7f) as u8; v >>= 7; if v == 0 { out.push(b); break; } out.push(b | 0x80); } }
    fn frame(id: i32, body: &[u8]) -> Vec<u8> {
        let mut idb = vec![]; vi(id as u32, &mut idb);
        let mut out = vec![]; vi((idb.len() + body.len()) as u32, &mut out); out.extend(idb); out.extend_from_slice(body); out
    }
    let handshake = |next: u8| { let mut b = vec![]; vi(767, &mut b); b.push(9); b.extend_from_slice(b"localhost"); b.extend_from_slice(&[0x63, 0xdd]); b.push(next); frame(0x00, &b) };
    let mut status = handshake(1); status.extend(frame(0x00, &[])); status.extend(frame(0x01, &[0, 0, 0, 0, 0, 0, 0, 9]));
    let mut login = handshake(2); login.extend({ let mut b = vec![7]; b.extend_from_slice(b"Claimed"); b.extend_from_slice(&[0u8; 16]); frame(0x00, &b) });
    let mut found = 0;
    for (what, stream) in [("status exchange", status), ("login start", login)] {
        for cut in 0..=stream.len() {
            let input = stream[..cut].to_vec();
            let (tx, rx) = std::sync::mpsc::channel::<String>();
            std::thread::spawn(move || {
                let rt = tokio::runtime::Builder::new_current_thread().enable_all().build().expect("rt");
                let res = rt.block_on(async move {
                    use tokio::io::AsyncWriteExt;
                    let (mut client, server_stream): (DuplexStream, DuplexStream) = tokio::io::duplex(1 << 16);
                    let mut server = Connection::new(
                        server_stream,
                        Arc::new(FixedStatusAdapter::default()),
                        Arc::new(FixedDiscoveryAdapter::new(vec![])),
                        Arc::new(Vec::<MetaFilterAdapter>::new()),
                        Arc::new(AnyStrategyAdapter::new()),
                        Arc::new(FixedAuthenticationAdapter::default()),
                        Arc::new(FixedLocalizationAdapter::default()),
                    );
                    let _ = client.write_all(&input).await;
                    let _ = client.shutdown().await;
                    // the client keeps reading (and discarding) until the server closes
                    let reader = tokio::spawn(async move { let mut sink = vec![]; let _ = client.read_to_end(&mut sink).await; });
                    let r = server.listen().await.map_err(|e| e.to_string());
                    drop(server);
                    let _ = reader.await;
                    format!("{r:?}")
                });
                let _ = tx.send(res);
            });
            match rx.recv_timeout(std::time::Duration::from_secs(3)) {
                Ok(_) => {}
                Err(_) => {
                    println!("REPRODUCED truncated {what}: the client sent the first {cut} of {} bytes ({:02x?}) and closed; listen() was still running 3 s after the end of the stream", stream.len(), &stream[..cut]);
                    found += 1;
                    // the handler may be spinning on its thread: report and stop here
                    return found;
                }
            }
        }
    }
    found
}
