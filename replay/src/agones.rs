//! C20 witness sweep: the real `AgonesDiscoveryAdapter` against a loopback mock of the Kubernetes API (list + watch of
//! agones.dev/v1 GameServers), driven with scripted watch histories; `discover()` snapshots are compared with the set of
//! GameServers whose most recently observed state is Ready or Allocated. Finite and stated: not a proof.

use passage_adapters::discovery::DiscoveryAdapter;
use passage_adapters_agones::AgonesDiscoveryAdapter;
use passage_adapters_agones::watcher_config::Config as WatchConfig;
use serde_json::{Value, json};
use std::collections::BTreeMap;
use std::sync::{Arc, Mutex};
use std::time::Duration;
use tokio::io::{AsyncReadExt, AsyncWriteExt};
use tokio::net::TcpListener;

/// one step of a scripted history, as the API server would report it
#[derive(Clone, Debug)]
pub enum Ev {
    Added(&'static str, &'static str),    // name, state
    Modified(&'static str, &'static str), // name, new state
    Deleted(&'static str),
    /// the watch connection is dropped with 410 Gone: the client has to re-list
    Relist,
    /// the object disappears while the watch is down (no DELETED line), then 410 Gone: only the re-list shows that it is gone
    VanishAndRelist(&'static str),
    /// 410 Gone; during the re-list the first page is served, then the named object disappears and the request for the next page
    /// fails, so the client aborts the listing and starts it again
    InterruptedRelist(&'static str),
    /// the object is updated to a version without ports (cannot be converted any more)
    ModifiedNoPorts(&'static str, &'static str),
    /// an object whose labels use the metadata key `state`
    AddedLabeled(&'static str, &'static str, &'static str), // name, state, value of the label `state`
}

fn gs(name: &str, state: &str, rv: u64, labels: &[(&str, &str)]) -> Value {
    let idx = name.bytes().last().unwrap_or(b'0') % 200;
    json!({
        "apiVersion": "agones.dev/v1", "kind": "GameServer",
        "metadata": { "name": name, "namespace": "default", "uid": format!("uid-{name}"), "resourceVersion": rv.to_string(),
                      "labels": labels.iter().map(|(k, v)| (k.to_string(), Value::String(v.to_string()))).collect::<serde_json::Map<_, _>>() },
        "spec": {},
        "status": { "address": if name.ends_with('6') { format!("2001:db8::{idx:x}") } else { format!("10.0.0.{idx}") }, "ports": [{ "name": "default", "port": 7000 + idx as u16 }], "state": state }
    })
}

struct World {
    /// name -> (state, resourceVersion, value of a label named `state` if the object has one)
    objects: BTreeMap<String, (String, u64, Option<String>)>,
    rv: u64,
    /// objects that exist but have no ports (never offered)
    noports: BTreeMap<String, (String, u64)>,
    /// watch lines not yet delivered, and whether the watch must end with 410 Gone after them
    pending: Vec<String>,
    gone: bool,
    lists: usize,
    /// the next request for a continuation page fails with 410 Gone (the listing is aborted and restarted by the client)
    fail_next_continue: bool,
    /// an object that no longer exists but is still reported on the first page of the next listing (it disappeared right after
    /// that page was produced): name, state, resourceVersion
    stale_on_first_page: Option<(String, String, u64)>,
}

async fn serve(listener: TcpListener, world: Arc<Mutex<World>>) {
    loop {
        let Ok((mut s, _)) = listener.accept().await else { return };
        let world = world.clone();
        tokio::spawn(async move {
            let mut buf = vec![0u8; 16384];
            let mut n = 0;
            loop {
                let Ok(k) = s.read(&mut buf[n..]).await else { return };
                if k == 0 { return; }
                n += k;
                if buf[..n].windows(4).any(|w| w == b"\r\n\r\n") { break; }
            }
            let head = String::from_utf8_lossy(&buf[..n]).to_string();
            let target = head.lines().next().unwrap_or("").split(' ').nth(1).unwrap_or("").to_string();
            if !target.contains("gameservers") {
                let _ = s.write_all(b"HTTP/1.1 404 Not Found\r\ncontent-length: 0\r\nconnection: close\r\n\r\n").await;
                return;
            }
            if target.contains("watch=true") || target.contains("watch=1") {
                let _ = s.write_all(b"HTTP/1.1 200 OK\r\ncontent-type: application/json\r\ntransfer-encoding: chunked\r\nconnection: close\r\n\r\n").await;
                // stream whatever becomes pending, for at most 20 s per watch connection
                for _ in 0..2000 {
                    let (lines, gone) = {
                        let mut w = world.lock().unwrap();
                        let l = std::mem::take(&mut w.pending);
                        let g = w.gone;
                        if g { w.gone = false; }
                        (l, g)
                    };
                    for l in lines {
                        let chunk = format!("{:x}\r\n{}\n\r\n", l.len() + 1, l);
                        if s.write_all(chunk.as_bytes()).await.is_err() { return; }
                    }
                    if gone {
                        let l = json!({"type": "ERROR", "object": {"kind": "Status", "apiVersion": "v1", "status": "Failure", "message": "too old resource version", "reason": "Expired", "code": 410}}).to_string();
                        let chunk = format!("{:x}\r\n{}\n\r\n", l.len() + 1, l);
                        let _ = s.write_all(chunk.as_bytes()).await;
                        let _ = s.write_all(b"0\r\n\r\n").await;
                        return;
                    }
                    let _ = s.flush().await;
                    tokio::time::sleep(Duration::from_millis(10)).await;
                }
                let _ = s.write_all(b"0\r\n\r\n").await;
            } else {
                // paged list: `limit` objects per page, the continue token is the index of the next object
                let param = |k: &str| -> Option<String> { target.split(['?', '&']).find_map(|p| p.strip_prefix(&format!("{k}=")).map(|v| v.to_string())) };
                let limit: usize = param("limit").and_then(|v| v.parse().ok()).unwrap_or(500);
                let cont: Option<usize> = param("continue").and_then(|v| v.parse().ok());
                let (status_line, body) = 'resp: {
                    let mut w = world.lock().unwrap();
                    if cont.is_some() && w.fail_next_continue {
                        w.fail_next_continue = false;
                        let b = json!({"kind": "Status", "apiVersion": "v1", "status": "Failure", "message": "the provided continue parameter is too old", "reason": "Expired", "code": 410}).to_string();
                        break 'resp ("410 Gone", b);
                    }
                    if cont.is_none() {
                        w.lists += 1;
                        w.pending.clear();
                    }
                    let mut items: Vec<Value> = w.noports.iter().map(|(n, (st, rv))| { let mut o = gs(n, st, *rv, &[]); o["status"]["ports"] = json!([]); o }).collect();
                    let listed: Vec<Value> = w.objects.iter().map(|(n, (st, rv, lab))| match lab { Some(l) => gs(n, st, *rv, &[("state", l.as_str())]), None => gs(n, st, *rv, &[]) }).collect();
                    items.extend(listed);
                    if cont.is_none() {
                        if let Some((n, st, rv)) = w.stale_on_first_page.take() {
                            items.insert(0, gs(&n, &st, rv, &[]));
                        }
                    }
                    let start = cont.unwrap_or(0).min(items.len());
                    let end = (start + limit).min(items.len());
                    let page: Vec<Value> = items[start..end].to_vec();
                    let mut meta = json!({"resourceVersion": w.rv.to_string()});
                    if end < items.len() {
                        meta["continue"] = json!(end.to_string());
                    }
                    ("200 OK", json!({"apiVersion": "agones.dev/v1", "kind": "GameServerList", "metadata": meta, "items": page}).to_string())
                };
                let resp = format!("HTTP/1.1 {status_line}\r\ncontent-type: application/json\r\ncontent-length: {}\r\nconnection: close\r\n\r\n{}", body.len(), body);
                let _ = s.write_all(resp.as_bytes()).await;
            }
            let _ = s.shutdown().await;
        });
    }
}

/// waits until the sentinel object of this step is offered (the stream is in order, so every earlier event has been processed by
/// then) and returns the snapshot taken at that moment
async fn settle(adapter: &AgonesDiscoveryAdapter, sentinel: Option<&str>) -> Vec<String> {
    let mut got: Vec<String> = vec![];
    for _ in 0..250 {
        got = adapter.discover().await.map(|v| v.into_iter().map(|t| t.identifier).collect()).unwrap_or_default();
        got.sort();
        match sentinel {
            Some(s) if got.iter().any(|g| g == s) => return got,
            None if !got.is_empty() => return got,
            _ => {}
        }
        tokio::time::sleep(Duration::from_millis(20)).await;
    }
    got
}

fn ready(state: &str) -> bool { state == "Ready" || state == "Allocated" }

async fn run_history(name: &str, initial: &[(&'static str, &'static str)], hist: &[Ev]) -> usize {
    let listener = TcpListener::bind("127.0.0.1:0").await.expect("bind");
    let port = listener.local_addr().unwrap().port();
    let world = Arc::new(Mutex::new(World { objects: BTreeMap::new(), noports: BTreeMap::new(), rv: 100, pending: vec![], gone: false, lists: 0, fail_next_continue: false, stale_on_first_page: None }));
    {
        let mut w = world.lock().unwrap();
        for (n, st) in initial {
            w.rv += 1;
            let rv = w.rv;
            w.objects.insert(n.to_string(), (st.to_string(), rv, None));
        }
    }
    {
        let mut w = world.lock().unwrap();
        w.rv += 1;
        let rv = w.rv;
        w.objects.insert("00-s0".to_string(), ("Ready".to_string(), rv, None));
    }
    let server = tokio::spawn(serve(listener, world.clone()));
    let kubeconfig = format!(
        "apiVersion: v1\nkind: Config\nclusters:\n- name: mock\n  cluster:\n    server: http://127.0.0.1:{port}\ncontexts:\n- name: mock\n  context:\n    cluster: mock\n    user: mock\n    namespace: default\ncurrent-context: mock\nusers:\n- name: mock\n  user:\n    token: x\n"
    );
    let path = std::env::temp_dir().join(format!("verif-kubeconfig-{}-{port}", std::process::id()));
    std::fs::write(&path, kubeconfig).expect("kubeconfig");
    unsafe { std::env::set_var("KUBECONFIG", &path); }
    let adapter = match AgonesDiscoveryAdapter::new(None, WatchConfig::default().page_size(2)).await {
        Ok(a) => a,
        Err(e) => { eprintln!("agones: adapter did not start: {e}"); server.abort(); let _ = std::fs::remove_file(&path); return 0; }
    };
    let mut found = 0;
    // the snapshot the property demands after each step, compared once the adapter had time to catch up
    let mut step = 0usize;
    let mut check = |label: String, world: &Arc<Mutex<World>>| {
        let want: Vec<String> = world.lock().unwrap().objects.iter().filter(|(_, (st, _, _))| ready(st)).map(|(n, _)| n.clone()).collect();
        (label, want)
    };
    let mut expectations = vec![check("initial list".to_string(), &world)];
    let (label, want) = expectations.pop().unwrap();
    let got = settle(&adapter, Some("00-s0")).await;
    if got != want {
        println!("REPRODUCED agones history {name}: after {label} discover() offers {got:?}, Ready/Allocated are {want:?}");
        found += 1;
    }
    for ev in hist {
        if found > 0 { break; }
        step += 1;
        {
            let mut w = world.lock().unwrap();
            w.rv += 1;
            let rv = w.rv;
            match ev {
                Ev::Added(n, st) => { w.noports.remove(*n); w.objects.insert(n.to_string(), (st.to_string(), rv, None)); let l = json!({"type": "ADDED", "object": gs(n, st, rv, &[])}).to_string(); w.pending.push(l); }
                Ev::Modified(n, st) => { w.noports.remove(*n); w.objects.insert(n.to_string(), (st.to_string(), rv, None)); let l = json!({"type": "MODIFIED", "object": gs(n, st, rv, &[])}).to_string(); w.pending.push(l); }
                Ev::Deleted(n) => { let old = w.objects.remove(*n); let st = old.map(|o| o.0).unwrap_or_else(|| "Shutdown".to_string()); let l = json!({"type": "DELETED", "object": gs(n, &st, rv, &[])}).to_string(); w.pending.push(l); }
                Ev::Relist | Ev::VanishAndRelist(_) | Ev::InterruptedRelist(_) => {}
                Ev::ModifiedNoPorts(n, st) => {
                    w.objects.remove(*n);
                    w.noports.insert(n.to_string(), (st.to_string(), rv));
                    let mut o = gs(n, st, rv, &[]);
                    o["status"]["ports"] = json!([]);
                    let l = json!({"type": "MODIFIED", "object": o}).to_string();
                    w.pending.push(l);
                }
                Ev::AddedLabeled(n, st, lv) => { w.objects.insert(n.to_string(), (st.to_string(), rv, Some(lv.to_string()))); let l = json!({"type": "ADDED", "object": gs(n, st, rv, &[("state", lv)])}).to_string(); w.pending.push(l); }
            }
        }
        let sentinel = format!("00-s{step}");
        {
            let mut w = world.lock().unwrap();
            w.rv += 1;
            let rv = w.rv;
            w.objects.insert(sentinel.clone(), ("Ready".to_string(), rv, None));
            let l = json!({"type": "ADDED", "object": gs(&sentinel, "Ready", rv, &[])}).to_string();
            w.pending.push(l);
        }
        {
            let mut w = world.lock().unwrap();
            match ev {
                Ev::Relist => { w.pending.clear(); w.gone = true; }
                Ev::VanishAndRelist(n) => { w.objects.remove(*n); w.pending.clear(); w.gone = true; }
                Ev::InterruptedRelist(n) => {
                    if let Some((st, rv, _)) = w.objects.remove(*n) { w.stale_on_first_page = Some((n.to_string(), st, rv)); }
                    w.fail_next_continue = true; w.pending.clear(); w.gone = true;
                }
                _ => {}
            }
        }
        let (label, want) = check(format!("step {step} {ev:?}"), &world);
        let got = settle(&adapter, Some(&sentinel)).await;
        if got != want {
            println!("REPRODUCED agones history {name} (initial {initial:?}, events {hist:?}): after {label} discover() offers {got:?}, but the GameServers last seen Ready/Allocated are {want:?}");
            found += 1;
        }
    }
    drop(adapter);
    server.abort();
    let _ = std::fs::remove_file(&path);
    found
}

pub fn histories(seed: u64) -> usize {
    let rt = tokio::runtime::Builder::new_multi_thread().worker_threads(2).enable_all().build().expect("rt");
    use Ev::*;
    let hs: Vec<(&str, Vec<(&'static str, &'static str)>, Vec<Ev>)> = vec![
        ("ready-then-shutdown", vec![("gs-a", "Ready")], vec![Modified("gs-a", "Shutdown")]),
        ("scheduled-ready-allocated", vec![], vec![Added("gs-a", "Scheduled"), Modified("gs-a", "Ready"), Modified("gs-a", "Allocated"), Added("gs-b", "Ready")]),
        ("deleted-while-ready", vec![("gs-a", "Ready"), ("gs-b", "Ready")], vec![Deleted("gs-a")]),
        ("deleted-while-allocated", vec![], vec![Added("gs-a", "Allocated"), Deleted("gs-a"), Added("gs-b", "Ready")]),
        ("gone-during-disconnect", vec![("gs-a", "Ready"), ("gs-b", "Ready")], vec![Relist]),
        ("unhealthy", vec![("gs-a", "Ready")], vec![Modified("gs-a", "Unhealthy"), Modified("gs-a", "Ready")]),
        ("vanished-during-disconnect", vec![("gs-a", "Ready"), ("gs-b", "Ready")], vec![VanishAndRelist("gs-a")]),
        ("no-ports-any-more", vec![("gs-a", "Ready"), ("gs-b", "Allocated")], vec![ModifiedNoPorts("gs-a", "Ready"), Modified("gs-b", "Shutdown")]),
        ("deleted-then-back", vec![("gs-a", "Ready")], vec![Deleted("gs-a"), Added("gs-a", "Starting"), Modified("gs-a", "Ready"), Deleted("gs-a")]),
        ("relist-after-changes", vec![("gs-a", "Ready")], vec![Added("gs-b", "Ready"), VanishAndRelist("gs-a"), Modified("gs-b", "Allocated"), Relist, Deleted("gs-b")]),
        ("interrupted-relist", vec![("gs-a", "Ready"), ("gs-b", "Ready"), ("gs-c", "Allocated")], vec![InterruptedRelist("gs-a"), Modified("gs-b", "Shutdown")]),
        ("ipv6-address", vec![("gs-v6", "Ready")], vec![Added("gs-w6", "Allocated"), Modified("gs-v6", "Shutdown"), Modified("gs-v6", "Ready")]),
        ("update-after-a-removal-in-the-middle", vec![("gs-a", "Ready"), ("gs-b", "Ready"), ("gs-c", "Ready"), ("gs-d", "Ready")],
            vec![Modified("gs-a", "Shutdown"), Modified("gs-d", "Allocated"), Deleted("gs-d"), Modified("gs-c", "Allocated"), Deleted("gs-b"), Modified("gs-c", "Ready")]),
        ("churn", vec![("gs-a", "Ready"), ("gs-b", "Ready"), ("gs-c", "Ready"), ("gs-d", "Ready"), ("gs-e", "Ready")],
            vec![Deleted("gs-a"), Modified("gs-e", "Allocated"), Modified("gs-e", "Shutdown"), Deleted("gs-e"), Added("gs-z", "Ready"), Modified("gs-b", "Allocated"), Deleted("gs-c"), Modified("gs-z", "Allocated")]),
        ("label-named-state-hides-a-ready-server", vec![], vec![AddedLabeled("gs-a", "Ready", "blue")]),
        ("label-named-state-offers-a-stopped-server", vec![("gs-b", "Ready")], vec![AddedLabeled("gs-a", "Shutdown", "Ready")]),
    ];
    let mut found = 0;
    for (name, init, hist) in &hs {
        // a re-list history removes an object while the watch is down
        found += rt.block_on(run_history(name, init, hist));
    }
    // seeded random histories over four names (one of them with an IPv6 address): every event is legal for the API server's state
    // (ADDED only for an absent object, MODIFIED / DELETED only for a present one); 20 histories of 10 events (re-lists are rare among them: each costs the watcher's backoff)
    let names: [&'static str; 6] = ["gs-a", "gs-b", "gs-c", "gs-d", "gs-m", "gs-v6"];
    let states: [&'static str; 6] = ["Ready", "Allocated", "Shutdown", "Scheduled", "Unhealthy", "Reserved"];
    let mut x = seed.wrapping_mul(0x9E3779B97F4A7C15) ^ 0xD1B54A32D192ED03 | 1;
    let mut rnd = move || { x ^= x << 13; x ^= x >> 7; x ^= x << 17; x };
    let mut random_count = 0;
    for h in 0..20 {
        if found > 0 {
            break;
        }
        let mut present: Vec<&'static str> = vec![];
        let mut init: Vec<(&'static str, &'static str)> = vec![];
        for n in names {
            if rnd() % 3 != 0 {
                init.push((n, states[(rnd() % 3) as usize]));
                present.push(n);
            }
        }
        let mut hist: Vec<Ev> = vec![];
        for _ in 0..10 {
            let n = names[(rnd() % 6) as usize];
            let st = states[(rnd() % 6) as usize];
            let is_present = present.contains(&n);
            let ev = match (rnd() % 40, is_present) {
                (0, _) => Relist,
                (1, true) => { present.retain(|p| *p != n); VanishAndRelist(n) }
                (2, true) => { present.retain(|p| *p != n); InterruptedRelist(n) }
                (5..=12, true) => { present.retain(|p| *p != n); Deleted(n) }
                (3, true) => { present.retain(|p| *p != n); Deleted(n) }
                (4, true) => { present.retain(|p| *p != n); ModifiedNoPorts(n, st) }
                (_, true) => Modified(n, st),
                (_, false) => { present.push(n); Added(n, st) }
            };
            hist.push(ev);
        }
        random_count += 1;
        let label = format!("random-{seed}-{h}");
        let label: &'static str = Box::leak(label.into_boxed_str());
        found += rt.block_on(run_history(label, &init, &hist));
    }
    eprintln!("agones: {} scripted + {random_count} random histories, {found} mismatches", hs.len());
    found
}
