//! C13 witnesses on the real RateLimiter under tokio's paused clock.
use passage_protocol::rate_limiter::RateLimiter;
use std::time::Duration;

/// limit above 2^24: the f32 counter stops counting and the key is admitted without bound
pub fn big_limit(_seed: u64) -> usize {
    let rt = tokio::runtime::Builder::new_current_thread().enable_all().start_paused(true).build().expect("rt");
    rt.block_on(async {
        let limit: usize = 16_777_220;
        let mut rl: RateLimiter<u8> = RateLimiter::new(Duration::from_secs(3600), limit);
        let attempts = limit + 1_000;
        let mut admitted = 0usize;
        for _ in 0..attempts {
            if rl.enqueue(1) { admitted += 1; }
        }
        if admitted > limit {
            println!("REPRODUCED limiter_big limit={limit}, duration=3600s, {attempts} attempts of one key at the same instant: {admitted} admitted (more than limit; the f32 counter stalls at 16777216)");
            1
        } else { 0 }
    })
}

/// bounded sanity sweep in the claimed domain: never more than `limit` admissions between two window starts
pub fn sweep(seed: u64) -> usize {
    let rt = tokio::runtime::Builder::new_current_thread().enable_all().start_paused(true).build().expect("rt");
    let mut found = 0;
    rt.block_on(async {
        let mut x = seed.wrapping_mul(0x9E3779B97F4A7C15) | 1;
        for limit in [1usize, 2, 3, 7, 100] {
            for dsecs in [1u64, 10, 3600] {
                let mut rl: RateLimiter<u8> = RateLimiter::new(Duration::from_secs(dsecs), limit);
                let mut in_window = 0usize;
                let mut since_start = Duration::ZERO;
                for _ in 0..2000 {
                    x ^= x << 13; x ^= x >> 7; x ^= x << 17;
                    let step = Duration::from_millis((x % (dsecs * 400)).max(0));
                    tokio::time::advance(step).await;
                    since_start += step;
                    if since_start >= Duration::from_secs(dsecs) { in_window = 0; since_start = Duration::ZERO; }
                    if rl.enqueue(7) {
                        in_window += 1;
                        if in_window > 2 * limit {
                            println!("REPRODUCED limiter limit={limit} duration={dsecs}s: {in_window} admissions within one duration");
                            found += 1;
                            return;
                        }
                    }
                }
            }
        }
    });
    found
}
