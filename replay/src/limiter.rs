//! C13 witnesses on the real RateLimiter under tokio's paused clock.
use passage_protocol::rate_limiter::RateLimiter;
use std::time::Duration;

/// limit above 2^24: the f32 counter stops counting and the key is admitted without bound
pub fn big_limit(_seed: u64) -> usize {
    let rt = tokio::runtime::Builder::new_current_thread().enable_all().start_paused(true).build().expect("rt");
    rt.block_on(async {
        let limit: usize = 16_777_220;
        let mut rl: RateLimiter<u8> = RateLimiter::new(Duration::from_secs(3600), limit);
        let attempts = limit + 1_000;
        let mut admitted = 0usize;
        for _ in 0..attempts {
            if rl.enqueue(1) { admitted += 1; }
        }
        if admitted > limit {
            println!("REPRODUCED limiter_big limit={limit}, duration=3600s, {attempts} attempts of one key at the same instant: {admitted} admitted (more than limit; the f32 counter stalls at 16777216)");
            1
        } else { 0 }
    })
}

/// bounded sweep, also outside the domain of the Kani step proof (durations that are not whole seconds): for one key and random
/// arrival times, never more than `limit` admissions between two consecutive window starts and never more than 2 * limit within any
/// interval of length `duration`; a key that was idle for 2 * duration is admitted again
pub fn sweep(seed: u64) -> usize {
    let rt = tokio::runtime::Builder::new_current_thread().enable_all().start_paused(true).build().expect("rt");
    let mut found = 0;
    rt.block_on(async {
        let mut x = seed.wrapping_mul(0x9E3779B97F4A7C15) | 1;
        for limit in [1usize, 2, 3, 7, 100] {
            for dms in [100u64, 500, 999, 1000, 1500, 2500, 10_000, 3_600_000] {
                let d = Duration::from_millis(dms);
                let mut rl: RateLimiter<u8> = RateLimiter::new(d, limit);
                // reference bookkeeping: the window of the key starts with its first attempt and restarts with the first attempt
                // that comes at least `duration` after the current start
                let start = tokio::time::Instant::now();
                let mut window_start: Option<Duration> = None;
                let mut in_window = 0usize;
                let mut admitted_at: Vec<Duration> = vec![];
                let mut last_attempt: Option<Duration> = None;
                for _ in 0..1500 {
                    x ^= x << 13; x ^= x >> 7; x ^= x << 17;
                    // mostly short gaps, sometimes a long pause
                    let step_ms = if x % 53 == 0 { dms * 2 + (x >> 8) % (dms + 1) } else { (x >> 8) % (dms * 2 / 5 + 1) };
                    tokio::time::advance(Duration::from_millis(step_ms)).await;
                    let t = tokio::time::Instant::now() - start;
                    match window_start {
                        Some(w) if t - w < d => {}
                        _ => { window_start = Some(t); in_window = 0; }
                    }
                    let idle = last_attempt.map(|l| t - l >= 2 * d).unwrap_or(true);
                    last_attempt = Some(t);
                    let ok = rl.enqueue(7);
                    if idle && !ok {
                        println!("REPRODUCED limiter limit={limit} duration={dms}ms: a key that made no attempt for two durations was rejected");
                        found += 1;
                        return;
                    }
                    if ok {
                        in_window += 1;
                        admitted_at.push(t);
                        let in_interval = admitted_at.iter().filter(|a| t - **a < d).count();
                        if in_window > limit || in_interval > 2 * limit {
                            println!("REPRODUCED limiter limit={limit} duration={dms}ms: {in_window} admissions since the window start, {in_interval} within one duration (bounds: {limit} and {})", 2 * limit);
                            found += 1;
                            return;
                        }
                    }
                }
            }
        }
    });
    found
}
