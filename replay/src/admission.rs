//! C15 witness sweep: the real `Listener` on loopback TCP with the PROXY protocol and the rate limiter enabled, driven with
//! scripted connection sequences; what is served is compared with a reference model keyed on the *effective* client address
//! (announced source if the header has one, the TCP peer for LOCAL / UNKNOWN headers, nobody for an invalid header).
//! Finite and stated (the sequences below): not a proof.

use passage_adapters::{AnyStrategyAdapter, FixedAuthenticationAdapter, FixedDiscoveryAdapter, FixedLocalizationAdapter, FixedStatusAdapter, MetaFilterAdapter};
use passage_packets::handshake::serverbound as hand_in;
use passage_packets::status::clientbound as status_out;
use passage_packets::status::serverbound as status_in;
use passage_packets::{AsyncReadPacket, AsyncWritePacket, State};
use passage_protocol::listener::{Listener, ParseConfig};
use passage_protocol::rate_limiter::RateLimiter;
use proxy_header::{ProxiedAddress, ProxyHeader};
use std::collections::HashMap;
use std::net::{IpAddr, SocketAddr};
use std::sync::Arc;
use std::time::Duration;
use tokio::io::AsyncWriteExt;
use tokio::net::TcpStream;
use tokio_util::sync::CancellationToken;

const LIMIT: usize = 2;

/// a status adapter that records the client address it is given (C15: the adapters see the effective address)
#[derive(Debug, Default)]
struct RecordingStatus(std::sync::Mutex<Vec<SocketAddr>>);
impl passage_adapters::status::StatusAdapter for RecordingStatus {
    async fn status(&self, client_addr: &SocketAddr, _server_addr: (&str, u16), _protocol: passage_adapters::Protocol) -> passage_adapters::Result<Option<passage_adapters::ServerStatus>> {
        self.0.lock().unwrap().push(*client_addr);
        Ok(Some(passage_adapters::ServerStatus::default()))
    }
}

#[derive(Clone, Debug)]
enum Conn {
    /// no PROXY header at all (only meaningful with the PROXY protocol disabled)
    Plain,
    V1(&'static str),
    V2(&'static str),
    V2Local,
    V1Unknown,
    Garbage,
}

fn header(c: &Conn) -> Vec<u8> {
    let mut buf = Vec::new();
    let addr = |s: &str| -> ProxyHeader {
        let source: SocketAddr = s.parse().expect("source");
        let dest: SocketAddr = if source.is_ipv4() { "10.0.0.1:25565".parse().unwrap() } else { "[fd00::1]:25565".parse().unwrap() };
        ProxyHeader::with_address(ProxiedAddress::stream(source, dest))
    };
    match c {
        Conn::Plain => {}
        Conn::V1(s) => addr(s).encode_v1(&mut buf).expect("encode"),
        Conn::V2(s) => addr(s).encode_v2(&mut buf).expect("encode"),
        Conn::V2Local => ProxyHeader::with_local().encode_v2(&mut buf).expect("encode"),
        Conn::V1Unknown => buf.extend_from_slice(b"PROXY UNKNOWN\r\n"),
        Conn::Garbage => buf.extend_from_slice(b"PROXY TCP4 not-an-address\r\n"),
    }
    buf
}

/// effective address under the property: `None` = the connection must not be served and spends nobody's budget
fn effective(c: &Conn, proxy: bool, peer: IpAddr) -> Option<IpAddr> {
    if !proxy {
        return Some(peer);
    }
    match c {
        Conn::V1(s) | Conn::V2(s) => Some(s.parse::<SocketAddr>().unwrap().ip()),
        Conn::V2Local | Conn::V1Unknown => Some(peer),
        Conn::Garbage | Conn::Plain => None,
    }
}

async fn is_served(address: SocketAddr, head: &[u8]) -> bool {
    let Ok(mut stream) = TcpStream::connect(address).await else { return false };
    let exchange = async {
        stream.write_all(head).await.ok()?;
        stream
            .write_packet(hand_in::HandshakePacket { protocol_version: 0, server_address: "".to_string(), server_port: 0, next_state: State::Status })
            .await
            .ok()?;
        stream.write_packet(status_in::StatusRequestPacket).await.ok()?;
        let response: status_out::StatusResponsePacket = stream.read_packet().await.ok()?;
        Some(response)
    };
    matches!(tokio::time::timeout(Duration::from_secs(5), exchange).await, Ok(Some(_)))
}

/// the same exchange from outside: its own OS thread and runtime, wall-clock deadline. A server whose workers are blocked (not
/// merely awaiting) cannot slow down this clock.
fn served_within(address: SocketAddr, head: Vec<u8>, within: Duration) -> bool {
    let (tx, rx) = std::sync::mpsc::channel();
    std::thread::spawn(move || {
        let rt = tokio::runtime::Builder::new_current_thread().enable_all().build().expect("probe rt");
        let _ = tx.send(rt.block_on(is_served(address, &head)));
    });
    matches!(rx.recv_timeout(within), Ok(true))
}

async fn run_sequence(name: &str, proxy: bool, seq: &[Conn]) -> usize {
    let port = std::net::TcpListener::bind("127.0.0.1:0").expect("bind").local_addr().unwrap().port();
    let address = SocketAddr::from(([127, 0, 0, 1], port));
    let stop = CancellationToken::new();
    let token = stop.clone();
    let recorder = Arc::new(RecordingStatus::default());
    let rec2 = recorder.clone();
    let server = tokio::spawn(async move {
        let mut l = Listener::new(
            rec2,
            Arc::new(FixedDiscoveryAdapter::new(vec![])),
            Arc::new(Vec::<MetaFilterAdapter>::new()),
            Arc::new(AnyStrategyAdapter::new()),
            Arc::new(FixedAuthenticationAdapter::default()),
            Arc::new(FixedLocalizationAdapter::default()),
        )
        .with_rate_limiter(Some(RateLimiter::<IpAddr>::new(Duration::from_secs(3600), LIMIT)))
        .with_proxy_protocol(if proxy { Some(ParseConfig { include_tlvs: false, allow_v1: true, allow_v2: true }) } else { None })
        .with_connection_timeout(Duration::from_secs(3));
        let _ = l.listen(address, token).await.map_err(|e| e.to_string());
    });
    // wait until the socket is bound; with the PROXY protocol on, a probe without header spends no budget, without it the
    // probe is a visit of the peer and is accounted for below
    let mut up = false;
    for _ in 0..300 {
        if let Ok(mut s) = TcpStream::connect(address).await {
            let _ = s.shutdown().await;
            up = true;
            break;
        }
        tokio::time::sleep(Duration::from_millis(10)).await;
    }
    let mut found = 0;
    if !up {
        eprintln!("admission: listener did not come up");
        stop.cancel();
        return 0;
    }
    let peer: IpAddr = "127.0.0.1".parse().unwrap();
    let mut budget: HashMap<IpAddr, usize> = HashMap::new();
    if !proxy {
        budget.insert(peer, 1);
    }
    for (i, c) in seq.iter().enumerate() {
        let want = match effective(c, proxy, peer) {
            None => false,
            Some(ip) => {
                let n = budget.entry(ip).or_insert(0);
                if *n < LIMIT {
                    *n += 1;
                    true
                } else {
                    false
                }
            }
        };
        let before = recorder.0.lock().unwrap().len();
        let got = is_served(address, &header(c)).await;
        // a served connection: the adapters must have been given the effective address (ip and, for an announced source, port)
        if got && want {
            let seen = recorder.0.lock().unwrap().get(before).copied();
            let announced: Option<SocketAddr> = match c { Conn::V1(s) | Conn::V2(s) if proxy => s.parse().ok(), _ => None };
            let ok = match (seen, announced, effective(c, proxy, peer)) {
                (Some(a), Some(src), _) => a == src,
                (Some(a), None, Some(ip)) => a.ip() == ip,
                _ => false,
            };
            if !ok {
                println!("REPRODUCED admission sequence {name}: connection #{i} {c:?} was served, but the status adapter was given the client address {seen:?} instead of the effective address {:?}", announced.map(|a| a.to_string()).or(effective(c, proxy, peer).map(|i| i.to_string())));
                found += 1;
                break;
            }
        }
        if got != want {
            println!(
                "REPRODUCED admission sequence {name} (proxy protocol {}, limit {LIMIT}/h): connection #{i} {c:?} was {} but its effective address {:?} {} (sequence {seq:?})",
                if proxy { "on" } else { "off" },
                if got { "served" } else { "refused" },
                effective(c, proxy, peer),
                if want { "is under budget" } else { "is over budget or the header is invalid" },
            );
            found += 1;
            break;
        }
    }
    stop.cancel();
    let _ = tokio::time::timeout(Duration::from_secs(5), server).await;
    found
}

pub fn sweep(_seed: u64) -> usize {
    let rt = tokio::runtime::Builder::new_multi_thread().worker_threads(2).enable_all().build().expect("rt");
    const A: &str = "203.0.113.7:50000";
    const A2: &str = "203.0.113.7:50001";
    const B: &str = "198.51.100.9:40000";
    const C6: &str = "[2001:db8::7]:50000";
    const M6: &str = "[::ffff:203.0.113.7]:50000";
    const SELF4: &str = "127.0.0.1:41000";
    let seqs: Vec<(&str, bool, Vec<Conn>)> = vec![
        ("health-checks-then-clients", true, vec![Conn::V2Local, Conn::V2Local, Conn::V2Local, Conn::V1(A), Conn::V1(A2), Conn::V1(A), Conn::V1(B)]),
        ("announced-balancer-address", true, vec![Conn::V1(SELF4), Conn::V1(SELF4), Conn::V1(SELF4), Conn::V1(C6), Conn::V2(C6), Conn::V2(C6), Conn::V1(B)]),
        ("interleaved", true, vec![Conn::V1(A), Conn::V2(B), Conn::V2(A2), Conn::V1(B), Conn::V1(A), Conn::V1(B), Conn::V2(C6)]),
        ("invalid-headers-spend-nothing", true, vec![Conn::Garbage, Conn::Garbage, Conn::Garbage, Conn::V1(A), Conn::Garbage, Conn::V1(A), Conn::V1(A)]),
        ("unknown-is-the-peer", true, vec![Conn::V1Unknown, Conn::V2Local, Conn::V1Unknown, Conn::V1(A), Conn::V1(SELF4)]),
        ("header-versions-share-a-budget", true, vec![Conn::V1(A), Conn::V2(A2), Conn::V1(A), Conn::V2(A)]),
        ("mapped-v6-is-another-address", true, vec![Conn::V1(A), Conn::V1(A), Conn::V2(M6), Conn::V2(M6), Conn::V2(M6), Conn::V1(A)]),
        ("clients-first-then-health-checks", true, vec![Conn::V1(A), Conn::V1(B), Conn::V2Local, Conn::V2Local, Conn::V2Local, Conn::V1(A), Conn::V1(B), Conn::V1(B)]),
        ("no-proxy-protocol", false, vec![Conn::Plain, Conn::Plain, Conn::Plain]),
    ];
    let mut found = 0;
    for (name, proxy, seq) in &seqs {
        found += rt.block_on(run_sequence(name, *proxy, seq));
    }
    eprintln!("admission: {} sequences, {found} mismatches", seqs.len());
    found
}

/// C17 witness: a connection that arrives after shutdown was requested must not be served. The accept loop is kept busy by a
/// client that stalls in its PROXY header; meanwhile shutdown is requested and further clients connect (they wait in the listen
/// backlog); then the stalled client goes away and the loop has both a pending connection and the cancelled token to choose from.
pub fn shutdown(_seed: u64) -> usize {
    let rt = tokio::runtime::Builder::new_multi_thread().worker_threads(2).enable_all().build().expect("rt");
    let mut found = 0;
    for trial in 0..12 {
        let served = rt.block_on(async {
            let port = std::net::TcpListener::bind("127.0.0.1:0").expect("bind").local_addr().unwrap().port();
            let address = SocketAddr::from(([127, 0, 0, 1], port));
            let stop = CancellationToken::new();
            let token = stop.clone();
            let server = tokio::spawn(async move {
                let mut l = Listener::new(
                    Arc::new(FixedStatusAdapter::default()),
                    Arc::new(FixedDiscoveryAdapter::new(vec![])),
                    Arc::new(Vec::<MetaFilterAdapter>::new()),
                    Arc::new(AnyStrategyAdapter::new()),
                    Arc::new(FixedAuthenticationAdapter::default()),
                    Arc::new(FixedLocalizationAdapter::default()),
                )
                .with_proxy_protocol(Some(ParseConfig { include_tlvs: false, allow_v1: true, allow_v2: true }))
                .with_connection_timeout(Duration::from_secs(3));
                let _ = l.listen(address, token).await.map_err(|e| e.to_string());
            });
            let mut up = false;
            for _ in 0..300 {
                if let Ok(mut s) = TcpStream::connect(address).await {
                    let _ = s.shutdown().await;
                    up = true;
                    break;
                }
                tokio::time::sleep(Duration::from_millis(10)).await;
            }
            if !up {
                return 0usize;
            }
            tokio::time::sleep(Duration::from_millis(50)).await;
            // the stalling client: connected, no header
            let staller = TcpStream::connect(address).await.ok();
            tokio::time::sleep(Duration::from_millis(100)).await;
            stop.cancel();
            tokio::time::sleep(Duration::from_millis(50)).await;
            // connections that arrive after the shutdown request
            let mut late = vec![];
            for i in 0..6u16 {
                let a = address;
                late.push(tokio::spawn(async move { is_served(a, &header(&Conn::V1(if i % 2 == 0 { "203.0.113.7:50000" } else { "198.51.100.9:40000" }))).await }));
            }
            tokio::time::sleep(Duration::from_millis(100)).await;
            drop(staller);
            let mut served = 0usize;
            for h in late {
                if let Ok(true) = h.await {
                    served += 1;
                }
            }
            let _ = tokio::time::timeout(Duration::from_secs(8), server).await;
            served
        });
        if served > 0 {
            println!("REPRODUCED shutdown trial {trial}: {served} of 6 connections that arrived after shutdown had been requested (while the accept loop was busy with a client stalling in its PROXY header) were served");
            found += 1;
            break;
        }
    }
    eprintln!("shutdown: {found} reproduced");
    found
}

/// C16 witness: a client that stalls must not delay another client. One client connects and sends nothing; a second, well-behaved
/// client connects afterwards and must be served within two seconds (the connection timeout of the listener is 30 s here, so a
/// client that is only served after the stalled one timed out counts as delayed).
pub fn stall(_seed: u64) -> usize {
    let rt = tokio::runtime::Builder::new_multi_thread().worker_threads(2).enable_all().build().expect("rt");
    let mut found = 0;
    for proxy in [true, false] {
        let delayed = rt.block_on(async {
            let port = std::net::TcpListener::bind("127.0.0.1:0").expect("bind").local_addr().unwrap().port();
            let address = SocketAddr::from(([127, 0, 0, 1], port));
            let stop = CancellationToken::new();
            let token = stop.clone();
            let server = tokio::spawn(async move {
                let mut l = Listener::new(
                    Arc::new(FixedStatusAdapter::default()),
                    Arc::new(FixedDiscoveryAdapter::new(vec![])),
                    Arc::new(Vec::<MetaFilterAdapter>::new()),
                    Arc::new(AnyStrategyAdapter::new()),
                    Arc::new(FixedAuthenticationAdapter::default()),
                    Arc::new(FixedLocalizationAdapter::default()),
                )
                .with_proxy_protocol(if proxy { Some(ParseConfig { include_tlvs: false, allow_v1: true, allow_v2: true }) } else { None })
                .with_connection_timeout(Duration::from_secs(30));
                let _ = l.listen(address, token).await.map_err(|e| e.to_string());
            });
            let mut up = false;
            for _ in 0..300 {
                if let Ok(mut s) = TcpStream::connect(address).await {
                    let _ = s.shutdown().await;
                    up = true;
                    break;
                }
                tokio::time::sleep(Duration::from_millis(10)).await;
            }
            if !up {
                return false;
            }
            tokio::time::sleep(Duration::from_millis(50)).await;
            // the stalling client: connected, sends nothing at all
            let staller = TcpStream::connect(address).await.ok();
            tokio::time::sleep(Duration::from_millis(100)).await;
            let head = if proxy { header(&Conn::V1("203.0.113.7:50000")) } else { vec![] };
            let served = served_within(address, head.clone(), Duration::from_secs(2));
            drop(staller);
            stop.cancel();
            let _ = tokio::time::timeout(Duration::from_secs(3), server).await;
            !served
        });
        if delayed {
            println!(
                "REPRODUCED stall (proxy protocol {}): while one client was connected and silent, a well-behaved client that connected after it was not served within 2 s",
                if proxy { "on" } else { "off" }
            );
            found += 1;
        }
    }
    // many silent clients at once (no PROXY protocol, no limiter): a well-behaved client is still served at once
    let delayed = rt.block_on(async {
        let port = std::net::TcpListener::bind("127.0.0.1:0").expect("bind").local_addr().unwrap().port();
        let address = SocketAddr::from(([127, 0, 0, 1], port));
        let stop = CancellationToken::new();
        let token = stop.clone();
        let server = tokio::spawn(async move {
            let mut l = Listener::new(
                Arc::new(FixedStatusAdapter::default()),
                Arc::new(FixedDiscoveryAdapter::new(vec![])),
                Arc::new(Vec::<MetaFilterAdapter>::new()),
                Arc::new(AnyStrategyAdapter::new()),
                Arc::new(FixedAuthenticationAdapter::default()),
                Arc::new(FixedLocalizationAdapter::default()),
            )
            .with_connection_timeout(Duration::from_secs(30));
            let _ = l.listen(address, token).await.map_err(|e| e.to_string());
        });
        let mut up = false;
        for _ in 0..300 {
            if let Ok(mut s) = TcpStream::connect(address).await {
                let _ = s.shutdown().await;
                up = true;
                break;
            }
            tokio::time::sleep(Duration::from_millis(10)).await;
        }
        if !up {
            return false;
        }
        let mut silent = vec![];
        for _ in 0..400 {
            if let Ok(s) = TcpStream::connect(address).await {
                silent.push(s);
            }
        }
        tokio::time::sleep(Duration::from_millis(300)).await;
        let served = served_within(address, vec![], Duration::from_secs(2));
        drop(silent);
        stop.cancel();
        let _ = tokio::time::timeout(Duration::from_secs(3), server).await;
        !served
    });
    if delayed {
        println!("REPRODUCED stall (400 silent clients, proxy protocol off): a well-behaved client that connected after them was not served within 2 s");
        found += 1;
    }
    // deaf clients: tiny receive window, they request a status larger than it (a favicon of some 8 KB) plus a ping and never
    // read; their connections run into the 1 s connection timeout and are closed with data still queued. A well-behaved
    // client arriving while that happens is served at once (whatever the server does when it closes them must not block a
    // worker). The clients run on a runtime of their own, so that a stalled server runtime cannot slow down their clocks.
    let delayed = {
        let client_rt = tokio::runtime::Builder::new_current_thread().enable_all().build().expect("client rt");
        let port = std::net::TcpListener::bind("127.0.0.1:0").expect("bind").local_addr().unwrap().port();
        let address = SocketAddr::from(([127, 0, 0, 1], port));
        let stop = CancellationToken::new();
        let token = stop.clone();
        let server = rt.spawn(async move {
            let mut status = passage_adapters::ServerStatus::default();
            status.favicon = Some(format!("data:image/png;base64,{}", "iVBORw0KGgoAAAANSUhEUgAA".repeat(330)));
            let mut l = Listener::new(
                Arc::new(FixedStatusAdapter::new(Some(status), 0, 0, i32::MAX as _)),
                Arc::new(FixedDiscoveryAdapter::new(vec![])),
                Arc::new(Vec::<MetaFilterAdapter>::new()),
                Arc::new(AnyStrategyAdapter::new()),
                Arc::new(FixedAuthenticationAdapter::default()),
                Arc::new(FixedLocalizationAdapter::default()),
            )
            .with_connection_timeout(Duration::from_secs(1));
            let _ = l.listen(address, token).await.map_err(|e| e.to_string());
        });
        let slow = client_rt.block_on(async {
            let mut up = false;
            for _ in 0..300 {
                if let Ok(mut s) = TcpStream::connect(address).await {
                    let _ = s.shutdown().await;
                    up = true;
                    break;
                }
                tokio::time::sleep(Duration::from_millis(10)).await;
            }
            if !up {
                return false;
            }
            let mut deaf = vec![];
            for _ in 0..8 {
                let Ok(sock) = tokio::net::TcpSocket::new_v4() else { continue };
                let _ = sock.set_recv_buffer_size(1);
                let Ok(mut s) = sock.connect(address).await else { continue };
                let _ = s.write_packet(hand_in::HandshakePacket { protocol_version: 0, server_address: "".to_string(), server_port: 0, next_state: State::Status }).await;
                let _ = s.write_packet(status_in::StatusRequestPacket).await;
                let _ = s.write_packet(status_in::PingPacket { payload: 42 }).await;
                deaf.push(s);
            }
            // the deaf connections hit the connection timeout after 1 s; probe from before until well after it
            let mut slow = false;
            for _ in 0..10 {
                tokio::time::sleep(Duration::from_millis(300)).await;
                let served = tokio::time::timeout(Duration::from_secs(2), is_served(address, &[])).await;
                if !matches!(served, Ok(true)) {
                    slow = true;
                    break;
                }
            }
            drop(deaf);
            slow
        });
        stop.cancel();
        let _ = client_rt.block_on(async { tokio::time::timeout(Duration::from_secs(8), server).await });
        slow
    };
    if delayed {
        println!("REPRODUCED stall (8 deaf clients with a tiny receive window that requested an 8 KB status and never read, connection timeout 1 s): a well-behaved client that connected while they were being closed was not served within 2 s");
        found += 1;
    }
    // a client that is over its rate limit and stays silent must not hold up a client with another address
    let delayed = rt.block_on(async {
        let port = std::net::TcpListener::bind("127.0.0.1:0").expect("bind").local_addr().unwrap().port();
        let address = SocketAddr::from(([127, 0, 0, 1], port));
        let stop = CancellationToken::new();
        let token = stop.clone();
        let server = tokio::spawn(async move {
            let mut l = Listener::new(
                Arc::new(FixedStatusAdapter::default()),
                Arc::new(FixedDiscoveryAdapter::new(vec![])),
                Arc::new(Vec::<MetaFilterAdapter>::new()),
                Arc::new(AnyStrategyAdapter::new()),
                Arc::new(FixedAuthenticationAdapter::default()),
                Arc::new(FixedLocalizationAdapter::default()),
            )
            .with_rate_limiter(Some(RateLimiter::<IpAddr>::new(Duration::from_secs(3600), 1)))
            .with_connection_timeout(Duration::from_secs(30));
            let _ = l.listen(address, token).await.map_err(|e| e.to_string());
        });
        let connect_from = |ip: &'static str| async move {
            let sock = tokio::net::TcpSocket::new_v4().ok()?;
            sock.bind(format!("{ip}:0").parse().ok()?).ok()?;
            sock.connect(address).await.ok()
        };
        let mut up = false;
        for _ in 0..300 {
            // the probe comes from a third address and spends that address's budget only
            if let Some(mut s) = connect_from("127.0.0.9").await {
                let _ = s.shutdown().await;
                up = true;
                break;
            }
            tokio::time::sleep(Duration::from_millis(10)).await;
        }
        if !up {
            return false;
        }
        tokio::time::sleep(Duration::from_millis(50)).await;
        // client A uses up its budget with a complete status exchange ..
        let a1 = async {
            let mut s = connect_from("127.0.0.2").await?;
            s.write_packet(hand_in::HandshakePacket { protocol_version: 0, server_address: "".to_string(), server_port: 0, next_state: State::Status }).await.ok()?;
            s.write_packet(status_in::StatusRequestPacket).await.ok()?;
            let r: status_out::StatusResponsePacket = s.read_packet().await.ok()?;
            Some(r)
        };
        let _ = tokio::time::timeout(Duration::from_secs(3), a1).await;
        // .. and opens a second connection on which it stays silent (it is over its limit)
        let silent = connect_from("127.0.0.2").await;
        tokio::time::sleep(Duration::from_millis(150)).await;
        // client B (another address: 127.0.0.1, unused so far) probes from outside the server's runtime
        let served = served_within(address, vec![], Duration::from_secs(2));
        drop(silent);
        stop.cancel();
        let _ = tokio::time::timeout(Duration::from_secs(3), server).await;
        !served
    });
    if delayed {
        println!("REPRODUCED stall (rate limiter on, proxy protocol off): while a client that is over its limit held a second, silent connection open, a client with another address was not served within 2 s");
        found += 1;
    }
    eprintln!("stall: {found} reproduced");
    found
}

/// C14 witness: the configured connection timeout bounds the lifetime of a connection, whatever the client does. Listener with a
/// timeout of 1 s; a silent client, a client that stalls after its handshake and a client that trickles one byte every 300 ms must
/// all find their socket closed by the server within 4 s.
pub fn deadline(_seed: u64) -> usize {
    let rt = tokio::runtime::Builder::new_multi_thread().worker_threads(2).enable_all().build().expect("rt");
    let mut found = 0;
    for mode in ["silent", "stalls-after-handshake", "trickles"] {
        let open_after: Option<u64> = rt.block_on(async {
            use tokio::io::AsyncReadExt;
            let port = std::net::TcpListener::bind("127.0.0.1:0").expect("bind").local_addr().unwrap().port();
            let address = SocketAddr::from(([127, 0, 0, 1], port));
            let stop = CancellationToken::new();
            let token = stop.clone();
            let server = tokio::spawn(async move {
                let mut l = Listener::new(
                    Arc::new(FixedStatusAdapter::default()),
                    Arc::new(FixedDiscoveryAdapter::new(vec![])),
                    Arc::new(Vec::<MetaFilterAdapter>::new()),
                    Arc::new(AnyStrategyAdapter::new()),
                    Arc::new(FixedAuthenticationAdapter::default()),
                    Arc::new(FixedLocalizationAdapter::default()),
                )
                .with_connection_timeout(Duration::from_secs(1));
                let _ = l.listen(address, token).await.map_err(|e| e.to_string());
            });
            let mut up = false;
            for _ in 0..300 {
                if let Ok(mut s) = TcpStream::connect(address).await {
                    let _ = s.shutdown().await;
                    up = true;
                    break;
                }
                tokio::time::sleep(Duration::from_millis(10)).await;
            }
            if !up {
                return None;
            }
            let Ok(stream) = TcpStream::connect(address).await else { return None };
            let (mut rd, mut wr) = stream.into_split();
            let started = std::time::Instant::now();
            let writer = tokio::spawn(async move {
                match mode {
                    "stalls-after-handshake" => {
                        let _ = wr.write_packet(hand_in::HandshakePacket { protocol_version: 0, server_address: "".to_string(), server_port: 0, next_state: State::Status }).await;
                        tokio::time::sleep(Duration::from_secs(6)).await;
                    }
                    "trickles" => {
                        // a 40 byte frame, one byte at a time
                        let mut frame = vec![40u8];
                        frame.extend(std::iter::repeat(0u8).take(40));
                        for b in frame {
                            if wr.write_all(&[b]).await.is_err() {
                                break;
                            }
                            tokio::time::sleep(Duration::from_millis(300)).await;
                        }
                    }
                    _ => tokio::time::sleep(Duration::from_secs(6)).await,
                }
                drop(wr);
            });
            // the server closing its side shows as end of file (or an error) on the read half
            let mut buf = [0u8; 256];
            let closed = tokio::time::timeout(Duration::from_secs(4), async {
                loop {
                    match rd.read(&mut buf).await {
                        Ok(0) | Err(_) => break,
                        Ok(_) => {}
                    }
                }
            })
            .await
            .is_ok();
            writer.abort();
            stop.cancel();
            let _ = tokio::time::timeout(Duration::from_secs(3), server).await;
            if closed { None } else { Some(started.elapsed().as_millis() as u64) }
        });
        if let Some(ms) = open_after {
            println!("REPRODUCED deadline client {mode}: connection timeout 1 s, but the server still held the connection open after {ms} ms");
            found += 1;
        }
    }
    eprintln!("deadline: {found} reproduced");
    found
}

/// C17 witness, second half: connections that are in progress when shutdown is requested run to completion, and `listen` returns
/// only after they have finished. Two variants: (a) no PROXY protocol, the client has sent its handshake but not yet its status
/// request; (b) PROXY protocol on, the client has sent the first half of its PROXY header.
pub fn drain(_seed: u64) -> usize {
    let rt = tokio::runtime::Builder::new_multi_thread().worker_threads(2).enable_all().build().expect("rt");
    let mut found = 0;
    for proxy in [false, true] {
        let problem: Option<String> = rt.block_on(async {
            let port = std::net::TcpListener::bind("127.0.0.1:0").expect("bind").local_addr().unwrap().port();
            let address = SocketAddr::from(([127, 0, 0, 1], port));
            let stop = CancellationToken::new();
            let token = stop.clone();
            let server = tokio::spawn(async move {
                let mut l = Listener::new(
                    Arc::new(FixedStatusAdapter::default()),
                    Arc::new(FixedDiscoveryAdapter::new(vec![])),
                    Arc::new(Vec::<MetaFilterAdapter>::new()),
                    Arc::new(AnyStrategyAdapter::new()),
                    Arc::new(FixedAuthenticationAdapter::default()),
                    Arc::new(FixedLocalizationAdapter::default()),
                )
                .with_proxy_protocol(if proxy { Some(ParseConfig { include_tlvs: false, allow_v1: true, allow_v2: true }) } else { None })
                .with_connection_timeout(Duration::from_secs(10));
                let _ = l.listen(address, token).await.map_err(|e| e.to_string());
            });
            let mut up = false;
            for _ in 0..300 {
                if let Ok(mut s) = TcpStream::connect(address).await {
                    let _ = s.shutdown().await;
                    up = true;
                    break;
                }
                tokio::time::sleep(Duration::from_millis(10)).await;
            }
            if !up {
                return None;
            }
            tokio::time::sleep(Duration::from_millis(100)).await;
            let Ok(mut stream) = TcpStream::connect(address).await else { return None };
            let head = header(&Conn::V1("203.0.113.7:50000"));
            // the part of the exchange that happens before the shutdown request
            let first: Result<(), std::io::Error> = async {
                if proxy {
                    stream.write_all(&head[..head.len() / 2]).await?;
                } else {
                    stream
                        .write_packet(hand_in::HandshakePacket { protocol_version: 0, server_address: "".to_string(), server_port: 0, next_state: State::Status })
                        .await
                        .map_err(|e| std::io::Error::other(e.to_string()))?;
                }
                stream.flush().await
            }
            .await;
            if first.is_err() {
                return Some("the client could not start its exchange".into());
            }
            tokio::time::sleep(Duration::from_millis(150)).await;
            stop.cancel();
            tokio::time::sleep(Duration::from_millis(300)).await;
            if server.is_finished() {
                return Some("listen() returned although a connection accepted before the shutdown request was still in progress".into());
            }
            // the rest of the exchange
            let rest = async {
                if proxy {
                    stream.write_all(&head[head.len() / 2..]).await.ok()?;
                    stream
                        .write_packet(hand_in::HandshakePacket { protocol_version: 0, server_address: "".to_string(), server_port: 0, next_state: State::Status })
                        .await
                        .ok()?;
                }
                stream.write_packet(status_in::StatusRequestPacket).await.ok()?;
                let response: status_out::StatusResponsePacket = stream.read_packet().await.ok()?;
                Some(response)
            };
            let served = matches!(tokio::time::timeout(Duration::from_secs(5), rest).await, Ok(Some(_)));
            drop(stream);
            let returned = tokio::time::timeout(Duration::from_secs(15), server).await.is_ok();
            if !served {
                return Some("a connection that was in progress when shutdown was requested was not served to completion".into());
            }
            if !returned {
                return Some("listen() did not return after the last connection in progress had finished".into());
            }
            None
        });
        if let Some(p) = problem {
            println!("REPRODUCED drain (proxy protocol {}): {p}", if proxy { "on" } else { "off" });
            found += 1;
        }
    }
    eprintln!("drain: {found} reproduced");
    found
}
