//! C12 witness: the has-joined request as it appears on the wire (loopback mock of the session server).
use passage_adapters::authentication::{minecraft_hash, AuthenticationAdapter};
use passage_adapters_http::MojangAdapter;
use std::net::SocketAddr;
use std::str::FromStr;
use tokio::io::{AsyncReadExt, AsyncWriteExt};
use tokio::net::TcpListener;
use uuid::Uuid;

fn pct_decode(s: &str) -> String {
    let b = s.as_bytes();
    let mut out = vec![];
    let mut i = 0;
    while i < b.len() {
        match b[i] {
            b'%' if i + 2 < b.len() + 0 && i + 2 <= b.len() - 1 + 1 && i + 2 < b.len() + 1 => {
                if i + 2 < b.len() + 1 && i + 2 <= b.len() {
                    if let Ok(v) = u8::from_str_radix(std::str::from_utf8(&b[i + 1..(i + 3).min(b.len())]).unwrap_or("zz"), 16) {
                        out.push(v);
                        i += 3;
                        continue;
                    }
                }
                out.push(b'%');
                i += 1;
            }
            b'+' => { out.push(b' '); i += 1; }
            c => { out.push(c); i += 1; }
        }
    }
    String::from_utf8_lossy(&out).to_string()
}

pub fn request(_seed: u64) -> usize {
    let rt = tokio::runtime::Builder::new_multi_thread().worker_threads(2).enable_all().build().expect("rt");
    let mut found = 0;
    let names = ["Steve", "a&serverId=b", "x y", "q?r#s", "100%", "a+b", "ä/ö", "n=1", "tab\there", "", " ", "line\nfeed", "cr\rhere", "semi;colon", "\u{1F600}", "a&username=b", "%41", "[x]", "../../x", "a\\b", "\"quoted\"", "long_name_with_sixteen_plus_characters_0123456789"];
    rt.block_on(async {
        let listener = TcpListener::bind("127.0.0.1:0").await.expect("bind");
        let port = listener.local_addr().unwrap().port();
        unsafe { std::env::set_var("PASSAGE_VERIF_SESSION_URL", format!("http://127.0.0.1:{port}")); }
        let secret = b"verysecuresecret";
        let key = b"publickeybytes";
        let server_ids = ["srv", "", " lobby", "lobby ", " lobby ", "passage-eu1\n", "\tx", "Srv"];
        for (ni, name) in names.iter().copied().enumerate() {
            // the configured server id enters the hash exactly as configured (no trimming, no case folding)
            let server_id = server_ids[ni % server_ids.len()];
            let adapter = MojangAdapter::default().with_server_id(server_id.to_string());
            let expect_hash = reference_hash(server_id, secret, key);
            let accept = tokio::spawn({
                let l = &listener as *const TcpListener as usize;
                async move {
                    let l = unsafe { &*(l as *const TcpListener) };
                    let (mut s, _) = l.accept().await.ok()?;
                    let mut buf = vec![0u8; 8192];
                    let mut n = 0;
                    loop {
                        let k = s.read(&mut buf[n..]).await.ok()?;
                        if k == 0 { break; }
                        n += k;
                        if buf[..n].windows(4).any(|w| w == b"\r\n\r\n") { break; }
                    }
                    let body = b"{\"id\":\"09879557e47945a9b434a56377674627\",\"name\":\"X\",\"properties\":[]}";
                    let resp = format!("HTTP/1.1 200 OK\r\ncontent-type: application/json\r\ncontent-length: {}\r\nconnection: close\r\n\r\n", body.len());
                    let _ = s.write_all(resp.as_bytes()).await;
                    let _ = s.write_all(body).await;
                    let _ = s.shutdown().await;
                    Some(String::from_utf8_lossy(&buf[..n]).to_string())
                }
            });
            let addr = SocketAddr::from_str("127.0.0.1:1").unwrap();
            let id = Uuid::nil();
            let _ = tokio::time::timeout(std::time::Duration::from_secs(5), adapter.authenticate(&addr, ("h", 1), 767, (name, &id), secret, key)).await;
            let head = match tokio::time::timeout(std::time::Duration::from_secs(5), accept).await { Ok(Ok(Some(h))) => h, _ => { println!("REPRODUCED mojang user name {name:?}: no request reached the session server mock"); found += 1; continue; } };
            let line = head.lines().next().unwrap_or("").to_string();
            let target = line.split(' ').nth(1).unwrap_or("");
            let (path, query) = target.split_once('?').unwrap_or((target, ""));
            let pairs: Vec<(String, String)> = query.split('&').filter(|p| !p.is_empty()).map(|p| { let (k, v) = p.split_once('=').unwrap_or((p, "")); (pct_decode(k), pct_decode(v)) }).collect();
            let want = vec![("username".to_string(), name.to_string()), ("serverId".to_string(), expect_hash.clone())];
            if path != "/session/minecraft/hasJoined" || pairs != want {
                println!("REPRODUCED mojang claimed user name {name:?}: request line {line:?} decodes to path {path:?} and parameters {pairs:?}, expected exactly {want:?}");
                found += 1;
            }
        }
        // the session server answers the first request of a login with an error status (5xx, 429, 404): whatever the adapter does next
        // (give up, or ask again), every request it sends for this login is the same well-formed one
        for (status, name) in [(503u16, "Steve"), (500, "a&serverId=b"), (502, "x y"), (429, "Steve"), (404, "q?r#s")] {
            let adapter = MojangAdapter::default().with_server_id("srv".to_string());
            let expect_hash = reference_hash("srv", secret, key);
            let mock = tokio::spawn({
                let l = &listener as *const TcpListener as usize;
                async move {
                    let l = unsafe { &*(l as *const TcpListener) };
                    let mut heads = Vec::<String>::new();
                    for i in 0..6 {
                        let Ok(Ok((mut s, _))) = tokio::time::timeout(std::time::Duration::from_millis(if i == 0 { 3000 } else { 900 }), l.accept()).await else { break };
                        let mut buf = vec![0u8; 8192];
                        let mut n = 0;
                        loop {
                            let Ok(k) = s.read(&mut buf[n..]).await else { break };
                            if k == 0 { break; }
                            n += k;
                            if buf[..n].windows(4).any(|w| w == b"\r\n\r\n") { break; }
                        }
                        heads.push(String::from_utf8_lossy(&buf[..n]).lines().next().unwrap_or("").to_string());
                        let body: &[u8] = if i == 0 { b"{}" } else { b"{\"id\":\"09879557e47945a9b434a56377674627\",\"name\":\"X\",\"properties\":[]}" };
                        let line = if i == 0 { format!("HTTP/1.1 {status} Error") } else { "HTTP/1.1 200 OK".to_string() };
                        let resp = format!("{line}\r\ncontent-type: application/json\r\ncontent-length: {}\r\nconnection: close\r\n\r\n", body.len());
                        let _ = s.write_all(resp.as_bytes()).await;
                        let _ = s.write_all(body).await;
                        let _ = s.shutdown().await;
                    }
                    heads
                }
            });
            let addr = SocketAddr::from_str("127.0.0.1:1").unwrap();
            let id = Uuid::nil();
            let _ = tokio::time::timeout(std::time::Duration::from_secs(8), adapter.authenticate(&addr, ("h", 1), 767, (name, &id), secret, key)).await;
            let heads = tokio::time::timeout(std::time::Duration::from_secs(10), mock).await.ok().and_then(|r| r.ok()).unwrap_or_default();
            if heads.is_empty() { println!("REPRODUCED mojang user name {name:?} (first answer {status}): no request reached the session server mock"); found += 1; }
            let want = vec![("username".to_string(), name.to_string()), ("serverId".to_string(), expect_hash.clone())];
            for (i, line) in heads.iter().enumerate() {
                let target = line.split(' ').nth(1).unwrap_or("");
                let (path, query) = target.split_once('?').unwrap_or((target, ""));
                let pairs: Vec<(String, String)> = query.split('&').filter(|p| !p.is_empty()).map(|p| { let (k, v) = p.split_once('=').unwrap_or((p, "")); (pct_decode(k), pct_decode(v)) }).collect();
                if path != "/session/minecraft/hasJoined" || pairs != want {
                    println!("REPRODUCED mojang claimed user name {name:?}, request #{} of the login after the session server answered the first with {status}: request line {line:?} decodes to path {path:?} and parameters {pairs:?}, expected exactly {want:?}", i + 1);
                    found += 1;
                }
            }
        }
        // two connections claim the same name while the first lookup is still unanswered (the mock answers after 400 ms): each
        // connection's own has-joined request must reach the session server, with that connection's hash
        let adapter = std::sync::Arc::new(MojangAdapter::default().with_server_id("srv".to_string()));
        let secrets: [&'static [u8]; 2] = [b"verysecuresecret", b"anothersecret123"];
        let heads = std::sync::Arc::new(std::sync::Mutex::new(Vec::<String>::new()));
        let mock = tokio::spawn({
            let l = &listener as *const TcpListener as usize;
            let heads = heads.clone();
            async move {
                let l = unsafe { &*(l as *const TcpListener) };
                let mut conns = vec![];
                for _ in 0..2 {
                    let Ok(Ok((mut s, _))) = tokio::time::timeout(std::time::Duration::from_secs(3), l.accept()).await else { break };
                    let heads = heads.clone();
                    conns.push(tokio::spawn(async move {
                        let mut buf = vec![0u8; 8192];
                        let mut n = 0;
                        loop {
                            let Ok(k) = s.read(&mut buf[n..]).await else { return };
                            if k == 0 { break; }
                            n += k;
                            if buf[..n].windows(4).any(|w| w == b"\r\n\r\n") { break; }
                        }
                        heads.lock().unwrap().push(String::from_utf8_lossy(&buf[..n]).lines().next().unwrap_or("").to_string());
                        tokio::time::sleep(std::time::Duration::from_millis(400)).await;
                        let body = b"{\"id\":\"09879557e47945a9b434a56377674627\",\"name\":\"X\",\"properties\":[]}";
                        let resp = format!("HTTP/1.1 200 OK\r\ncontent-type: application/json\r\ncontent-length: {}\r\nconnection: close\r\n\r\n", body.len());
                        let _ = s.write_all(resp.as_bytes()).await;
                        let _ = s.write_all(body).await;
                        let _ = s.shutdown().await;
                    }));
                }
                for c in conns { let _ = c.await; }
            }
        });
        let mut logins = vec![];
        for sec in secrets {
            let adapter = adapter.clone();
            logins.push(tokio::spawn(async move {
                let addr = SocketAddr::from_str("127.0.0.1:1").unwrap();
                let id = Uuid::nil();
                let _ = tokio::time::timeout(std::time::Duration::from_secs(5), adapter.authenticate(&addr, ("h", 1), 767, ("Steve", &id), sec, key)).await;
            }));
            tokio::time::sleep(std::time::Duration::from_millis(100)).await;
        }
        for l in logins { let _ = l.await; }
        let _ = tokio::time::timeout(std::time::Duration::from_secs(6), mock).await;
        let mut got: Vec<String> = heads.lock().unwrap().iter().map(|line| {
            let target = line.split(' ').nth(1).unwrap_or("");
            target.split_once("serverId=").map(|(_, h)| pct_decode(h.split('&').next().unwrap_or(""))).unwrap_or_default()
        }).collect();
        got.sort();
        let mut want: Vec<String> = secrets.iter().map(|sec| reference_hash("srv", sec, key)).collect();
        want.sort();
        if got != want {
            println!("REPRODUCED mojang two overlapping logins claiming \"Steve\" (different shared secrets): the session server mock received serverId values {got:?}, expected one request per connection with {want:?}");
            found += 1;
        }
    });
    found
}

/// independent reference: signed hex of SHA-1(server id ++ secret ++ key) (two's complement, minimal digits)
fn reference_hash(server_id: &str, secret: &[u8], key: &[u8]) -> String {
    use sha1::{Digest, Sha1};
    let mut h = Sha1::new();
    h.update(server_id.as_bytes());
    h.update(secret);
    h.update(key);
    let mut d: Vec<u8> = h.finalize().to_vec();
    let neg = d[0] & 0x80 != 0;
    if neg {
        let mut carry = true;
        for b in d.iter_mut().rev() {
            *b = !*b;
            if carry {
                let (v, c) = b.overflowing_add(1);
                *b = v;
                carry = c;
            }
        }
    }
    let hex: String = d.iter().map(|b| format!("{b:02x}")).collect();
    let t = hex.trim_start_matches('0');
    format!("{}{}", if neg { "-" } else { "" }, if t.is_empty() { "0" } else { t })
}

/// C11: published vectors of Minecraft's signed SHA-1 hex digest, through the real minecraft_hash
pub fn mchash(_seed: u64) -> usize {
    let mut found = 0;
    for (name, want) in [
        ("Notch", "4ed1f46bbe04bc756bcb17c0c7ce3e4632f06a48"),
        ("jeb_", "-7c9d5b0044c130109a5d7b5fb5c317c02b4e28c1"),
        ("simon", "88e16a1019277b15d58faf0541e11910eb756f6"),
    ] {
        // the three inputs are hashed one after the other, so any split of the same bytes must give the same result
        for (a, b, c) in [(name, "", ""), ("", name, ""), ("", "", name), (&name[..1], &name[1..2], &name[2..])] {
            let got = minecraft_hash(a, b.as_bytes(), c.as_bytes());
            if got != want {
                println!("REPRODUCED mchash minecraft_hash({a:?}, {b:?}, {c:?}) = {got:?}, Minecraft's digest of {name:?} is {want:?}");
                found += 1;
            }
        }
    }
    // independent reference: SHA-1 of the concatenation read as a signed big-endian number, printed in hex
    // (two's complement negation with carry through all 20 bytes, no leading zeros); 60000 inputs give about a hundred
    // each of: negative digests ending in 0x00 (carry), digests starting with a zero nibble / byte
    use sha1::{Digest, Sha1};
    for i in 0..60000u32 {
        // the same server id three times in a row with different secrets (one listener hashes with one id for every login): the
        // result may depend on nothing but the three arguments
        let (a, b, c) = (format!("passage-{}", i / 3), format!("secret{}", i % 7), [i as u8, (i >> 8) as u8, 0x80, 0xff]);
        let mut h = Sha1::new();
        h.update(a.as_bytes());
        h.update(b.as_bytes());
        h.update(c);
        let mut d: [u8; 20] = h.finalize().into();
        let neg = d[0] & 0x80 != 0;
        if neg {
            let mut carry = 1u16;
            for k in (0..20).rev() {
                let v = (!d[k]) as u16 + carry;
                d[k] = v as u8;
                carry = v >> 8;
            }
        }
        let mut hex = String::new();
        for byte in d {
            hex.push(char::from_digit((byte >> 4) as u32, 16).unwrap());
            hex.push(char::from_digit((byte & 15) as u32, 16).unwrap());
        }
        let t = hex.trim_start_matches('0');
        let want = if t.is_empty() { "0".to_string() } else if neg { format!("-{t}") } else { t.to_string() };
        let got = minecraft_hash(&a, b.as_bytes(), &c);
        if got != want {
            if found < 5 {
                println!("REPRODUCED mchash minecraft_hash({a:?}, {b:?}, {c:?}) = {got:?}, the signed hex SHA-1 digest is {want:?}");
            }
            found += 1;
        }
    }
    found
}
