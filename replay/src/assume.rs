//! Native sanity tests of the library contracts that the Verus / Kani preludes *assume* (they are not proofs: a contract is sampled,
//! not verified). A line `REPRODUCED assume ...` means that an environment contract of a prelude does not describe the real library:
//! the checks then answer exit 2 (broken assumption), never a verdict on the property.

use std::collections::{BTreeMap, HashMap};
use std::net::{IpAddr, Ipv4Addr, Ipv6Addr, SocketAddr};
use std::str::FromStr;

fn xorshift(x: &mut u64) -> u64 {
    *x ^= *x << 13;
    *x ^= *x >> 7;
    *x ^= *x << 17;
    *x
}

pub fn all(seed: u64) -> usize {
    let mut found = 0;
    let mut x = seed.wrapping_mul(0x9E3779B97F4A7C15) | 1;
    let mut fail = |what: &str| {
        println!("REPRODUCED assume {what}");
        found += 1;
    };

    // lib/netmodel.rs: Ipv6Addr::to_ipv4 / to_ipv4_mapped / to_canonical, Ipv4Addr::to_ipv6_mapped, bit tests
    for _ in 0..20000 {
        let hi = xorshift(&mut x);
        let lo = xorshift(&mut x);
        let bits: u128 = match xorshift(&mut x) % 4 {
            0 => ((hi as u128) << 64) | lo as u128,
            1 => lo as u32 as u128,
            2 => 0xffff_0000_0000u128 | (lo as u32 as u128),
            _ => (lo as u128) & 0xffff_ffff_ffff,
        };
        let a = Ipv6Addr::from(bits);
        let model_mapped = if bits >> 32 == 0xffff { Some(Ipv4Addr::from((bits & 0xffff_ffff) as u32)) } else { None };
        if a.to_ipv4_mapped() != model_mapped {
            fail(&format!("Ipv6Addr::to_ipv4_mapped({a}) = {:?}, netmodel says {:?}", a.to_ipv4_mapped(), model_mapped));
            break;
        }
        let model_v4 = if bits >> 32 == 0xffff || bits >> 32 == 0 { Some(Ipv4Addr::from((bits & 0xffff_ffff) as u32)) } else { None };
        if a.to_ipv4() != model_v4 {
            fail(&format!("Ipv6Addr::to_ipv4({a}) = {:?}, netmodel says {:?}", a.to_ipv4(), model_v4));
            break;
        }
        let model_canon = match model_mapped { Some(v4) => IpAddr::V4(v4), None => IpAddr::V6(a) };
        if IpAddr::V6(a).to_canonical() != model_canon {
            fail(&format!("IpAddr::to_canonical({a}) differs from netmodel"));
            break;
        }
        let v4 = Ipv4Addr::from(lo as u32);
        if u128::from(v4.to_ipv6_mapped()) != (0xffff_0000_0000u128 | (lo as u32 as u128)) || v4.is_loopback() != ((lo as u32) >> 24 == 127) || v4.is_unspecified() != (lo as u32 == 0) {
            fail(&format!("Ipv4Addr::to_ipv6_mapped / is_loopback / is_unspecified({v4}) differ from netmodel"));
            break;
        }
        // Display / FromStr round trip (U10 axiom_parse_ip_text), "ip:port" parses for IPv4 only, brackets for IPv6
        for ip in [IpAddr::V6(a), IpAddr::V4(v4)] {
            if IpAddr::from_str(&ip.to_string()) != Ok(ip) {
                fail(&format!("IpAddr::from_str(to_string({ip})) is not the address"));
            }
            let port = (hi & 0xffff) as u16;
            let unbracketed = SocketAddr::from_str(&format!("{ip}:{port}"));
            match ip {
                IpAddr::V4(_) if unbracketed != Ok(SocketAddr::new(ip, port)) => fail(&format!("\"{ip}:{port}\" does not parse as that socket address")),
                IpAddr::V6(_) if unbracketed.is_ok() => fail(&format!("\"{ip}:{port}\" (IPv6 without brackets) parses")),
                _ => {}
            }
        }
        if SocketAddr::from_str(&format!("10.0.0.1:{}", 65536 + (lo % 1000))).is_ok() {
            fail("a port above 65535 parses");
        }
    }

    // lib/itermodel.rs / R32 / R35: what the iterator adaptors run
    let v = vec![3u32, 9, 1, 9, 4, 9, 2];
    if v.iter().enumerate().max_by_key(|(_, k)| **k).map(|(i, _)| i) != Some(5) {
        fail("Iterator::max_by_key does not keep the last of several maxima");
    }
    let mut visited = 0;
    let hit = v.iter().any(|k| { visited += 1; *k == 9 });
    if !hit || visited != 2 {
        fail("Iterator::any does not stop at the first hit");
    }
    let mut visited = 0;
    let ok = v.iter().all(|k| { visited += 1; *k != 1 });
    if ok || visited != 3 {
        fail("Iterator::all does not stop at the first miss");
    }
    if v.iter().position(|k| *k == 9) != Some(1) {
        fail("Iterator::position is not the first index");
    }
    let kept: Vec<u32> = v.clone().into_iter().filter(|k| k % 2 == 1).collect();
    if kept != vec![3, 9, 1, 9, 9] {
        fail("filter + collect does not keep the matching items in order");
    }
    let r: Result<Vec<u32>, u32> = vec![Ok(1), Err(7), Ok(2), Err(8)].into_iter().collect();
    if r != Err(7) {
        fail("collect::<Result<Vec<_>, _>>() is not 'first error wins'");
    }
    // HashMap / BTreeMap with String keys: finite map of contents, iteration visits every entry once, FromIterator inserts in order
    let pairs = vec![("a", "1"), ("b", "2"), ("a", "3"), ("", "4")];
    let m: HashMap<String, String> = pairs.iter().map(|(k, v)| (k.to_string(), v.to_string())).collect();
    if m.len() != 3 || m.get("a").map(|s| s.as_str()) != Some("3") || m.get(&"".to_string()).map(|s| s.as_str()) != Some("4") || m.get("zz").is_some() {
        fail("HashMap<String, String> from an iterator is not 'insert in order, later wins' / get is not lookup by content");
    }
    let mut seen: Vec<(&String, &String)> = m.iter().collect();
    seen.sort();
    seen.dedup();
    if seen.len() != m.len() {
        fail("HashMap::iter does not visit every entry exactly once");
    }
    let bm: BTreeMap<String, String> = m.clone().into_iter().collect();
    if (&bm).into_iter().count() != 3 {
        fail("BTreeMap iteration does not visit every entry once");
    }
    // lib/strmodel.rs: comparisons through references compare contents
    let (s1, s2) = ("Ready".to_string(), String::from("Rea") + "dy");
    if !(&s1 == &s2 && s1 == "Ready" && &s1 == "Ready" && s1 != "Allocated") {
        fail("String comparisons through references do not compare contents");
    }
    // Vec::swap_remove / index assignment (vstd specs used in U15)
    let mut w = vec![10, 20, 30, 40];
    if w.swap_remove(1) != 20 || w != vec![10, 40, 30] {
        fail("Vec::swap_remove does not move the last element into the hole");
    }
    // u32 Display / parse, [String]::join (U14, U15)
    if 4_294_967_295u32.to_string() != "4294967295" || "0012".parse::<u32>() != Ok(12) || "-1".parse::<u32>().is_ok() || " 1".parse::<u32>().is_ok() {
        fail("u32 Display / FromStr differ from the decimal model");
    }
    if vec!["a".to_string(), "".to_string(), "b".to_string()].join(",") != "a,,b" || Vec::<String>::new().join(",") != "" {
        fail("[String]::join differs from 'parts separated by the separator'");
    }
    // Option / Result combinators rewritten by R29 (same value, no evaluation reordered)
    let o: Option<u32> = Some(3);
    if o.map_or(7, |v| v + 1) != 4 || None::<u32>.map_or(7, |v| v + 1) != 7 || o.and_then(|v| if v > 2 { Some(v) } else { None }) != Some(3)
        || Some(Err::<u32, u8>(1)).transpose() != Err(1) || None::<Result<u32, u8>>.transpose() != Ok(None)
    {
        fail("Option::map_or / and_then / transpose differ from their match forms");
    }
    found
}
