//! Packet-level witnesses (C09 round trip against an independent reference encoder; C04 malformed input).
use crate::{cursor, max_alloc, reset_alloc, rt};
use passage_packets::configuration::clientbound as conf_out;
use passage_packets::configuration::serverbound as conf_in;
use passage_packets::handshake::serverbound as hand_in;
use passage_packets::login::clientbound as login_out;
use passage_packets::login::serverbound as login_in;
use passage_packets::status::clientbound as status_out;
use passage_packets::status::serverbound as status_in;
use passage_packets::{ChatMode, DisplayedSkinParts, MainHand, Packet, ParticleStatus, ReadPacket, ResourcePackResult, State, WritePacket};
use std::fmt::Debug;
use uuid::Uuid;

/// reference encoder written from the protocol description
#[derive(Default)]
struct Enc(Vec<u8>);
impl Enc {
    fn varu(mut self, mut n: u64) -> Self {
        loop {
            let g = (n % 128) as u8;
            n /= 128;
            if n == 0 {
                self.0.push(g);
                return self;
            }
            self.0.push(g | 0x80);
        }
    }
    fn varint(self, v: i32) -> Self {
        self.varu((v as u32) as u64)
    }
    fn bytes(mut self, b: &[u8]) -> Self {
        self = self.varint(b.len() as i32);
        self.0.extend_from_slice(b);
        self
    }
    fn string(self, s: &str) -> Self {
        self.bytes(s.as_bytes())
    }
    fn be(mut self, v: u128, n: usize) -> Self {
        for k in (0..n).rev() {
            self.0.push(((v >> (8 * k)) & 0xff) as u8);
        }
        self
    }
    fn bool(mut self, b: bool) -> Self {
        self.0.push(if b { 1 } else { 0 });
        self
    }
    fn text(mut self, s: &str) -> Self {
        self.0.push(8);
        self = self.be(s.len() as u128, 2);
        self.0.extend_from_slice(s.as_bytes());
        self
    }
}

fn strings() -> Vec<String> {
    vec![String::new(), "a".into(), "héllo wörld ✓ 𝄞".into(), "x".repeat(127), "y".repeat(128), "z".repeat(300), "\u{0}\u{7f}\u{80}\u{7ff}\u{800}\u{ffff}\u{10000}".into()]
}

fn check<T>(found: &mut usize, id: i32, p: T, expect: Vec<u8>)
where
    T: WritePacket + ReadPacket + Packet + PartialEq + Debug + Send + Sync,
{
    let rt = rt();
    if T::ID != id {
        println!("REPRODUCED packets {} has id {:#x}, protocol says {:#x}", std::any::type_name::<T>(), T::ID, id);
        *found += 1;
    }
    let mut w: Vec<u8> = vec![];
    if let Err(e) = rt.block_on(p.write_to_buffer(&mut w)) {
        println!("REPRODUCED packets {:?} failed to encode: {e}", p);
        *found += 1;
        return;
    }
    if w != expect {
        println!("REPRODUCED packets {:?} encodes to {:?}, protocol layout is {:?}", p, w, expect);
        *found += 1;
        return;
    }
    let mut c = cursor(&w);
    match rt.block_on(T::read_from_buffer(&mut c)) {
        Ok(q) if q == p && c.position() as usize == w.len() => {}
        other => {
            println!("REPRODUCED packets decode(encode({:?})) -> {:?}, consumed {} of {}", p, other.map_err(|e| e.to_string()), c.position(), w.len());
            *found += 1;
        }
    }
}

pub fn roundtrip(_seed: u64) -> usize {
    let mut f = 0usize;
    let uuids = [Uuid::nil(), Uuid::from_u128(u128::MAX), Uuid::from_u128(0x0123456789abcdef_fedcba9876543210)];
    let ints = [0i32, 1, -1, 127, 128, 300, i32::MAX, i32::MIN, 47, 767];
    for s in strings() {
        for (k, st) in [(1, State::Status), (2, State::Login), (3, State::Transfer)] {
            for port in [0u16, 1, 255, 256, 25565, u16::MAX] {
                for pv in ints {
                    check(&mut f, 0x00, hand_in::HandshakePacket { protocol_version: pv, server_address: s.clone(), server_port: port, next_state: st },
                          Enc::default().varint(pv).string(&s).be(port as u128, 2).varint(k).0);
                }
            }
        }
        check(&mut f, 0x00, status_out::StatusResponsePacket { body: s.clone() }, Enc::default().string(&s).0);
        check(&mut f, 0x00, login_out::DisconnectPacket { reason: s.clone() }, Enc::default().string(&s).0);
        check(&mut f, 0x05, login_out::CookieRequestPacket { key: s.clone() }, Enc::default().string(&s).0);
        check(&mut f, 0x00, conf_out::CookieRequestPacket { key: s.clone() }, Enc::default().string(&s).0);
        if !s.starts_with('{') {
            check(&mut f, 0x02, conf_out::DisconnectPacket { reason: s.clone() }, Enc::default().text(&s).0);
        }
        for u in uuids {
            check(&mut f, 0x02, login_out::LoginSuccessPacket { user_id: u, user_name: s.clone() }, Enc::default().be(u.as_u128(), 16).string(&s).varint(0).0);
            check(&mut f, 0x00, login_in::LoginStartPacket { user_name: s.clone(), user_id: u }, Enc::default().string(&s).be(u.as_u128(), 16).0);
            for forced in [false, true] {
                for pm in [None, Some(s.clone())] {
                    let mut e = Enc::default().be(u.as_u128(), 16).string(&s).string("hash").bool(forced).bool(pm.is_some());
                    if let Some(m) = &pm {
                        e = e.text(m);
                    }
                    check(&mut f, 0x09, conf_out::AddResourcePackPacket { uuid: u, url: s.clone(), hash: "hash".into(), forced, prompt_message: pm.clone() }, e.0);
                }
            }
        }
        // byte arrays around every VarInt prefix boundary and around the protocol's cookie limit (5120 bytes)
        let mut payloads: Vec<Vec<u8>> = vec![vec![], vec![0], vec![0xff; 127], vec![7; 128], (0..=255u8).collect()];
        if s.len() <= 1 {
            for n in [5117usize, 5118, 5119, 5120, 16383, 16384, 32767] {
                payloads.push((0..n).map(|i| (i % 251) as u8).collect());
            }
        }
        for pl in &payloads {
            check(&mut f, 0x0A, conf_out::StoreCookiePacket { key: s.clone(), payload: pl.clone() }, Enc::default().string(&s).bytes(pl).0);
            check(&mut f, 0x04, login_in::CookieResponsePacket { key: s.clone(), payload: Some(pl.clone()) }, Enc::default().string(&s).bool(true).bytes(pl).0);
            check(&mut f, 0x01, login_in::EncryptionResponsePacket { shared_secret: pl.clone(), verify_token: pl.clone() }, Enc::default().bytes(pl).bytes(pl).0);
            for sa in [false, true] {
                let tok = [0x5au8; 32];
                check(&mut f, 0x01, login_out::EncryptionRequestPacket { server_id: s.clone(), public_key: pl.clone(), verify_token: tok, should_authenticate: sa },
                      Enc::default().string(&s).bytes(pl).bytes(&tok).bool(sa).0);
            }
        }
        check(&mut f, 0x04, login_in::CookieResponsePacket { key: s.clone(), payload: None }, Enc::default().string(&s).bool(false).0);
        for port in [0u16, 1, 127, 128, 25565, u16::MAX] {
            check(&mut f, 0x0B, conf_out::TransferPacket { host: s.clone(), port }, Enc::default().string(&s).varint(port as i32).0);
        }
        for (ci, cm) in [(0, ChatMode::Enabled), (1, ChatMode::CommandsOnly), (2, ChatMode::Hidden)] {
            for (hi, mh) in [(0, MainHand::Left), (1, MainHand::Right)] {
                for (pi, ps) in [(0, ParticleStatus::All), (1, ParticleStatus::Decreased), (2, ParticleStatus::Minimal)] {
                    for vd in [0i8, 1, -1, i8::MAX, i8::MIN] {
                        for skin in [0u8, 0x7f, 0xff] {
                            let p = conf_in::ClientInformationPacket { locale: s.clone(), view_distance: vd, chat_mode: cm, chat_colors: skin & 1 == 1,
                                displayed_skin_parts: DisplayedSkinParts(skin), main_hand: mh, enable_text_filtering: vd > 0, allow_server_listing: vd < 0, particle_status: ps };
                            let e = Enc::default().string(&s).be((vd as u8) as u128, 1).varint(ci).bool(skin & 1 == 1).be(skin as u128, 1).varint(hi).bool(vd > 0).bool(vd < 0).varint(pi);
                            check(&mut f, 0x00, p, e.0);
                        }
                    }
                }
            }
        }
        if f > 5 {
            return f;
        }
    }
    for v in [0u64, 1, 255, 256, u64::MAX, 0x0102030405060708] {
        check(&mut f, 0x01, status_out::PongPacket { payload: v }, Enc::default().be(v as u128, 8).0);
        check(&mut f, 0x01, status_in::PingPacket { payload: v }, Enc::default().be(v as u128, 8).0);
        check(&mut f, 0x04, conf_out::KeepAlivePacket { id: v }, Enc::default().be(v as u128, 8).0);
        check(&mut f, 0x04, conf_in::KeepAlivePacket { id: v }, Enc::default().be(v as u128, 8).0);
    }
    for v in ints {
        check(&mut f, 0x05, conf_out::PingPacket { id: v }, Enc::default().be((v as u32) as u128, 4).0);
        check(&mut f, 0x05, conf_in::PongPacket { id: v }, Enc::default().be((v as u32) as u128, 4).0);
    }
    let results = [ResourcePackResult::Success, ResourcePackResult::Declined, ResourcePackResult::DownloadFailed, ResourcePackResult::Accepted,
        ResourcePackResult::Downloaded, ResourcePackResult::InvalidUrl, ResourcePackResult::ReloadFailed, ResourcePackResult::Discorded];
    for (k, r) in results.iter().enumerate() {
        for u in uuids {
            check(&mut f, 0x06, conf_in::ResourcePackResponsePacket { uuid: u, result: *r }, Enc::default().be(u.as_u128(), 16).varint(k as i32).0);
        }
    }
    macro_rules! empty { ($($t:ty = $id:expr),* $(,)?) => { $( check(&mut f, $id, <$t>::default_value(), vec![]); )* } }
    trait Dv { fn default_value() -> Self; }
    macro_rules! dv { ($($t:ty),* $(,)?) => { $( impl Dv for $t { fn default_value() -> Self { Self } } )* } }
    dv!(status_in::StatusRequestPacket, login_out::SetCompressionPacket, login_out::LoginPluginRequestPacket, login_in::LoginPluginResponsePacket,
        login_in::LoginAcknowledgedPacket, conf_out::PluginMessagePacket, conf_out::FinishConfigurationPacket, conf_out::ResetChatPacket,
        conf_out::RegistryDataPacket, conf_out::RemoveResourcePackPacket, conf_out::FeatureFlagsPacket, conf_out::UpdateTagsPacket,
        conf_out::KnownPacksPacket, conf_out::CustomReportDetailsPacket, conf_out::ServerLinksPacket, conf_in::CookieResponsePacket,
        conf_in::PluginMessagePacket, conf_in::AckFinishConfigurationPacket, conf_in::KnownPacksPacket);
    empty!(status_in::StatusRequestPacket = 0x00, login_out::SetCompressionPacket = 0x03, login_out::LoginPluginRequestPacket = 0x04,
        login_in::LoginPluginResponsePacket = 0x02, login_in::LoginAcknowledgedPacket = 0x03, conf_out::PluginMessagePacket = 0x01,
        conf_out::FinishConfigurationPacket = 0x03, conf_out::ResetChatPacket = 0x06, conf_out::RegistryDataPacket = 0x07,
        conf_out::RemoveResourcePackPacket = 0x08, conf_out::FeatureFlagsPacket = 0x0C, conf_out::UpdateTagsPacket = 0x0D,
        conf_out::KnownPacksPacket = 0x0E, conf_out::CustomReportDetailsPacket = 0x0F, conf_out::ServerLinksPacket = 0x10,
        conf_in::CookieResponsePacket = 0x01, conf_in::PluginMessagePacket = 0x02, conf_in::AckFinishConfigurationPacket = 0x03,
        conf_in::KnownPacksPacket = 0x07);
    // enum ordinals just outside the defined range are rejected
    let rt = rt();
    for bad in [-1i32, 0, 4, 5, i32::MAX, i32::MIN] {
        let e = Enc::default().varint(767).string("h").be(1, 2).varint(bad).0;
        let mut c = cursor(&e);
        if let Ok(p) = rt.block_on(hand_in::HandshakePacket::read_from_buffer(&mut c)) {
            println!("REPRODUCED packets handshake with next_state ordinal {bad} accepted as {:?}", p);
            f += 1;
        }
    }
    f
}

fn xorshift(x: &mut u64) -> u64 {
    *x ^= *x << 13;
    *x ^= *x >> 7;
    *x ^= *x << 17;
    *x
}

/// every decoder on mutated / random bodies: no panic, no allocation out of proportion to the input
pub fn malformed(seed: u64) -> usize {
    let mut f = 0usize;
    let mut x = seed.wrapping_mul(0x9E3779B97F4A7C15) | 1;
    let mut bodies: Vec<Vec<u8>> = vec![vec![], vec![0xff; 5], vec![0xff, 0xff, 0xff, 0xff, 0x07], vec![0xff, 0xff, 0xff, 0xff, 0x0f, 1, 2, 3], vec![0x80; 64]];
    let good = Enc::default().varint(767).string("localhost").be(25565, 2).varint(2).0;
    for i in 0..good.len() {
        for b in [0u8, 0x7f, 0x80, 0xff] {
            let mut m = good.clone();
            m[i] = b;
            bodies.push(m);
        }
        bodies.push(good[..i].to_vec());
    }
    for _ in 0..300 {
        let n = (xorshift(&mut x) % 40) as usize;
        bodies.push((0..n).map(|_| xorshift(&mut x) as u8).collect());
    }
    // well-formed frames whose first string is long and has a multi-byte character straddling a round offset (16, 255, 256, 32767)
    for cut in [15usize, 16, 254, 255, 256, 32766, 32767] {
        for ch in ["é", "€", "𝄞"] {
            for back in 0..ch.len() {
                let text = format!("{}{}{}", "a".repeat(cut - back), ch, "b".repeat(8));
                bodies.push(Enc::default().varint(767).string(&text).be(25565, 2).varint(2).0);
                bodies.push(Enc::default().string(&text).be(1u128, 16).0);
            }
        }
    }
    macro_rules! try_all { ($body:expr; $($t:ty),* $(,)?) => { $( {
        let b: Vec<u8> = $body.clone();
        reset_alloc();
        let r = std::panic::catch_unwind(move || { let rt = rt(); let mut c = cursor(&b); rt.block_on(<$t>::read_from_buffer(&mut c)).is_ok() });
        let peak = max_alloc();
        if r.is_err() { println!("REPRODUCED malformed {} panics on body {:?}", std::any::type_name::<$t>(), $body); f += 1; }
        else if peak > (1 << 20) { println!("REPRODUCED malformed {} requests {} bytes for a {}-byte body {:?}", std::any::type_name::<$t>(), peak, $body.len(), $body); f += 1; }
    } )* } }
    for body in &bodies {
        try_all!(body; hand_in::HandshakePacket, status_in::PingPacket, login_in::LoginStartPacket, login_in::EncryptionResponsePacket,
            login_in::CookieResponsePacket, conf_in::ClientInformationPacket, conf_in::KeepAlivePacket, conf_in::ResourcePackResponsePacket,
            conf_in::PongPacket, conf_out::DisconnectPacket, conf_out::AddResourcePackPacket, conf_out::StoreCookiePacket, login_out::EncryptionRequestPacket);
        if f > 5 {
            break;
        }
    }
    f
}
