//! C19 witness: a target crossing the gRPC boundary (router -> wire message -> router).
use passage_adapters::Target;
use passage_adapters_grpc::verif as proto;
use std::net::SocketAddr;
use std::str::FromStr;

pub fn round_trip(_seed: u64) -> usize {
    let mut found = 0;
    for addr in ["127.0.0.1:25565", "10.1.2.3:1", "255.255.255.255:65535", "[::1]:25565", "[2001:db8::ff00:42:8329]:25566", "[fe80::1]:0", "[::ffff:192.0.2.1]:80"] {
        let t = Target { identifier: "lobby-1".into(), address: SocketAddr::from_str(addr).unwrap(), meta: Default::default() };
        let wire: proto::Target = (&t).into();
        match Target::try_from(wire) {
            Ok(back) if back.identifier == t.identifier && back.address == t.address => {}
            other => {
                println!("REPRODUCED grpc target {addr} does not survive the gRPC boundary: {:?}", other.map(|b| b.address).map_err(|e| e.to_string()));
                found += 1;
            }
        }
    }
    // metadata crosses unchanged (empty values / keys, non-ASCII, many entries); wire entries are taken in order
    for metas in [vec![("region", "eu"), ("maintenance", "")], vec![("", "x")], vec![("ключ", "значение"), ("players", "12"), ("a", "b"), ("c", "")], vec![]] {
        let t = Target { identifier: "lobby-2".into(), address: SocketAddr::from_str("10.0.0.1:25565").unwrap(),
                         meta: metas.iter().map(|(k, v)| (k.to_string(), v.to_string())).collect() };
        let wire: proto::Target = (&t).into();
        let mut sent: Vec<(String, String)> = wire.meta.iter().map(|e| (e.key.clone(), e.value.clone())).collect();
        sent.sort();
        let mut want: Vec<(String, String)> = t.meta.iter().map(|(k, v)| (k.clone(), v.clone())).collect();
        want.sort();
        if sent != want {
            println!("REPRODUCED grpc metadata {metas:?} is sent to the service as {sent:?}");
            found += 1;
        }
        match Target::try_from(wire) {
            Ok(back) if back.meta == t.meta => {}
            other => {
                println!("REPRODUCED grpc metadata {metas:?} does not survive the gRPC boundary: {:?}", other.map(|b| b.meta).map_err(|e| e.to_string()));
                found += 1;
            }
        }
    }
    let wire = proto::Target { identifier: "x".into(), address: Some(proto::Address { hostname: "10.0.0.1".into(), port: 1 }),
        meta: vec![proto::MetaEntry { key: "k".into(), value: "1".into() }, proto::MetaEntry { key: "e".into(), value: "".into() }, proto::MetaEntry { key: "k".into(), value: "2".into() }] };
    match Target::try_from(wire) {
        Ok(t) if t.meta.len() == 2 && t.meta.get("k").map(String::as_str) == Some("2") && t.meta.get("e").map(String::as_str) == Some("") => {}
        other => { println!("REPRODUCED grpc wire metadata [k=1, e=\"\", k=2] arrives as {:?}", other.map(|b| b.meta).map_err(|e| e.to_string())); found += 1; }
    }
    // malformed replies must be rejected, never altered
    for (host, port) in [("127.0.0.1", 65536u32), ("127.0.0.1", 70000), ("not an ip", 25565)] {
        let wire = proto::Target { identifier: "x".into(), address: Some(proto::Address { hostname: host.into(), port }), meta: vec![] };
        if let Ok(t) = Target::try_from(wire) {
            println!("REPRODUCED grpc malformed address {host}:{port} accepted as {}", t.address);
            found += 1;
        }
    }
    let wire = proto::Target { identifier: "x".into(), address: None, meta: vec![] };
    if Target::try_from(wire).is_ok() { println!("REPRODUCED grpc missing address accepted"); found += 1; }
    found
}
