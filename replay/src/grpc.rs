//! C19 witness: a target crossing the gRPC boundary (router -> wire message -> router).
use passage_adapters::Target;
use passage_adapters_grpc::verif as proto;
use std::net::SocketAddr;
use std::str::FromStr;

pub fn round_trip(_seed: u64) -> usize {
    let mut found = 0;
    for addr in ["127.0.0.1:25565", "10.1.2.3:1", "255.255.255.255:65535", "[::1]:25565", "[2001:db8::ff00:42:8329]:25566", "[fe80::1]:0", "[::ffff:192.0.2.1]:80"] {
        let t = Target { identifier: "lobby-1".into(), address: SocketAddr::from_str(addr).unwrap(), meta: Default::default() };
        let wire: proto::Target = (&t).into();
        match Target::try_from(wire) {
            Ok(back) if back.identifier == t.identifier && back.address == t.address => {}
            other => {
                println!("REPRODUCED grpc target {addr} does not survive the gRPC boundary: {:?}", other.map(|b| b.address).map_err(|e| e.to_string()));
                found += 1;
            }
        }
    }
    // metadata crosses unchanged (empty values / keys, non-ASCII, many entries); wire entries are taken in order
    for metas in [vec![("region", "eu"), ("maintenance", "")], vec![("", "x")], vec![("ключ", "значение"), ("players", "12"), ("a", "b"), ("c", "")], vec![]] {
        let t = Target { identifier: "lobby-2".into(), address: SocketAddr::from_str("10.0.0.1:25565").unwrap(),
                         meta: metas.iter().map(|(k, v)| (k.to_string(), v.to_string())).collect() };
        let wire: proto::Target = (&t).into();
        let mut sent: Vec<(String, String)> = wire.meta.iter().map(|e| (e.key.clone(), e.value.clone())).collect();
        sent.sort();
        let mut want: Vec<(String, String)> = t.meta.iter().map(|(k, v)| (k.clone(), v.clone())).collect();
        want.sort();
        if sent != want {
            println!("REPRODUCED grpc metadata {metas:?} is sent to the service as {sent:?}");
            found += 1;
        }
        match Target::try_from(wire) {
            Ok(back) if back.meta == t.meta => {}
            other => {
                println!("REPRODUCED grpc metadata {metas:?} does not survive the gRPC boundary: {:?}", other.map(|b| b.meta).map_err(|e| e.to_string()));
                found += 1;
            }
        }
    }
    let wire = proto::Target { identifier: "x".into(), address: Some(proto::Address { hostname: "10.0.0.1".into(), port: 1 }),
        meta: vec![proto::MetaEntry { key: "k".into(), value: "1".into() }, proto::MetaEntry { key: "e".into(), value: "".into() }, proto::MetaEntry { key: "k".into(), value: "2".into() }] };
    match Target::try_from(wire) {
        Ok(t) if t.meta.len() == 2 && t.meta.get("k").map(String::as_str) == Some("2") && t.meta.get("e").map(String::as_str) == Some("") => {}
        other => { println!("REPRODUCED grpc wire metadata [k=1, e=\"\", k=2] arrives as {:?}", other.map(|b| b.meta).map_err(|e| e.to_string())); found += 1; }
    }
    // malformed replies must be rejected, never altered
    // (hosts that are no IP address text although a resolver or a lenient parser would turn them into one belong here: short and
    // numeric inet_aton forms, names from /etc/hosts, brackets, zone ids, a port inside the host, padding, leading zeros)
    for (host, port) in [("127.0.0.1", 65536u32), ("127.0.0.1", 70000), ("not an ip", 25565), ("127.1", 25565), ("10.1", 25565), ("2130706433", 25565),
        ("0x7f.0.0.1", 25565), ("localhost", 25565), ("ip6-localhost", 25565), ("[::1]", 25565), ("::1%lo", 25565), ("fe80::1%1", 25565), ("127.0.0.1:80", 25565),
        (" 127.0.0.1", 25565), ("127.0.0.1 ", 25565), ("0127.0.0.1", 25565), ("127.0.0.01", 25565), ("1.2.3", 25565), ("1.2.3.4.5", 25565), ("", 25565), ("::ffff:1.2.3", 25565)] {
        let wire = proto::Target { identifier: "x".into(), address: Some(proto::Address { hostname: host.into(), port }), meta: vec![] };
        if let Ok(t) = Target::try_from(wire) {
            println!("REPRODUCED grpc malformed address {host}:{port} accepted as {}", t.address);
            found += 1;
        }
    }
    let wire = proto::Target { identifier: "x".into(), address: None, meta: vec![] };
    if Target::try_from(wire).is_ok() { println!("REPRODUCED grpc missing address accepted"); found += 1; }
    found
}

// ---- the request as a gRPC strategy service receives it (loopback tonic service, hand-written: no server code is generated) ----
mod wire {
    use std::sync::{Arc, Mutex};
    use tonic::codegen::{http, Body, BoxFuture, Context, Poll, Service, StdError};

    #[derive(Clone, PartialEq, prost::Message)]
    pub struct Address {
        #[prost(string, tag = "1")]
        pub hostname: String,
        #[prost(uint32, tag = "2")]
        pub port: u32,
    }
    #[derive(Clone, PartialEq, prost::Message)]
    pub struct MetaEntry {
        #[prost(string, tag = "1")]
        pub key: String,
        #[prost(string, tag = "2")]
        pub value: String,
    }
    #[derive(Clone, PartialEq, prost::Message)]
    pub struct WireTarget {
        #[prost(string, tag = "1")]
        pub identifier: String,
        #[prost(message, optional, tag = "2")]
        pub address: Option<Address>,
        #[prost(message, repeated, tag = "3")]
        pub meta: Vec<MetaEntry>,
    }
    #[derive(Clone, PartialEq, prost::Message)]
    pub struct SelectRequest {
        #[prost(message, optional, tag = "1")]
        pub client_address: Option<Address>,
        #[prost(message, optional, tag = "2")]
        pub server_address: Option<Address>,
        #[prost(uint64, tag = "3")]
        pub protocol: u64,
        #[prost(string, tag = "4")]
        pub username: String,
        #[prost(string, tag = "5")]
        pub user_id: String,
        #[prost(message, repeated, tag = "6")]
        pub targets: Vec<WireTarget>,
    }
    #[derive(Clone, PartialEq, prost::Message)]
    pub struct SelectResponse {
        #[prost(message, optional, tag = "1")]
        pub target: Option<WireTarget>,
    }
    /// answers with the candidate at index `pick` (none if out of range) and records what it was sent; with `alter` the answer keeps
    /// the identifier of that candidate but carries another port and an extra metadata entry (the service's word counts)
    #[derive(Clone, Default)]
    pub struct MockStrategy {
        pub seen: Arc<Mutex<Vec<SelectRequest>>>,
        pub pick: usize,
        pub alter: bool,
    }
    impl tonic::server::NamedService for MockStrategy {
        const NAME: &'static str = "scrayosnet.passage.adapter.Strategy";
    }
    struct SelectTargetSvc(MockStrategy);
    impl tonic::server::UnaryService<SelectRequest> for SelectTargetSvc {
        type Response = SelectResponse;
        type Future = BoxFuture<tonic::Response<SelectResponse>, tonic::Status>;
        fn call(&mut self, request: tonic::Request<SelectRequest>) -> Self::Future {
            let seen = Arc::clone(&self.0.seen);
            let pick = self.0.pick;
            let alter = self.0.alter;
            Box::pin(async move {
                let request = request.into_inner();
                let mut target = request.targets.get(pick).cloned();
                if alter {
                    if let Some(t) = target.as_mut() {
                        if let Some(a) = t.address.as_mut() { a.port = (a.port + 1) % 65536; }
                        t.meta.push(MetaEntry { key: "assigned-by".into(), value: "service".into() });
                    }
                }
                seen.lock().unwrap().push(request);
                Ok(tonic::Response::new(SelectResponse { target }))
            })
        }
    }
    impl<B> Service<http::Request<B>> for MockStrategy
    where
        B: Body + Send + 'static,
        B::Error: Into<StdError> + Send + 'static,
    {
        type Response = http::Response<tonic::body::Body>;
        type Error = std::convert::Infallible;
        type Future = BoxFuture<Self::Response, Self::Error>;
        fn poll_ready(&mut self, _cx: &mut Context<'_>) -> Poll<Result<(), Self::Error>> {
            Poll::Ready(Ok(()))
        }
        fn call(&mut self, req: http::Request<B>) -> Self::Future {
            let this = self.clone();
            Box::pin(async move {
                let codec = tonic_prost::ProstCodec::default();
                let mut grpc = tonic::server::Grpc::new(codec);
                Ok(grpc.unary(SelectTargetSvc(this), req).await)
            })
        }
    }
    pub async fn start(pick: usize, alter: bool) -> Option<(MockStrategy, String)> {
        let mock = MockStrategy { seen: Default::default(), pick, alter };
        let incoming = tonic::transport::server::TcpIncoming::bind("127.0.0.1:0".parse().unwrap()).ok()?;
        let addr = incoming.local_addr().ok()?;
        let svc = mock.clone();
        tokio::spawn(async move {
            let _ = tonic::transport::Server::builder().add_service(svc).serve_with_incoming(incoming).await;
        });
        Some((mock, format!("http://{addr}")))
    }
}

/// C19 witness: what `GrpcStrategyAdapter::select` puts on the wire must be exactly its arguments (both addresses, protocol, player,
/// every candidate in order with identifier, address and metadata), and the service's pick must come back as the same target.
pub fn request_wire(_seed: u64) -> usize {
    use passage_adapters::strategy::StrategyAdapter;
    use passage_adapters_grpc::GrpcStrategyAdapter;
    use std::collections::HashMap;
    let rt = tokio::runtime::Builder::new_multi_thread().worker_threads(2).enable_all().build().expect("rt");
    let mut found = 0;
    let candidates = vec![
        Target { identifier: "Lobby-1".into(), address: "10.0.0.7:25565".parse().unwrap(), meta: HashMap::from([("Players".to_string(), "12".to_string()), ("".to_string(), "x".to_string())]) },
        Target { identifier: "lobby-2".into(), address: "[2001:db8::7]:25566".parse().unwrap(), meta: HashMap::new() },
        Target { identifier: "".into(), address: "[::ffff:192.0.2.1]:1".parse().unwrap(), meta: HashMap::from([("ключ".to_string(), "значение".to_string())]) },
    ];
    let hosts = ["play.example.com", "Play.Example.COM.", "", "::1", "xn--mnchen-3ya.example", " spaced ", "UPPER"];
    let clients = ["198.51.100.9:40000", "[2001:db8::9]:1", "[::ffff:203.0.113.7]:65535"];
    let users = [("Notch", "069a79f4-44e9-4726-a5be-fca90e38aaf5"), ("", "00000000-0000-0000-0000-000000000000"), ("ÄÖ_x", "ffffffff-ffff-ffff-ffff-ffffffffffff")];
    let mut cases = 0;
    for (hi, host) in hosts.iter().enumerate() {
        for (ci, client) in clients.iter().enumerate() {
            let (name, id) = users[(hi + ci) % users.len()];
            let port = [25565u16, 0, 65535][(hi + ci) % 3];
            let protocol = [769i32, 0, i32::MAX][(hi + 2 * ci) % 3];
            let pick = (hi + ci) % (candidates.len() + 1);
            let alter = (hi + ci) % 2 == 1;
            cases += 1;
            let outcome: Result<(), String> = rt.block_on(async {
                let (mock, url) = wire::start(pick, alter).await.ok_or("mock service did not start")?;
                let adapter = GrpcStrategyAdapter::new(url).await.map_err(|e| e.to_string())?;
                let client_addr: SocketAddr = client.parse().unwrap();
                let user_id = uuid::Uuid::parse_str(id).unwrap();
                let picked = adapter.select(&client_addr, (host, port), protocol, (name, &user_id), candidates.clone()).await.map_err(|e| format!("select failed: {e}"))?;
                let seen = mock.seen.lock().unwrap();
                let req = seen.first().ok_or("the service received no request")?;
                let addr = |a: &Option<wire::Address>| a.as_ref().map(|a| (a.hostname.clone(), a.port));
                if addr(&req.client_address) != Some((client_addr.ip().to_string(), client_addr.port() as u32)) {
                    return Err(format!("client address arrives as {:?}", addr(&req.client_address)));
                }
                if addr(&req.server_address) != Some((host.to_string(), port as u32)) {
                    return Err(format!("server address ({host:?}, {port}) arrives as {:?}", addr(&req.server_address)));
                }
                if req.protocol != protocol as u64 || req.username != name || req.user_id != id {
                    return Err(format!("protocol / player ({protocol}, {name:?}, {id}) arrive as ({}, {:?}, {})", req.protocol, req.username, req.user_id));
                }
                if req.targets.len() != candidates.len() {
                    return Err(format!("{} candidates sent, {} arrive", candidates.len(), req.targets.len()));
                }
                for (w, t) in req.targets.iter().zip(&candidates) {
                    let meta: HashMap<String, String> = w.meta.iter().map(|e| (e.key.clone(), e.value.clone())).collect();
                    if w.identifier != t.identifier || addr(&w.address) != Some((t.address.ip().to_string(), t.address.port() as u32)) || meta != t.meta || w.meta.len() != t.meta.len() {
                        return Err(format!("candidate {:?} arrives as {:?} / {:?} / {:?}", t.identifier, w.identifier, addr(&w.address), meta));
                    }
                }
                // what the service answered (the candidate, or its altered version)
                let answered: Option<Target> = candidates.get(pick).map(|t| {
                    let mut t = t.clone();
                    if alter {
                        t.address.set_port(((t.address.port() as u32 + 1) % 65536) as u16);
                        t.meta.insert("assigned-by".into(), "service".into());
                    }
                    t
                });
                match (picked, answered.as_ref()) {
                    (None, None) => Ok(()),
                    (Some(p), Some(t)) if p.identifier == t.identifier && p.address == t.address && p.meta == t.meta => Ok(()),
                    (p, t) => Err(format!("the service picked {:?}, select returned {:?}", t.map(|t| &t.identifier), p.map(|p| p.identifier))),
                }
            });
            if let Err(e) = outcome {
                if found < 5 {
                    println!("REPRODUCED grpc_wire select(client {client}, server ({host:?}, {port}), protocol {protocol}, player {name:?}): {e}");
                }
                found += 1;
            }
        }
    }
    eprintln!("grpc_wire: {cases} requests, {found} mismatches");
    found
}
