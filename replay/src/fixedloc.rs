//! C03 bounded stand-in: `FixedLocalizationAdapter::localize` (str slicing by byte index, `match_indices`, nested HashMaps:
//! outside the verifier's reach) against an independent reference of the documented fallback chain, exhaustively over
//! 3 default locales x 11 client locales x all 256 subsets of 8 table names x 2 message keys.
use passage_adapters::localization::LocalizationAdapter;
use passage_adapters::FixedLocalizationAdapter;
use std::collections::HashMap;

fn chain(locale: &str) -> Vec<String> {
    // the locale itself, then every prefix that ends before a '_' (longest first)
    let mut out = vec![locale.to_string()];
    let b = locale.as_bytes();
    for i in (0..b.len()).rev() {
        if b[i] == b'_' {
            out.push(locale[..i].to_string());
        }
    }
    out
}

pub fn sweep(_seed: u64) -> usize {
    let rt = crate::rt();
    let tables = ["en_US", "en", "de", "de_DE", "zh", "zh_Hans", "zh_Hans_CN", "fr_FR"];
    let clients: [Option<&str>; 11] = [None, Some("de_DE"), Some("de"), Some("de_AT"), Some("zh_Hans_CN"), Some("zh_Hans"), Some("fr"), Some("fr_FR"), Some("xx"), Some("en_GB"), Some("")];
    let mut found = 0;
    let mut cases = 0u64;
    for default in ["en_US", "en", "de_DE"] {
        for mask in 0u32..256 {
            let mut messages: HashMap<String, HashMap<String, String>> = HashMap::new();
            for (i, t) in tables.iter().enumerate() {
                if mask & (1 << i) != 0 {
                    messages.insert(t.to_string(), HashMap::from([("disconnect_no_target".to_string(), format!("no target [{t}] for {{player}}"))]));
                }
            }
            let adapter = FixedLocalizationAdapter::new(default.to_string(), messages.clone());
            for client in clients {
                for key in ["disconnect_no_target", "missing_key"] {
                    cases += 1;
                    let mut order = chain(client.unwrap_or(default));
                    order.extend(chain(default));
                    let table = order.iter().find_map(|l| messages.get(l));
                    let want = match table.and_then(|t| t.get(key)) {
                        Some(t) => t.replace("{player}", "Alex"),
                        None => key.to_string(),
                    };
                    let got = rt.block_on(adapter.localize(client, key, &[("{player}", "Alex".to_string())]));
                    match got {
                        Ok(g) if g == want => {}
                        other => {
                            if found < 5 {
                                let present: Vec<&str> = tables.iter().enumerate().filter(|(i, _)| mask & (1 << i) != 0).map(|(_, t)| *t).collect();
                                println!("REPRODUCED fixed_locale default locale {default:?}, tables {present:?}, client locale {client:?}, key {key:?}: localize returned {other:?}, the fallback chain {order:?} gives {want:?}");
                            }
                            found += 1;
                        }
                    }
                }
            }
        }
    }
    eprintln!("fixed_locale: {cases} cases");
    found
}
