#!/usr/bin/env python3
"""Regenerates /verif/MANIFEST.json from lib/props.py and lib/na.py (single source of truth)."""
import json
import os
import subprocess
import sys

sys.path.insert(0, os.path.dirname(os.path.abspath(__file__)))
import props as P  # noqa: E402
import na  # noqa: E402

VERIF = os.path.dirname(os.path.dirname(os.path.abspath(__file__)))


def repo_commits(prefix):
    try:
        out = subprocess.run(["git", "-C", "/repo", "log", "--format=%h %s"], capture_output=True, text=True).stdout
        return [ln.split()[0] for ln in out.split("\n") if ln and ln.split(" ", 1)[1].startswith(prefix)]
    except Exception:
        return []


def main():
    checks = []
    for pid in sorted(P.PROPS):
        c = P.PROPS[pid]
        checks.append({
            "property_id": pid,
            "quick_cmd": f"./check {pid} quick",
            "thorough_cmd": f"./check {pid} thorough",
            "evidence_file": f"/verif/evidence/{pid}.json",
            "replay_cmd_template": "cat {path}  # names the failed obligation, the verifier output and, if found, the concrete witness; `replay_cmd` inside re-runs the witness against /repo",
            "engine": "verus+vx" + ("+kani" if c.get("kani") else ""),
            "level_claimed": {
                "category": c.get("level", "proof"),
                "text": c["claim"] if "claim" in c else c.get("explanation", ""),
                "design_ref": c.get("design_ref", "DESIGN.md §7"),
            },
            "level_note": "; ".join(list(c.get("assumptions", [])) + [f"bounded stand-in (not proof): {w}" for _s, w in c.get("bounded", [])]) or "see evidence trusted_base",
            "technique": c.get("technique", "contract-based deductive verification (Verus) of functions extracted mechanically from /repo on every run"),
        })
    m = {
        "version": 1,
        "setup_cmd": "./setup.sh",
        "hooks": {
            "guard": "verif-hooks",
            "enable": "cargo feature `verif-hooks` (only used by replay witnesses; the Verus units read the sources and need no hooks)",
            "baseline_off_cmd": "cd /repo && cargo test --workspace --no-fail-fast --offline",
            "source_commits": repo_commits("hook:"),
            "add_only": True,
        },
        "engines": [
            {"name": "vx", "path": "/verif/vx", "serves_properties": sorted(P.PROPS), "kind_free_text": "syn-based extractor: real functions -> Verus subset, rule table in DESIGN.md §3"},
            {"name": "verus", "path": "/usr/local/bin/verus", "serves_properties": sorted(P.PROPS), "kind_free_text": "deductive verifier (Z3 back end)"},
            {"name": "kani", "path": "/root/.kani", "serves_properties": sorted(p for p, c in P.PROPS.items() if c.get("kani")),
             "kind_free_text": "Kani 0.68 / CBMC on generated crates that hold the extracted function text (verify_token: complete for token lengths 0..=40; RateLimiter::enqueue: step contract on a model clock / two-slot map); counterexamples are replayed natively with `cargo kani playback`"},
            {"name": "replay", "path": "/verif/replay", "serves_properties": sorted(P.PROPS),
             "kind_free_text": "the real crates driven on fixed input sets: witness search for a failed obligation; labelled *bounded* stand-in (a) for the declared part of C03 that is outside the verifier's reach and (b) whenever a change moves a function under contract out of the extractor's / Verus' reach; never counted as proof"},
        ],
        "checks": checks,
        "not_applicable": [{"property_id": k, "reason": v} for k, v in sorted(na.NOT_APPLICABLE.items()) if k not in P.PROPS],
        "notes": "Exit 2 = tool/extraction trouble (never a verdict). fix: commits in /repo: " + ", ".join(repo_commits("fix:")),
    }
    with open(os.path.join(VERIF, "MANIFEST.json"), "w") as f:
        json.dump(m, f, indent=1)
    print("MANIFEST.json written:", len(checks), "checks,", len(m["not_applicable"]), "not applicable")


if __name__ == "__main__":
    main()
