"""Property table: which units decide a property, which replay scenarios attach witnesses."""

PROPS = {
    "C09": {
        "units": ["U1", "U4"],
        "level": "proof",
        "witness": [
            (r"read_varlong|write_varlong", "varlong"),
            (r"read_varint|write_varint", "varint"),
            (r".", "packets"),
        ],
        "sweep": ["varint", "varlong", "packets", "frames"],
        "explanation": "Every reader/writer primitive, enum table and packet (de)serialiser of passage-packets is extracted from /repo on "
                       "this run and verified by Verus against the wire-format spec functions written from the protocol; decoders carry the "
                       "inverse contract for all values, encoders the exact-layout contract.",
        "not_covered": [
            "text components in NBT-compound form (fastnbt/serde_json branch): nothing claimed",
            "login.clientbound.EncryptionRequestPacket::read_from_buffer (client-side decoder, Vec<u8> -> [u8;32] conversion has no spec)",
            "AsyncReadPacket::read_packet (by-value Take adaptor; not used by the server)",
        ],
        "assumptions": [
            "tokio AsyncReadExt/AsyncWriteExt on Cursor<Vec<u8>> / Vec<u8> behave like the verified Reader / Vec<u8> models of the prelude",
            "suspension points erased (R1): the codec is sequential per buffer",
            "machine integers are modelled bit-precisely (Verus checks overflow); usize is 64-bit or 32-bit as Verus assumes",
        ],
    },
    "C04": {
        "technique": "contract-based deductive verification (Verus) of functions extracted mechanically from /repo on every run; crypto::verify_token by a Kani harness on its extracted text",
        "units": ["U1", "U4", "U3", "U12", "U13"],
        "kani": ["U2b"],
        "level": "proof",
        "witness": [
            (r"alloc", "alloc"),
            (r".", "malformed"),
        ],
        "sweep": ["alloc", "malformed", "truncated"],
        "explanation": "The same extracted codec functions are verified without any well-formedness assumption on the input bytes: Verus "
                       "generates an obligation for every arithmetic overflow, index, slice, unwrap/expect and callee precondition, and "
                       "every allocation sized by client input must be bounded by the bytes still available (alloc_budget).",
        "not_covered": ["internals of rsa, cfb8, serde_json, fastnbt (assumed to return Err rather than panic)"],
        "assumptions": [
            "tokio AsyncReadExt/AsyncWriteExt on Cursor<Vec<u8>> / Vec<u8> behave like the verified Reader / Vec<u8> models of the prelude",
            "Take::read_to_end commits memory proportional to the bytes it actually reads",
        ],
    },
    "C01": {
        "technique": "contract-based deductive verification (Verus) of functions extracted mechanically from /repo on every run; crypto::verify_token by a Kani harness on its extracted text",
        "units": ["U3", "U4", "U2", "U5", "U12", "U7"],
        "kani": ["U2b"],
        "level": "proof",
        "witness": [(r"verify_token|create_ciphers|apply_encryption", "enc_response"), (r"get\.request|mojang", "mojang"), (r"listen", "session")],
        "sweep": ["session", "enc_response", "cookie_matrix", "mojang"],
        "explanation": "Connection::listen is extracted whole and verified against the reference automaton of units/U3/spec.rs: Login Success is accepted "
                       "only when the RSA-decrypted verify token equals the token of this connection's Encryption Request and the identity is the one "
                       "returned by the authentication oracle (asked with the decrypted shared secret and the server public key) or the one inside an "
                       "accepted cookie; filter/select oracles and the AuthCookie are fed that identity; the cipher key equals the shared secret. "
                       "crypto::verify_token is proved by Kani on its extracted text. 'Asked ... on that very connection': the built-in Mojang adapter (U7) asks the "
                       "session service about exactly the claimed name and this connection's server hash (precondition at Client::get, the C12 obligation), so the profile it "
                       "returns is the service's answer about this connection.",
        "not_covered": ["RSA/PKCS#1 internals (rsa_decrypt is an uninterpreted function)", "verify_token for slices longer than 40 bytes (Kani bound; the comparison is length-first)"],
        "assumptions": ["adapters, RSA decryption, HMAC, JSON (de)serialisation are deterministic uninterpreted functions of their arguments",
                        "packet decoding is a deterministic function of the frame body (decode_of)",
                        "suspension points erased (R1); tokio::select! modelled as nondeterministic choice of the winning arm (R8); the losing keep_alive() arm stops between two iterations of its loop (R8c)"],
    },
    "C02": {
        "units": ["U3", "U2", "U4"],
        "level": "proof",
        "witness": [(r"unparseable|cookie", "cookie_unparseable"), (r".", "cookie_matrix")],
        "sweep": ["cookie_unparseable", "cookie_matrix"],
        "explanation": "The automaton accepts an Encryption Request only with should_authenticate == !cookie_accept(..), where cookie_accept is the "
                       "conjunction stated by the property (transfer intent, secret configured, HMAC tag correct under that secret, same client IP, "
                       "timestamp + expiry >= the clock value that was read, parseable). cookie::verify is verified verbatim against "
                       "tag == hmac(secret, body) with hmac uninterpreted, which covers every bit flip, truncation and foreign secret.",
        "not_covered": ["cryptographic strength of HMAC-SHA256"],
        "assumptions": ["hmac crate: new_from_slice accepts any key length; verify_slice is Ok iff the full tag matches",
                        "cookie timestamps and the configured expiry are below 2^63 (no u64 overflow in timestamp + expiry)"],
    },
    "C03": {
        "technique": "contract-based deductive verification (Verus) of functions extracted mechanically from /repo on every run; the fallback chain of FixedLocalizationAdapter only by a declared bounded stand-in (exhaustive finite sweep of the real code)",
        "units": ["U3", "U4"],
        "level": "proof",
        "witness": [(r"locale|no_target", "locale"), (r".", "session")],
        "sweep": ["locale", "session"],
        "explanation": "routing(cfg, d) = select_oracle(.., filter_oracle(.., discover_oracle())) composes the adapter oracles exactly as the property "
                       "states; the automaton accepts a Transfer only as last event with the chosen target's ip text and port, and a no-target "
                       "Disconnect only with localize_oracle(Some(client locale), \"disconnect_no_target\").",
        "bounded": [("fixed_locale", "FixedLocalizationAdapter::localize / append_locale (str slicing by byte index, match_indices, nested HashMap lookups: outside the "
                     "verifier's reach): the region -> language -> default fallback chain, exhaustively for 3 default locales x 11 client locales x 256 table sets x 2 keys")],
        "not_covered": ["FixedLocalizationAdapter's fallback chain is checked by the bounded stand-in `fixed_locale` only (16896 cases), not proved"],
        "assumptions": ["IpAddr::to_string is the canonical text (ip_text, uninterpreted)"],
    },
    "C06": {
        "technique": "contract-based deductive verification (Verus) of functions extracted mechanically from /repo on every run; crypto::verify_token by a Kani harness on its extracted text",
        "units": ["U3", "U4"],
        "kani": ["U2b"],
        "level": "proof",
        "witness": [(r"ping|status", "order"), (r".", "session")],
        "sweep": ["session", "order", "frames"],
        "explanation": "The reference automaton is the protocol grammar of the property: every event trace listen can produce (for all client bytes, "
                       "adapter results, timer firings) must be accepted; any packet sent out of order, a reply after an unexpected id, or an event "
                       "after Transfer/Disconnect drives it to Bad.",
        "not_covered": [],
        "assumptions": ["match_packet! is expanded from the macro definition in connection.rs by a small macro_rules interpreter (R4)"],
    },
    "C07": {
        "technique": "contract-based deductive verification (Verus) of the keep-alive state logic extracted from /repo on every run; the wall-clock half only by a declared bounded stand-in (real Connection::listen under the paused tokio clock)",
        "units": ["U4", "U3"],
        "level": "proof",
        "witness": [(r".", "keepalive")],
        "bounded": [("keepalive", "the wall-clock half of C07 (a Keep Alive at least every 16 s while waiting, timeout Disconnect when the next one is due, Transfer as soon as "
                     "routing completes) is not a statement about a sequential function: the real Connection::listen runs under tokio's paused clock with discovery / filter / "
                     "strategy latencies from {0, 5, 21, 37} s, Client Information after {0, 3, 20, 35} s and five echo policies (prompt, delayed 10 s, never, wrong id, duplicate + "
                     "unsolicited): 1280 schedules, the packet timeline must be exactly the demanded one; plus 120 schedules with a login of 28 s or 45 s, judged by the property itself (gaps <= 16 s, one outstanding, an echoing client survives, a silent one is dropped within 16 s)")],
        "sweep": ["keepalive"],
        "explanation": "State logic only: keep_alive_id == outstanding(event log) is a verified representation invariant of receive_packet, "
                       "handle_keep_alive and keep_alive; the tick branch sends the localized timeout Disconnect and fails iff an id is outstanding, else "
                       "sends exactly one Keep Alive; receive_packet(false) never sends; handle_keep_alive clears iff the ids are equal. The trace predicate ka_wf "
                       "(a Keep Alive is sent only directly after a timer tick and only while none is unanswered; a Disconnect directly after a tick - the inactivity timeout - only "
                       "while one is unanswered) is preserved by every function and is a postcondition of listen. The echo is tied to the wire: handle_keep_alive(id) requires that "
                       "the last frame taken from the client is a configuration Keep Alive (0x04) decoding to that id, and the loops of keep_alive() and of listen keep "
                       "echo_settled (every such frame was handed to handle_keep_alive before the next read). listen is verified with keep_alive() traffic interleaved between the "
                       "routing steps (R8c: the losing keep_alive() arm of each select! leaves the state of its loop invariant, proved in U4).",
        "not_covered": ["'at least every 16 seconds', 'not dropped however long routing takes', 'Transfer as soon as routing completes': wall-clock and "
                        "scheduler facts of tokio Interval/select!, outside sequential contracts"],
        "assumptions": ["Interval::tick completes when a period elapsed (not modelled)",
                        "R8c: a keep_alive() future that loses a select! is dropped between two iterations of its loop (cancellation inside an iteration - a half-read "
                        "frame, a half-written packet - is C08, not applicable)"],
    },
    "C10": {
        "units": ["U3", "U2", "U4"],
        "level": "proof",
        "witness": [(r".", "session")],
        "sweep": ["session"],
        "explanation": "The automaton accepts the auth StoreCookie only for a fresh authentication with a secret, before the Transfer, with payload == "
                       "hmac(secret, json) ++ json where json prints exactly (client address, authenticated name, uuid, properties, chosen target id, some "
                       "timestamp); the session StoreCookie exactly when the client presented none, with the handshake's host and port. cookie::sign is "
                       "verified verbatim; lemma_sign_then_verify and lemma_c10_reaccept prove acceptance on the next transfer.",
        "not_covered": ["that the recorded timestamp is the current time (the clock read is inside a struct literal; only its presence is decided)"],
        "assumptions": ["serde_json: parsing what was printed yields a cookie with the same content (used only by lemma_c10_reaccept)"],
    },
    "C14": {
        "units": ["U9", "U11", "U4", "U3", "U2"],
        "level": "proof",
        "witness": [(r"max_packet_length", "limits"), (r"timeout|deadline|socket_wait", "deadline"), (r"listen|handle", "limits")],
        "sweep": ["limits", "deadline", "config_flow"],
        "explanation": "U11: src/lib.rs start() is extracted whole and verified with the rigid constants *defined* as the fields of its Config argument: the call "
                       "listener.listen(..) carries the obligations that the built Listener holds exactly the configured timeout, maximum frame length, cookie expiry and secret "
                       "(and, for C15, the configured limiter parameters and PROXY settings); Listener::listen (the accept loop) keeps them as loop invariants and calls handle under them. "
                       "Listener::handle is extracted whole (spawned task inlined, R14) and verified for rigid but arbitrary operator constants: the call of "
                       "Connection::listen carries the obligations max_packet_length == cfg, auth_cookie_expiry == cfg, auth_secret == cfg, and "
                       "tokio::time::timeout must be called with the configured duration; the Connection/Listener builders are verified setters. That "
                       "the limits then act is U4 (length <= 0 or > max_packet_length => Err before the body is read) and U3 (cookie_accept uses cfg.expiry and cfg.secret).",
        "not_covered": ["the deadline itself (tokio::time::timeout is trusted to end the task after the given duration)",
                        "max_packet_length above 2^31-1 (src/lib.rs casts the u64 setting with `as i32`: the effective limit is the truncated value; start() is verified under config.max_packet_length <= i32::MAX)",
                        "parsing of the configuration file / environment into Config (the `config` crate)"],
        "assumptions": ["spawned connection task inlined (R14): concurrency of connections erased"],
    },
    "C15": {
        "units": ["U9", "U11", "U4", "U3"],
        "level": "proof",
        "witness": [(r".", "admission")],
        "sweep": ["admission"],
        "explanation": "handle's contract: the limiter is asked at most once, with effective(proxy config, socket, peer).ip, and not at all when the PROXY "
                       "header does not parse; tagged assertions: the code after the admission step is reached only if the limiter admitted, the refused "
                       "branch shuts the socket down and returns before any Connection exists, and the Connection is built with_client_address(effective). "
                       "U3 then shows that this address is the one given to every adapter oracle and written into the AuthCookie.",
        "not_covered": ["PROXY header parsing/validation itself (proxy-header crate: proxy_parse is uninterpreted)"],
        "assumptions": ["RateLimiter::enqueue is an uninterpreted function of the call history and the key (the limiter itself: C13)"],
    },
    "C05": {
        "units": ["U5", "U4"],
        "level": "proof",
        "witness": [(r".", "cipher")],
        "sweep": ["cipher"],
        "explanation": "CFB-8 is defined as a mathematical stream function over an uninterpreted AES block function; CipherStream::poll_write / poll_read are "
                       "extracted (Pin erased, the per-chunk loop folded into the cfb8 crate's block contract) and verified for a transport whose write "
                       "may return Pending, an error, or accept any prefix and whose read may deliver any number of bytes: what the transport accepted is "
                       "exactly the encryption of the bytes reported written and the cipher register advanced over exactly those; reads decrypt exactly the "
                       "newly delivered bytes. lemma_*_history_step / lemma_enc_compose turn the per-call contracts into the whole-history statement; "
                       "create_ciphers keys both directions with key = IV = shared secret; apply_encryption (U4) installs them.",
        "not_covered": ["that the cfb8/aes crates implement CFB-8/AES (their block contract is the definition, assumed)"],
        "assumptions": ["Pin erased (all types Unpin, R10)", "block size of cfb8::Encryptor is 1 byte (BlockSizeUser)"],
    },
    "C11": {
        "units": ["U6", "U7"],
        "level": "proof",
        "witness": [(r"authenticate|request|with_server_id", "mojang"), (r".", "mchash")],
        "sweep": ["mchash", "mojang"],
        "explanation": "minecraft_hash is verified verbatim against mc_hash = signed_hex(signed_be(sha1(utf8(server id) ++ secret ++ public key))), written from the "
                       "protocol description: the three inputs are absorbed once each in this order, the digest is read as a signed big-endian number and printed "
                       "in radix 16. SHA-1 is uninterpreted; the sha1 and num-bigint calls carry assumed contracts (update appends, from_signed_bytes_be is "
                       "two's complement, to_str_radix(16) is sign + minimal lowercase hex) which the thorough tier checks against published vectors.",
        "not_covered": ["the SHA-1 function itself and num-bigint's internals (assumed contracts)"],
        "assumptions": ["sha1::Digest::update appends, finalize hashes everything absorbed", "num_bigint::BigInt::{from_signed_bytes_be, to_str_radix} as documented"],
    },
    "C12": {
        "units": ["U7", "U6"],
        "level": "proof",
        "witness": [(r".", "mojang")],
        "sweep": ["mojang"],
        "explanation": "MojangAdapter::authenticate is extracted up to the point where the request leaves /repo (Client::get); that call carries the property as "
                       "its precondition: URL text == fixed endpoint ++ '?' ++ form_encode([(username, claimed name), (serverId, hash)]) with the hash equal to "
                       "mc_hash(server id, secret, key) by U6's contract. It is proved for every user name (arbitrary Seq<char>), server id and secret; a URL "
                       "assembled by string formatting fails it because pct(name) == name cannot be shown.",
        "not_covered": ["response handling after get() (send, status check, JSON decoding): cut by R17b, irrelevant to the property"],
        "assumptions": ["url crate: Url::parse_with_params appends each pair form-encoded, and a conforming server decodes form_encode(pairs) back to exactly pairs"],
    },
    "C13": {
        "technique": "contract-based deductive verification: Kani/CBMC (bit-precise f32, loop-free harnesses over full-domain symbolic inputs) on the unmodified text of RateLimiter::{new, enqueue} extracted from /repo on every run, plus Verus history lemmas over the proved step contract",
        "units": ["U8h"],
        "kani": ["U8"],
        "level": "proof",
        "bounded": [("limiter", "durations that are not a whole number of seconds are outside the domain of the Kani step proof (f32 division by a fractional duration does not "
                     "terminate in CBMC): the real RateLimiter under the paused clock, limits {1, 2, 3, 7, 100} x durations {100, 500, 999, 1000, 1500, 2500, 10 000, 3 600 000} ms x 1500 "
                     "random attempts of one key: at most `limit` admissions between two window starts, at most 2 * limit in any interval of one duration, an idle key is readmitted")],
        "witness": [(r"big_limit", "limiter_big"), (r".", "limiter")],
        "sweep": ["limiter"],
        "explanation": "RateLimiter::enqueue is extracted verbatim (only #[instrument] dropped) into a generated Kani crate whose environment models tokio's "
                       "Instant as a harness-controlled clock and HashMap as a two-slot association list with the same entry/or_insert/retain/len interface. "
                       "Loop-free harnesses over full-domain symbolic inputs (bit-precise IEEE-754 f32, cadical) prove the step contract S1-S5: exact integer "
                       "counters, admission only below the limit, a rejection adds nothing, the window start moves only when >= duration old, idle >= 2*duration "
                       "=> admitted with a clean bucket, an unknown key behaves like a cleaned-up one, other keys' buckets are untouched, cleanup removes only "
                       "keys idle >= 2*duration and leaves only younger ones. U8h (Verus) lifts the step contract to histories: counters stay in [0, limit], "
                       "at most `limit` admissions per window, window starts >= duration apart, and - by induction over arbitrary attempt histories of a key "
                       "(lemma_two_limit) - never more than 2*limit admissions within any interval of length `duration`.",
        "not_covered": ["limit >= 2^32 - 1 (the harnesses draw the limit from [1, 2^24] and (2^24, 2^32 - 2]; the second range is where an f32 counter stalled before the fix 8b45174)", "durations that are not whole seconds (start() builds them with Duration::from_secs) and > 366 days",
                        "the contents of more than two simultaneously tracked keys (the model map keeps two slots with arbitrary contents; the number of further tracked keys is symbolic, up to 2^40, and visible through len(), so code that acts on the size of the map is analysed for every size; both an already tracked key and a newcomer visit)",
                        "'tracked keys limited to those seen in the last four durations': only the per-call cleanup contract is proved; cleanup runs on admitted attempts only"],
        "assumptions": ["std HashMap::{entry, or_insert, retain, len} behave like the association-list model", "tokio Instant::now is monotone; both reads inside one call return the same instant"],
    },
    "C19": {
        "units": ["U10"],
        "level": "proof",
        "witness": [(r"select|request|discover", "grpc_wire"), (r".", "grpc")],
        "sweep": ["grpc", "grpc_wire"],
        "explanation": "The three conversions of proto.rs (Target -> wire Target, wire Target -> Target, wire Address -> SocketAddr) are extracted and verified: "
                       "the wire message carries the identifier and (canonical IP text, port); the way back yields Ok exactly for a present address whose host "
                       "parses as an IP and whose port is <= 65535, with that identifier, IP and port; lemma_round_trip composes the two contracts: every "
                       "IPv4 and IPv6 target comes back with the same identifier and socket address; missing address, bad host and port > 65535 are errors. "
                       "Metadata: the two `iter().map(..).collect()` chains are written out as the loops FromIterator runs (R32) over a model of HashMap<String,String> "
                       "(finite map; iter() yields every entry once in some order; collecting inserts in order) and verified with loop invariants: the wire entries denote "
                       "exactly the target's map, and the map built from wire entries is entries_map(entries); the round trip preserves the map. "
                       "GrpcStrategyAdapter::select and GrpcDiscoveryAdapter::discover are extracted whole: the remote services are deterministic uninterpreted functions of the "
                       "*content* of the request; select's postconditions are stated for the request the caller's arguments denote (expected_select_request), so they are only "
                       "provable if the request actually sent is that one (clause request_is_the_callers_arguments: client/server address, protocol, name, uuid text and every "
                       "candidate in order), and the pick / every discovered target comes back through the verified conversion or is an error.",
        "not_covered": ["status_adapter.rs (StatusRequest assembly, ServerStatus conversion) and the tonic transport / prost encoding",
                        "that the prost-generated structs match adapter.proto (mirrored by hand in the prelude)"],
        "assumptions": ["std: IpAddr::from_str(ip.to_string()) == Ok(ip); IpAddr::from_str / u16::try_from reject everything else as specified",
                        "HashMap<String,String> behaves like the finite-map model of units/U10/prelude.rs (iteration visits each entry once; FromIterator inserts in order)"],
    },
    "C18": {
        "units": ["U14", "U3", "U4"],
        "level": "proof",
        "witness": [(r".", "filters")],
        "sweep": ["filters"],
        "explanation": "Every built-in filter and strategy is extracted from /repo on this run and verified against what the mechanism denotes, written from the "
                       "property statement (units/U14/spec.rs): FilterOperation::matches == op_ok (equals / not-equals / exists / not-exists / in / not-in on the possibly "
                       "missing value), FilterRule::matches reads the rule's key from the target's metadata, MetaFilterAdapter keeps exactly the targets satisfying every rule, "
                       "in order; the host-name wrapper passes everything through iff its pattern does not match the host name; allow keeps all iff the player is listed by "
                       "name, pattern or UUID, block drops all iff listed; Vec<T> / DynFilterAdapters are sequential composition (an error ends the chain); AnyStrategyAdapter "
                       "returns the first candidate; PlayerFillStrategyAdapter returns a candidate below max_players such that no other candidate below max_players is fuller, "
                       "None only if none is below. The iterator chains (any / all / filter+collect / map+filter+max_by_key) are written out by R32/R35 as the loops std runs "
                       "and proved with loop invariants. Construction from configuration (DynFilterAdapter::from_config, DynFilterAdapters::from_config, DynStrategyAdapter::"
                       "from_config, From<config::FilterRule/FilterOperation>, opt_to_regex, opt_vec_to_uuid, the adapters' `new`) is verified too: the chain built from a "
                       "configuration computes exactly keep(discovered, qualifies-under-every-configured-filter) (clause C18.chain.offers_exactly_...), it is built iff "
                       "every pattern compiles and every id parses, and lemma_c18_default_strategy / lemma_c18_player_fill_strategy conclude the property's routing "
                       "statements from these contracts. That Connection::listen hands the discovered list to the filter chain, the filtered list to the strategy and transfers to the strategy's pick is proved in U3 (clauses C03+..+C18.listen.*), which is why U3 / U4 are part of this check.",
        "not_covered": ["what a regular expression matches (regex crate: regex_match / regex_compile are uninterpreted)", "u32::from_str, Uuid::parse_str as functions of the text (uninterpreted)",
                        "GrpcStrategyAdapter inside DynStrategyAdapter (not a built-in mechanism; its own contract is C19)"],
        "assumptions": ["HashMap<String,String>::get behaves like lookup in the finite map of the strings' contents",
                        "String comparisons through references compare contents (lib/strmodel.rs)",
                        "Iterator::any / all / max_by_key / filter / map / collect run the loops R32/R35 write out (max_by_key keeps the last of several maxima)",
                        "derive(Clone) of Target yields an equal value; derive(Default) of AnyStrategyAdapter yields the unit struct",
                        "suspension points erased (R1): the adapters are sequential"],
    },
    "C20": {
        "technique": "contract-based deductive verification (Verus) of the GameServer conversion and the per-event cache steps extracted from /repo on every run; the watcher event loop only by a declared bounded stand-in (scripted and seeded watch histories against a loopback Kubernetes API mock)",
        "units": ["U15"],
        "level": "proof",
        "witness": [(r".", "agones")],
        "sweep": ["agones"],
        "bounded": [("agones", "the watcher event loop inside AgonesDiscoveryAdapter::new (tokio::spawn, select!, the RwLock guard, kube-runtime's watcher stream) is outside "
                     "the verifier's reach: that Apply / InitApply go to apply_server, Delete to remove_target, and that a completed (re-)list replaces the cache is "
                     "checked only on 14 scripted and 16 seeded random watch histories (ADDED / MODIFIED / DELETED, 410-Gone re-lists, paged lists aborted by a failing "
                     "continuation, objects vanishing while the watch is down, unconvertible objects, labels named `state`, IPv6 addresses) served by a loopback mock "
                     "of the Kubernetes API to the real adapter")],
        "explanation": "Proved (Verus, functions extracted from /repo on this run): `TryFrom<GameServer> for Target` is Ok exactly for a GameServer with a name, a status, an "
                       "address that parses and at least one port, and then yields that name, (parsed address, first port) and the metadata counters < lists < labels < "
                       "annotations < observed state (whole-map equality; the `state` entry is always the observed state); `apply_server(cache, server)` leaves every "
                       "other GameServer's target untouched, offers the converted target iff the GameServer is convertible and Ready or Allocated, removes it otherwise "
                       "(also when it can no longer be converted), and keeps identifiers unique; `remove_target` drops exactly that identifier. Not proved, bounded only: the "
                       "event loop that feeds these steps (see bounded stand-in) - so the history-level statement of C20 rests on the per-event contracts plus a finite sweep.",
        "not_covered": ["kube-runtime's watcher (event order, backoff, bookmarks) and the Kubernetes API itself", "AgonesDiscoveryAdapter::discover (a clone of the cache under the read lock)",
                        "two GameServers with the same name in different namespaces (the cache is keyed by name)"],
        "assumptions": ["HashMap/BTreeMap with String keys behave like finite maps of the keys' contents; iterating yields every entry once",
                        "kube-derive's GameServer / ObjectMeta mirrored by hand (name, labels, annotations, status); ResourceExt::labels/annotations return the metadata's map or an empty one",
                        "IpAddr::from_str, u32 Display and [String]::join are uninterpreted functions of the text / value",
                        "derive(Clone) of GameServerStatus yields an equal value"],
    },
    "C17": {
        "units": ["U11", "U9"],
        "level": "proof",
        "witness": [(r"no_connection_accepted", "shutdown"), (r".", "drain")],
        "sweep": ["shutdown", "drain"],
        "explanation": "The accept loop `Listener::listen` is extracted with the polling order of its `select!` kept (R8b): every arm's readiness at a poll is a ghost value of "
                       "the model (`stop.cancelled()` is ready exactly when the token is cancelled, `listener.accept()` when a connection is pending), the arm that runs was ready "
                       "and, with `biased;`, no arm before it in source order was (tokio's documented semantics). Proved for every sequence of polls: a connection is accepted "
                       "only at a poll at which shutdown had not been requested; the loop is left only through the cancellation arm or an accept error; the tracker is "
                       "closed before it is awaited and `listen` returns Ok only after `TaskTracker::wait` (closed and every tracked task finished). `Listener::handle` (U9) "
                       "contains no cancellation: a connection in progress is bounded only by the connection timeout (C14) and its protocol logic is that of C01-C07.",
        "not_covered": ["that every per-connection task is spawned on this tracker (R14 inlines `tracker.spawn(..)`; a plain tokio::spawn is outside the model: exit 2)",
                        "the accept-error path (`accepted?`) returns without draining the tracker", "how the stop token is wired to ctrl-c in src/lib.rs (a detached task, R31)",
                        "TaskTracker / CancellationToken / select! themselves (tokio, tokio-util): assumed as documented"],
        "assumptions": ["tokio::select!: the arm that runs was ready at that poll; with `biased;` arms are polled in source order",
                        "CancellationToken::cancelled() is ready iff the token is cancelled; TaskTracker::wait() returns once the tracker is closed and empty",
                        "suspension points inside handle() erased (R1): what happens between two polls of the accept loop is atomic in the model"],
    },
    "C16": {
        "units": ["U9", "U11"],
        "level": "proof",
        "witness": [(r".", "stall")],
        "sweep": ["stall"],
        "explanation": "The part of C16 that is a statement about code: the accept loop's task must never wait for a client. `Listener::handle` is extracted with the block "
                       "handed to `tracker.spawn` marked (R14: vx_task_begin()); every wait on a client's socket that the model knows (the PROXY header read "
                       "`ProxiedStream::create_from_tokio`, stream.read*, tokio::io::copy) and tokio::time::sleep require either the connection's own task or the connection "
                       "deadline, and nothing before the spawn point establishes either. `Listener::listen` (U11) awaits only accept / cancellation and `handle`. Proved for "
                       "everything except the PROXY header read, which happens in the accept loop's task without a deadline: an open known finding (replayed: with the PROXY "
                       "protocol on, one silent client keeps a later, well-behaved client from being served). Whether tokio then schedules the per-connection tasks fairly is "
                       "outside what a contract can say.",
        "not_covered": ["fair scheduling of the spawned per-connection tasks (tokio runtime)", "latency bounds as such (wall clock)",
                        "the write side: `stream.shutdown()` of a refused connection runs in the accept loop's task (no data was written before it)"],
        "assumptions": ["R14: the block passed to tracker.spawn runs in its own task; everything before it in handle() runs in the accept loop's task",
                        "the socket waits known to the model are the only client-dependent waits (an unknown call does not compile: exit 2)"],
    },
}
