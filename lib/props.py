"""Property table: which units decide a property, which replay scenarios attach witnesses."""

PROPS = {
    "C09": {
        "units": ["U1"],
        "level": "proof",
        "witness": [
            (r"read_varlong|write_varlong", "varlong"),
            (r"read_varint|write_varint", "varint"),
            (r".", "packets"),
        ],
        "sweep": ["varint", "varlong", "packets"],
        "explanation": "Every reader/writer primitive, enum table and packet (de)serialiser of passage-packets is extracted from /repo on "
                       "this run and verified by Verus against the wire-format spec functions written from the protocol; decoders carry the "
                       "inverse contract for all values, encoders the exact-layout contract.",
        "not_covered": [
            "text components in NBT-compound form (fastnbt/serde_json branch): nothing claimed",
            "login.clientbound.EncryptionRequestPacket::read_from_buffer (client-side decoder, Vec<u8> -> [u8;32] conversion has no spec)",
            "AsyncReadPacket::read_packet (by-value Take adaptor; not used by the server)",
        ],
        "assumptions": [
            "tokio AsyncReadExt/AsyncWriteExt on Cursor<Vec<u8>> / Vec<u8> behave like the verified Reader / Vec<u8> models of the prelude",
            "suspension points erased (R1): the codec is sequential per buffer",
            "machine integers are modelled bit-precisely (Verus checks overflow); usize is 64-bit or 32-bit as Verus assumes",
        ],
    },
    "C04": {
        "units": ["U1"],
        "level": "proof",
        "witness": [
            (r"alloc", "alloc"),
            (r".", "malformed"),
        ],
        "sweep": ["alloc", "malformed"],
        "explanation": "The same extracted codec functions are verified without any well-formedness assumption on the input bytes: Verus "
                       "generates an obligation for every arithmetic overflow, index, slice, unwrap/expect and callee precondition, and "
                       "every allocation sized by client input must be bounded by the bytes still available (alloc_budget).",
        "not_covered": ["internals of rsa, cfb8, serde_json, fastnbt (assumed to return Err rather than panic)"],
        "assumptions": [
            "tokio AsyncReadExt/AsyncWriteExt on Cursor<Vec<u8>> / Vec<u8> behave like the verified Reader / Vec<u8> models of the prelude",
            "Take::read_to_end commits memory proportional to the bytes it actually reads",
        ],
    },
}
