#!/usr/bin/env python3
"""usage: seedarchive.py <seed-out-dir> <name> <summary-line from seedeval> <check outcome text>"""
import json, os, shutil, sys
sd, name, summary, outcome = sys.argv[1:5]
dst = os.path.join("/verif/seeded", name)
os.makedirs(dst, exist_ok=True)
for f in ("patch.diff", "demo.diff"):
    shutil.copy(os.path.join(sd, f), os.path.join(dst, f))
meta = json.load(open(os.path.join(sd, "meta.json")))
meta["confirmed_by_me"] = {
    "how": "lib/seedeval.sh in a scratch worktree of /repo HEAD: full suite with the change, demo with the change, demo without the change; then ./check on /repo with the patch applied and /repo restored",
    "result": summary,
}
meta["check_outcome"] = outcome
meta["repo_commit"] = os.popen("git -C /repo rev-parse --short HEAD").read().strip()
json.dump(meta, open(os.path.join(dst, "meta.json"), "w"), indent=1)
print("archived", dst)
