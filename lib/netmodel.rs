// std::net model shared by the connection units (U3/U4/U9) and U10. Included inside a `verus!` block.
// The address types are *defined* here with the representation std documents (32 / 128 address bits, enum of the two
// families, address + port), and the conversions between the families are verified exec functions whose bodies are the
// documented bit tests; only the textual forms (Display / FromStr) stay uninterpreted. The model is an assumption about
// std (listed in the evidence as `std::net model`), but with it code that starts to fold, canonicalise or re-family an
// address is analysed instead of being rejected as unknown.

#[derive(Clone, Copy, PartialEq, Eq, Structural)]
pub struct Ipv4Addr { pub bits: u32 }
#[derive(Clone, Copy, PartialEq, Eq, Structural)]
pub struct Ipv6Addr { pub bits: u128 }
#[derive(Clone, Copy, PartialEq, Eq, Structural)]
pub enum IpAddr { V4(Ipv4Addr), V6(Ipv6Addr) }
#[derive(Clone, Copy, PartialEq, Eq, Structural)]
pub struct SocketAddr { pub ipaddr: IpAddr, pub portno: u16 }

impl Ipv4Addr {
    pub open spec fn spec_to_ipv6_mapped(&self) -> Ipv6Addr { Ipv6Addr { bits: 0xffff_0000_0000u128 | (self.bits as u128) } }
    pub open spec fn spec_to_ipv6_compatible(&self) -> Ipv6Addr { Ipv6Addr { bits: self.bits as u128 } }
    pub open spec fn spec_is_loopback(&self) -> bool { self.bits >> 24 == 127 }
    pub open spec fn spec_is_unspecified(&self) -> bool { self.bits == 0 }
    #[verifier::when_used_as_spec(spec_to_ipv6_mapped)]
    pub fn to_ipv6_mapped(&self) -> (r: Ipv6Addr) ensures r == self.spec_to_ipv6_mapped() { Ipv6Addr { bits: 0xffff_0000_0000u128 | (self.bits as u128) } }
    #[verifier::when_used_as_spec(spec_to_ipv6_compatible)]
    pub fn to_ipv6_compatible(&self) -> (r: Ipv6Addr) ensures r == self.spec_to_ipv6_compatible() { Ipv6Addr { bits: self.bits as u128 } }
    #[verifier::when_used_as_spec(spec_is_loopback)]
    pub fn is_loopback(&self) -> (r: bool) ensures r == self.spec_is_loopback() { self.bits >> 24 == 127 }
    #[verifier::when_used_as_spec(spec_is_unspecified)]
    pub fn is_unspecified(&self) -> (r: bool) ensures r == self.spec_is_unspecified() { self.bits == 0 }
}
impl Ipv6Addr {
    /// `::ffff:a.b.c.d` only (std: "Converts this address to an IPv4 address if it's an IPv4-mapped address")
    pub open spec fn spec_to_ipv4_mapped(&self) -> Option<Ipv4Addr> {
        if self.bits >> 32 == 0xffff { Some(Ipv4Addr { bits: (self.bits & 0xffff_ffff) as u32 }) } else { None }
    }
    /// the whole of `::/96` *and* `::ffff:0:0/96` (std: "if it is either an IPv4-compatible or IPv4-mapped address")
    pub open spec fn spec_to_ipv4(&self) -> Option<Ipv4Addr> {
        if self.bits >> 32 == 0xffff || self.bits >> 32 == 0 { Some(Ipv4Addr { bits: (self.bits & 0xffff_ffff) as u32 }) } else { None }
    }
    pub open spec fn spec_to_canonical(&self) -> IpAddr {
        match self.spec_to_ipv4_mapped() { Some(v4) => IpAddr::V4(v4), None => IpAddr::V6(*self) }
    }
    pub open spec fn spec_is_loopback(&self) -> bool { self.bits == 1 }
    pub open spec fn spec_is_unspecified(&self) -> bool { self.bits == 0 }
    #[verifier::when_used_as_spec(spec_to_ipv4_mapped)]
    pub fn to_ipv4_mapped(&self) -> (r: Option<Ipv4Addr>) ensures r == self.spec_to_ipv4_mapped()
    { if self.bits >> 32 == 0xffff { Some(Ipv4Addr { bits: (self.bits & 0xffff_ffff) as u32 }) } else { None } }
    #[verifier::when_used_as_spec(spec_to_ipv4)]
    pub fn to_ipv4(&self) -> (r: Option<Ipv4Addr>) ensures r == self.spec_to_ipv4()
    { if self.bits >> 32 == 0xffff || self.bits >> 32 == 0 { Some(Ipv4Addr { bits: (self.bits & 0xffff_ffff) as u32 }) } else { None } }
    #[verifier::when_used_as_spec(spec_to_canonical)]
    pub fn to_canonical(&self) -> (r: IpAddr) ensures r == self.spec_to_canonical()
    { match self.to_ipv4_mapped() { Some(v4) => IpAddr::V4(v4), None => IpAddr::V6(*self) } }
    #[verifier::when_used_as_spec(spec_is_loopback)]
    pub fn is_loopback(&self) -> (r: bool) ensures r == self.spec_is_loopback() { self.bits == 1 }
    #[verifier::when_used_as_spec(spec_is_unspecified)]
    pub fn is_unspecified(&self) -> (r: bool) ensures r == self.spec_is_unspecified() { self.bits == 0 }
}
impl IpAddr {
    pub open spec fn spec_to_canonical(&self) -> IpAddr { match *self { IpAddr::V4(_) => *self, IpAddr::V6(v6) => v6.spec_to_canonical() } }
    pub open spec fn spec_is_ipv4(&self) -> bool { *self is V4 }
    pub open spec fn spec_is_ipv6(&self) -> bool { *self is V6 }
    pub open spec fn spec_is_loopback(&self) -> bool { match *self { IpAddr::V4(a) => a.spec_is_loopback(), IpAddr::V6(a) => a.spec_is_loopback() } }
    pub open spec fn spec_is_unspecified(&self) -> bool { match *self { IpAddr::V4(a) => a.spec_is_unspecified(), IpAddr::V6(a) => a.spec_is_unspecified() } }
    #[verifier::when_used_as_spec(spec_to_canonical)]
    pub fn to_canonical(&self) -> (r: IpAddr) ensures r == self.spec_to_canonical() { match *self { IpAddr::V4(_) => *self, IpAddr::V6(v6) => v6.to_canonical() } }
    #[verifier::when_used_as_spec(spec_is_ipv4)]
    pub fn is_ipv4(&self) -> (r: bool) ensures r == self.spec_is_ipv4() { match *self { IpAddr::V4(_) => true, IpAddr::V6(_) => false } }
    #[verifier::when_used_as_spec(spec_is_ipv6)]
    pub fn is_ipv6(&self) -> (r: bool) ensures r == self.spec_is_ipv6() { match *self { IpAddr::V4(_) => false, IpAddr::V6(_) => true } }
    #[verifier::when_used_as_spec(spec_is_loopback)]
    pub fn is_loopback(&self) -> (r: bool) ensures r == self.spec_is_loopback() { match *self { IpAddr::V4(a) => a.is_loopback(), IpAddr::V6(a) => a.is_loopback() } }
    #[verifier::when_used_as_spec(spec_is_unspecified)]
    pub fn is_unspecified(&self) -> (r: bool) ensures r == self.spec_is_unspecified() { match *self { IpAddr::V4(a) => a.is_unspecified(), IpAddr::V6(a) => a.is_unspecified() } }
}
impl vstd::std_specs::convert::FromSpecImpl<Ipv4Addr> for IpAddr { open spec fn obeys_from_spec() -> bool { true } open spec fn from_spec(a: Ipv4Addr) -> IpAddr { IpAddr::V4(a) } }
impl From<Ipv4Addr> for IpAddr { fn from(a: Ipv4Addr) -> (r: IpAddr) { IpAddr::V4(a) } }
impl vstd::std_specs::convert::FromSpecImpl<Ipv6Addr> for IpAddr { open spec fn obeys_from_spec() -> bool { true } open spec fn from_spec(a: Ipv6Addr) -> IpAddr { IpAddr::V6(a) } }
impl From<Ipv6Addr> for IpAddr { fn from(a: Ipv6Addr) -> (r: IpAddr) { IpAddr::V6(a) } }

impl SocketAddr {
    pub open spec fn spec_ip(&self) -> IpAddr { self.ipaddr }
    pub open spec fn spec_port(&self) -> u16 { self.portno }
    pub open spec fn spec_new(ip: IpAddr, port: u16) -> SocketAddr { SocketAddr { ipaddr: ip, portno: port } }
    pub open spec fn spec_is_ipv4(&self) -> bool { self.ipaddr is V4 }
    pub open spec fn spec_is_ipv6(&self) -> bool { self.ipaddr is V6 }
    #[verifier::when_used_as_spec(spec_ip)]
    pub fn ip(&self) -> (r: IpAddr) ensures r == self.ipaddr { self.ipaddr }
    #[verifier::when_used_as_spec(spec_port)]
    pub fn port(&self) -> (r: u16) ensures r == self.portno { self.portno }
    #[verifier::when_used_as_spec(spec_new)]
    pub fn new(ip: IpAddr, port: u16) -> (r: SocketAddr) ensures r == (SocketAddr { ipaddr: ip, portno: port }) { SocketAddr { ipaddr: ip, portno: port } }
    pub fn set_ip(&mut self, ip: IpAddr) ensures *final(self) == (SocketAddr { ipaddr: ip, portno: old(self).portno }) { self.ipaddr = ip; }
    pub fn set_port(&mut self, port: u16) ensures *final(self) == (SocketAddr { ipaddr: old(self).ipaddr, portno: port }) { self.portno = port; }
    #[verifier::when_used_as_spec(spec_is_ipv4)]
    pub fn is_ipv4(&self) -> (r: bool) ensures r == self.spec_is_ipv4() { self.ipaddr.is_ipv4() }
    #[verifier::when_used_as_spec(spec_is_ipv6)]
    pub fn is_ipv6(&self) -> (r: bool) ensures r == self.spec_is_ipv6() { self.ipaddr.is_ipv6() }
}

/// canonical text of an IP address (std `Display` / `to_string`): the content of an uninterpreted `String`; `IpAddr::from_str`
/// inverts it (assumed where used). `Ipv4Addr` / `Ipv6Addr` print like the `IpAddr` that wraps them.
pub uninterp spec fn ip_string(ip: IpAddr) -> String;
pub open spec fn ip_text(ip: IpAddr) -> Seq<char> { ip_string(ip)@ }
impl IpAddr {
    pub open spec fn spec_to_string(&self) -> String { ip_string(*self) }
    #[verifier::external_body]
    #[verifier::when_used_as_spec(spec_to_string)]
    pub fn to_string(&self) -> (r: String) ensures r == self.spec_to_string(), r@ == ip_text(*self) { unimplemented!() }
}
impl Ipv4Addr {
    pub open spec fn spec_to_string(&self) -> String { ip_string(IpAddr::V4(*self)) }
    #[verifier::external_body]
    #[verifier::when_used_as_spec(spec_to_string)]
    pub fn to_string(&self) -> (r: String) ensures r == self.spec_to_string(), r@ == ip_text(IpAddr::V4(*self)) { unimplemented!() }
}
impl Ipv6Addr {
    pub open spec fn spec_to_string(&self) -> String { ip_string(IpAddr::V6(*self)) }
    #[verifier::external_body]
    #[verifier::when_used_as_spec(spec_to_string)]
    pub fn to_string(&self) -> (r: String) ensures r == self.spec_to_string(), r@ == ip_text(IpAddr::V6(*self)) { unimplemented!() }
}
