#!/usr/bin/env python3
"""Mutation sweep over the functions a unit has under contract: how strong are the contracts?

usage: VERIF_REPO=<scratch worktree> lib/mutate.py <unit> [max_mutants]

For every function of the unit that is verified (mode "verify"), small syntactic mutants of its source lines are written into the
scratch worktree one at a time (comparison operators, boolean connectives, boolean / small integer literals, +/- 1, dropped `!`,
swapped Ok/Err-free returns of collections). The unit is re-verified for each:
  killed    a proof obligation fails (what a check reports as VIOLATION)
  error     the generated file no longer compiles / extracts (exit 2 of a check: undecided, then the replay sweeps decide)
  SURVIVED  everything still verifies: either the mutant is equivalent, or the contract does not pin that behaviour down
Survivors are printed with file:line and the mutated text. Nothing here is part of a registered check.
"""
import os
import re
import subprocess
import sys

sys.path.insert(0, os.path.dirname(os.path.abspath(__file__)))
import vxlib  # noqa: E402
import runner  # noqa: E402

MUTATIONS = [
    (r" <= ", " < "), (r" < ", " <= "), (r" >= ", " > "), (r" > ", " >= "),
    (r"==", "!="), (r"!=", "=="), (r"&&", "||"), (r"\|\|", "&&"),
    (r"\btrue\b", "false"), (r"\bfalse\b", "true"),
    (r"\+ 1\b", "+ 2"), (r"- 1\b", "- 2"), (r"\b0\b", "1"), (r"\b1\b", "0"), (r"\b2\b", "3"),
    (r"!(?=[a-zA-Z_(])", ""), (r"\.is_some\(\)", ".is_none()"), (r"\.is_none\(\)", ".is_some()"),
    (r"\.first\(\)", ".last()"), (r"\bcontinue;", "break;"), (r"\bbreak;", "continue;"),
    (r" << ", " >> "), (r" \| ", " & "), (r" & 0b", " | 0b"), (r" \|= ", " &= "),
]


def main():
    unit_name = sys.argv[1]
    limit = int(sys.argv[2]) if len(sys.argv) > 2 else 10 ** 9
    repo = vxlib.REPO
    if repo == "/repo":
        print("refusing to mutate /repo: set VERIF_REPO to a scratch worktree")
        return 2
    base = runner.verify_unit(unit_name)
    if base.vres.compile_errors:
        print("unit does not compile on the unmutated tree")
        return 2
    # obligations that fail already on the unmutated tree (open known findings) do not count as kills
    base_fails = {f.obligation for f in base.fails}
    ranges = []
    for key, m in base.unit.fn_meta.items():
        if m["mode"] == "verify":
            ranges.append((m["file"], m["lines"][0], m["lines"][1], key))
    stats = {"killed": 0, "error": 0, "survived": 0}
    survivors = []
    n = 0
    for (rel, a, b, key) in sorted(set(ranges)):
        path = os.path.join(repo, rel)
        with open(path) as f:
            orig = f.read()
        lines = orig.split("\n")
        for ln in range(a, b + 1):
            text = lines[ln - 1]
            code = text.split("//")[0]
            if not code.strip() or code.strip().startswith("#[") or re.match(r"\s*(trace|debug|info|warn|error)!", code):
                continue
            # statement deletion: a line that is one complete statement (not a binding, not a return) is commented out
            st = code.strip()
            muts = list(MUTATIONS)
            if st.endswith(";") and not st.startswith(("let ", "return", "break", "continue", "use ", "}", "const ", "pub const ", "type ")) and st.count("(") == st.count(")") and st.count("{") == st.count("}"):
                muts.append((r"^(\s*)(\S.*)$", r"\1// deleted: \2"))
            for pat, rep in muts:
                for m in re.finditer(pat, code):
                    if n >= limit:
                        break
                    mutated = code[:m.start()] + m.expand(rep) + code[m.end():] + text[len(code):]
                    if mutated == text:
                        continue
                    new = lines[:ln - 1] + [mutated] + lines[ln:]
                    with open(path, "w") as f:
                        f.write("\n".join(new))
                    n += 1
                    why = ""
                    try:
                        r = runner.verify_unit(unit_name)
                        if r.vres.compile_errors:
                            out = "error"
                            why = (r.vres.compile_errors[0].get("message") or "")[:160]
                        elif {f.obligation for f in r.fails} - base_fails:
                            out = "killed"
                        else:
                            out = "SURVIVED"
                    except Exception as e:
                        out = "error"
                        why = str(e)[:160]
                    stats[out.lower()] += 1
                    if out == "error" and os.environ.get("MUTATE_VERBOSE"):
                        print(f"error {rel}:{ln} {mutated.strip()[:80]} :: {why}", flush=True)
                    if out == "SURVIVED":
                        survivors.append((rel, ln, key, text.strip(), mutated.strip()))
                        print(f"SURVIVED {rel}:{ln} [{key}]\n    - {text.strip()}\n    + {mutated.strip()}", flush=True)
        with open(path, "w") as f:
            f.write(orig)
    subprocess.run(["git", "-C", repo, "checkout", "-q", "--", "."])
    print(f"unit {unit_name}: {n} mutants: {stats}")
    return 0


if __name__ == "__main__":
    sys.exit(main())
