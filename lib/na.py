"""Properties not (or not yet) claimed, with the reason. Entries for properties that appear in
props.PROPS are ignored by mkmanifest."""

NOT_BUILT = "not claimed yet: the unit that decides it has not been built in this session (see DESIGN.md §7 for the planned contract)"

NOT_APPLICABLE = {
    "C01": NOT_BUILT, "C02": NOT_BUILT, "C03": NOT_BUILT, "C05": NOT_BUILT, "C06": NOT_BUILT, "C07": NOT_BUILT,
    "C10": NOT_BUILT, "C11": NOT_BUILT, "C12": NOT_BUILT, "C13": NOT_BUILT, "C14": NOT_BUILT, "C15": NOT_BUILT, "C19": NOT_BUILT,
    "C08": "behaviour when a future is dropped between two .await points (select! racing a half-read frame): de-async extraction (R1/R8) erases exactly those points; no pre/postcondition of a sequential function can mention them, and proving a hand-written poll state machine would be proving a model",
}
