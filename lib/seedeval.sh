#!/bin/bash
# usage: seedeval.sh <seed-dir with patch.diff demo.diff meta.json> <property> [name]
# Confirms a seeded change in a scratch worktree (suite passes with it; demo fails with it, passes without), then runs
# the property's quick check on that worktree with the patch applied (VERIF_REPO); /repo itself is never touched.
set -u
SD=$1; PROP=$2; NAME=${3:-$PROP}
EV=${SEEDWT:-/tmp/scratch/ev}; TAG=${SEEDTAG:-}
mkdir -p /tmp/scratch
if [ ! -d $EV ]; then git -C /repo worktree add -q --detach $EV HEAD; fi
cd $EV && git checkout -q --detach $(git -C /repo rev-parse HEAD) && git checkout -q -- . && git clean -fdq -e target
DEMO=$(python3 -c "import json;print(json.load(open('$SD/meta.json'))['demo_cmd'])")
echo "== demo cmd: $DEMO"
# (1) suite with the change only
git apply $SD/patch.diff || { echo "PATCH-DOES-NOT-APPLY"; exit 2; }
SUITE=$(cargo test --workspace --no-fail-fast --offline 2>&1 | grep -E "^test result" | awk '{p+=$4; f+=$6} END {print p" passed "f" failed"}')
echo "== suite with change: $SUITE"
# (2) demo with the change
git apply $SD/demo.diff || { echo "DEMO-DOES-NOT-APPLY"; exit 2; }
( eval "$DEMO" ) > /tmp/scratch/demo_with$TAG.log 2>&1; RC_WITH=$?
echo "== demo with change: rc=$RC_WITH  $(grep -E '^test result' /tmp/scratch/demo_with$TAG.log | tr '\n' ' ')"
# (3) demo without the change
git apply -R $SD/patch.diff
( eval "$DEMO" ) > /tmp/scratch/demo_without$TAG.log 2>&1; RC_WITHOUT=$?
echo "== demo without change: rc=$RC_WITHOUT  $(grep -E '^test result' /tmp/scratch/demo_without$TAG.log | tr '\n' ' ')"
git checkout -q -- . && git clean -fdq -e target
# (4) the check, on the scratch worktree with only the patch applied (never on /repo itself)
git apply $SD/patch.diff
cd /verif
VERIF_REPO=$EV VERIF_OUT=/tmp/scratch/evout$TAG VERIF_EVIDENCE=/tmp/scratch/evev$TAG ./check $PROP quick > /tmp/scratch/check_$NAME.log 2>&1; RC_CHECK=$?
git -C $EV checkout -q -- . ; git -C $EV clean -fdq -e target
echo "== check $PROP rc=$RC_CHECK"
grep -E "^(VIOLATION|KNOWN|OK|TOOL)" /tmp/scratch/check_$NAME.log | cut -c1-300
echo "SUMMARY name=$NAME prop=$PROP suite=[$SUITE] demo_with=$RC_WITH demo_without=$RC_WITHOUT check_rc=$RC_CHECK"
