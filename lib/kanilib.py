"""Generated Kani crates: real function text extracted by vx + harnesses; `cargo kani` per harness."""
import os
import re
import subprocess
import time

import vxlib


def write_crate(name, lib_rs):
    d = os.path.join(vxlib.OUT, f"kani_{name}")
    os.makedirs(os.path.join(d, "src"), exist_ok=True)
    with open(os.path.join(d, "Cargo.toml"), "w") as f:
        f.write(f"[package]\nname = \"kani_{name.lower()}\"\nversion = \"0.0.0\"\nedition = \"2021\"\n\n[dependencies]\n\n[workspace]\n\n"
                "[lints.rust]\nunexpected_cfgs = { level = \"allow\" }\n")
    with open(os.path.join(d, "src", "lib.rs"), "w") as f:
        # the extractor's structural markers have no meaning outside the Verus assembler
        macros = "#[allow(unused_macros)] macro_rules! __vx_loop { ($k:expr) => {}; }\n#[allow(unused_macros)] macro_rules! __vx_at { ($k:expr) => {}; }\n"
        lines = lib_rs.split("\n")
        k = 0
        for i, ln in enumerate(lines):
            if ln.startswith("#!["):
                k = i + 1
        f.write("\n".join(lines[:k]) + ("\n" if k else "") + macros + "\n".join(lines[k:]))
    return d


class KaniResult:
    def __init__(self):
        self.status = "UNKNOWN"  # SUCCESSFUL | FAILED | TIMEOUT | ERROR
        self.checks = 0
        self.failed_checks = []
        self.covers = {}
        self.wall_s = 0.0
        self.output = ""
        self.cmd = ""


def run_kani(crate_dir, harness, solver=None, timeout=900, extra=None):
    env = dict(os.environ)
    env["CARGO_NET_OFFLINE"] = "true"
    env["CARGO_TARGET_DIR"] = os.path.join(vxlib.VERIF, ".cache", "kani-target", os.path.basename(crate_dir))
    cmd = ["cargo", "kani", "--harness", harness]
    if solver:
        cmd += ["--solver", solver]
    if extra:
        cmd += extra
    r = KaniResult()
    r.cmd = " ".join(cmd)
    t0 = time.time()
    try:
        p = subprocess.run(cmd, cwd=crate_dir, capture_output=True, text=True, timeout=timeout, env=env)
        out = p.stdout + "\n" + p.stderr
    except subprocess.TimeoutExpired as e:
        r.status = "TIMEOUT"
        r.wall_s = time.time() - t0
        r.output = (e.stdout or b"").decode() if isinstance(e.stdout, bytes) else (e.stdout or "")
        return r
    r.wall_s = time.time() - t0
    r.output = out
    m = re.search(r"VERIFICATION:-\s*(\w+)", out)
    if m:
        r.status = m.group(1)
    else:
        r.status = "ERROR"
    m = re.search(r"\*\* (\d+) of (\d+) failed", out)
    if m:
        r.checks = int(m.group(2))
    # failed checks
    for blk in re.finditer(r"Check \d+: (\S+)\n\s+- Status: (\w+)\n\s+- Description: \"(.*)\"", out):
        name, st, desc = blk.group(1), blk.group(2), blk.group(3).replace('\\"', "").strip()
        if st == "FAILURE":
            r.failed_checks.append(f"{name}: {desc}")
        if ".cover." in name:
            r.covers[desc + "@" + name] = st
    return r


def _parse_section(name, txt):
    r = KaniResult()
    r.output = txt
    m = re.search(r"VERIFICATION:-\s*(\w+)", txt)
    r.status = m.group(1) if m else "ERROR"
    m = re.search(r"\*\* (\d+) of (\d+) failed", txt)
    if m:
        r.checks = int(m.group(2))
    for blk in re.finditer(r"Check \d+: (\S+)\n\s+- Status: (\w+)\n\s+- Description: \"(.*)\"", txt):
        cname, st, desc = blk.group(1), blk.group(2), blk.group(3).replace('\\"', "").strip()
        if st == "FAILURE":
            r.failed_checks.append(f"{cname}: {desc}")
        if ".cover." in cname:
            r.covers[desc + "@" + cname] = st
    m = re.search(r"Verification Time: ([0-9.]+)s", txt)
    if m:
        r.wall_s = float(m.group(1))
    return r


def run_kani_multi(crate_dir, harnesses, jobs=4, timeout=1800, solver=None, extra=None):
    """One `cargo kani -j` invocation for several harnesses (separate invocations would race on the target directory)."""
    env = dict(os.environ)
    env["CARGO_NET_OFFLINE"] = "true"
    env["CARGO_TARGET_DIR"] = os.path.join(vxlib.VERIF, ".cache", "kani-target", os.path.basename(crate_dir))
    cmd = ["cargo", "kani", "-j", str(jobs), "--output-format", "terse"]
    for h in harnesses:
        cmd += ["--harness", h]
    if solver:
        cmd += ["--solver", solver]
    if extra:
        cmd += extra
    t0 = time.time()
    import signal
    proc = subprocess.Popen(cmd, cwd=crate_dir, stdout=subprocess.PIPE, stderr=subprocess.STDOUT, text=True, env=env, start_new_session=True)
    try:
        out, _ = proc.communicate(timeout=timeout)
        timed_out = False
    except subprocess.TimeoutExpired:
        try:
            os.killpg(proc.pid, signal.SIGKILL)
        except Exception:
            pass
        out, _ = proc.communicate()
        timed_out = True
    wall = time.time() - t0
    thread_of = {}
    for m in re.finditer(r"Thread (\d+): Checking harness (\S+?)\.\.\.", out):
        thread_of[m.group(1)] = m.group(2).split("::")[-1]
    res = {}
    parts = re.split(r"(?m)^Thread (\d+): \n", out)
    # parts = [pre, tid, text, tid, text, ...]
    for i in range(1, len(parts) - 1, 2):
        tid, txt = parts[i], parts[i + 1]
        name = thread_of.get(tid)
        if not name:
            continue
        r = KaniResult()
        r.output = txt[:4000]
        m = re.search(r"VERIFICATION:-\s*(\w+)", txt)
        r.status = m.group(1) if m else "ERROR"
        m = re.search(r"\*\* (\d+) of (\d+) failed", txt)
        if m:
            r.checks = int(m.group(2))
        for fm in re.finditer(r"Failed Checks: (.*)", txt):
            r.failed_checks.append(fm.group(1).strip().strip('"'))
        m = re.search(r"\*\* (\d+) of (\d+) cover properties satisfied", txt)
        if m:
            r.covers = {f"cover{k}": ("SATISFIED" if k < int(m.group(1)) else "UNSATISFIED") for k in range(int(m.group(2)))}
        m = re.search(r"Verification Time: ([0-9.]+)s", txt)
        if m:
            r.wall_s = float(m.group(1))
        res[name] = r
    for h in harnesses:
        if h not in res:
            r = KaniResult()
            r.status = "TIMEOUT" if timed_out else "ERROR"
            r.output = out[-3000:]
            res[h] = r
        res[h].cmd = " ".join(cmd)
    return res, wall, out


def playback(crate_dir, harness, timeout=900, extra=None):
    """Kani's counterexample for a failed harness, replayed natively on the generated crate (which holds the real function
    text): `--concrete-playback=inplace` writes the concrete values as unit tests into src/lib.rs, `cargo kani playback`
    runs them. Returns the lines describing the failing replays (empty if none failed or the tooling did not cooperate)."""
    env = dict(os.environ)
    env["CARGO_NET_OFFLINE"] = "true"
    env["CARGO_TARGET_DIR"] = os.path.join(vxlib.VERIF, ".cache", "kani-target", os.path.basename(crate_dir))
    gen = ["cargo", "kani", "--harness", harness, "-Z", "concrete-playback", "--concrete-playback=inplace"] + list(extra or [])
    try:
        subprocess.run(gen, cwd=crate_dir, capture_output=True, text=True, timeout=timeout, env=env)
        p = subprocess.run(["cargo", "kani", "playback", "-Z", "concrete-playback"], cwd=crate_dir, capture_output=True, text=True,
                           timeout=timeout, env=env)
    except subprocess.TimeoutExpired:
        return []
    out = p.stdout + "\n" + p.stderr
    lines = []
    for m in re.finditer(r"---- (\S*kani_concrete_playback_\S+) stdout ----\n(.*?)(?=\n----|\nfailures:)", out, re.S):
        msg = " ".join(x.strip() for x in m.group(2).strip().split("\n")[:4])
        lines.append(f"REPRODUCED kani-playback {m.group(1)} (generated test in {crate_dir}/src/lib.rs, concrete input = Kani's counterexample): {msg[:400]}")
    return lines
