"""Generated Kani crates: real function text extracted by vx + harnesses; `cargo kani` per harness."""
import os
import re
import subprocess
import time

import vxlib


def write_crate(name, lib_rs):
    d = os.path.join(vxlib.OUT, f"kani_{name}")
    os.makedirs(os.path.join(d, "src"), exist_ok=True)
    with open(os.path.join(d, "Cargo.toml"), "w") as f:
        f.write(f"[package]\nname = \"kani_{name.lower()}\"\nversion = \"0.0.0\"\nedition = \"2021\"\n\n[dependencies]\n\n[workspace]\n\n"
                "[lints.rust]\nunexpected_cfgs = { level = \"allow\" }\n")
    with open(os.path.join(d, "src", "lib.rs"), "w") as f:
        f.write(lib_rs)
    return d


class KaniResult:
    def __init__(self):
        self.status = "UNKNOWN"  # SUCCESSFUL | FAILED | TIMEOUT | ERROR
        self.checks = 0
        self.failed_checks = []
        self.covers = {}
        self.wall_s = 0.0
        self.output = ""
        self.cmd = ""


def run_kani(crate_dir, harness, solver=None, timeout=900, extra=None):
    env = dict(os.environ)
    env["CARGO_NET_OFFLINE"] = "true"
    env["CARGO_TARGET_DIR"] = os.path.join(vxlib.VERIF, ".cache", "kani-target", os.path.basename(crate_dir))
    cmd = ["cargo", "kani", "--harness", harness]
    if solver:
        cmd += ["--solver", solver]
    if extra:
        cmd += extra
    r = KaniResult()
    r.cmd = " ".join(cmd)
    t0 = time.time()
    try:
        p = subprocess.run(cmd, cwd=crate_dir, capture_output=True, text=True, timeout=timeout, env=env)
        out = p.stdout + "\n" + p.stderr
    except subprocess.TimeoutExpired as e:
        r.status = "TIMEOUT"
        r.wall_s = time.time() - t0
        r.output = (e.stdout or b"").decode() if isinstance(e.stdout, bytes) else (e.stdout or "")
        return r
    r.wall_s = time.time() - t0
    r.output = out
    m = re.search(r"VERIFICATION:-\s*(\w+)", out)
    if m:
        r.status = m.group(1)
    else:
        r.status = "ERROR"
    m = re.search(r"\*\* (\d+) of (\d+) failed", out)
    if m:
        r.checks = int(m.group(2))
    # failed checks
    for blk in re.finditer(r"Check \d+: (\S+)\n\s+- Status: (\w+)\n\s+- Description: \"([^\"]*)\"", out):
        name, st, desc = blk.group(1), blk.group(2), blk.group(3)
        if st == "FAILURE":
            r.failed_checks.append(f"{name}: {desc}")
        if ".cover." in name:
            r.covers[desc + "@" + name] = st
    return r
