"""Build + verify one unit; returns the data the check driver needs."""
import importlib.util
import os
import sys
import time

sys.path.insert(0, os.path.dirname(os.path.abspath(__file__)))
import vxlib  # noqa: E402


def load_unit(name):
    path = os.path.join(vxlib.VERIF, "units", name, "unit.py")
    spec = importlib.util.spec_from_file_location(f"unit_{name}", path)
    m = importlib.util.module_from_spec(spec)
    spec.loader.exec_module(m)
    return m


class UnitRun:
    pass


def verify_unit(name, vacuity=False, seed=None, rlimit=None, suffix=""):
    m = load_unit(name)
    t0 = time.time()
    unit = m.build(vacuity=vacuity)
    text = unit.text()
    os.makedirs(vxlib.OUT, exist_ok=True)
    path = os.path.join(vxlib.OUT, f"{name}{'_vacuity' if vacuity else ''}{suffix}.rs")
    with open(path, "w") as f:
        f.write(text)
    an = vxlib.Analysis(text)
    extra = []
    only = getattr(unit, "verify_only", None)
    if (vacuity and unit.modules) or only:
        for mod in (only or unit.modules):
            extra += ["--verify-module", mod]
    vres = vxlib.run_verus(path, extra=extra, rlimit=rlimit or getattr(m, "RLIMIT", None), seed=seed, log_air=not vacuity,
                            multiple_errors=(6 if vacuity else 40))
    r = UnitRun()
    r.name = name
    r.module = m
    r.unit = unit
    r.text = text
    r.path = path
    r.analysis = an
    r.vres = vres
    r.fails = vxlib.classify(unit, an, vres) if not vres.compile_errors else []
    r.wall_s = time.time() - t0
    r.vac_points = vxlib.vac_points() if vacuity else {}
    return r
