"""Build + verify one unit; returns the data the check driver needs."""
import importlib.util
import os
import sys
import time

sys.path.insert(0, os.path.dirname(os.path.abspath(__file__)))
import vxlib  # noqa: E402
import helpers  # noqa: E402


def load_unit(name):
    path = os.path.join(vxlib.VERIF, "units", name, "unit.py")
    spec = importlib.util.spec_from_file_location(f"unit_{name}", path)
    m = importlib.util.module_from_spec(spec)
    spec.loader.exec_module(m)
    return m


class UnitRun:
    pass


def verify_unit(name, vacuity=False, seed=None, rlimit=None, suffix=""):
    m = load_unit(name)
    t0 = time.time()
    unit = m.build(vacuity=vacuity)
    os.makedirs(vxlib.OUT, exist_ok=True)
    path = os.path.join(vxlib.OUT, f"{name}{'_vacuity' if vacuity else ''}{suffix}.rs")
    for _round in range(6):
        text = unit.text()
        with open(path, "w") as f:
            f.write(text)
        an = vxlib.Analysis(text)
        extra = []
        only = getattr(unit, "verify_only", None)
        if (vacuity and unit.modules) or only:
            for mod in (only or unit.modules):
                extra += ["--verify-module", mod]
        vres = vxlib.run_verus(path, extra=extra, rlimit=rlimit or getattr(m, "RLIMIT", None), seed=seed, log_air=not vacuity,
                                multiple_errors=(6 if vacuity else 40))
        if not vres.compile_errors:
            break
        # R28: a call of a /repo function the unit did not request -> extract that helper and try again
        added = False
        for (hname, hty, hline) in helpers.requests(unit, vres.compile_errors):
            added = helpers.add_helper(unit, hname, hty, hline, an, getattr(m, "HELPER_OPTS", None)) or added
        if not added:
            break
    r = UnitRun()
    r.name = name
    r.module = m
    r.unit = unit
    r.text = text
    r.path = path
    r.analysis = an
    r.vres = vres
    r.fails = vxlib.classify(unit, an, vres) if not vres.compile_errors else []
    r.wall_s = time.time() - t0
    r.vac_points = vxlib.vac_points() if vacuity else {}
    return r
