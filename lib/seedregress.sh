#!/bin/bash
# usage: seedregress.sh [seed names...]   (default: every directory under /verif/seeded)
# Applies each archived seeded change to /repo, runs the property's quick check, restores /repo; prints one line per seed.
cd /verif
NAMES="$@"; [ -z "$NAMES" ] && NAMES=$(ls seeded)
for n in $NAMES; do
  prop=$(python3 -c "import json;print(json.load(open('seeded/$n/meta.json'))['property'])")
  git -C /repo apply /verif/seeded/$n/patch.diff || { echo "SEED $n: patch does not apply"; continue; }
  ./check $prop quick > /tmp/scratch/regress_$n.log 2>&1; rc=$?
  git -C /repo checkout -- . ; git -C /repo clean -fdq
  echo "SEED $n prop=$prop rc=$rc $(grep -E '^VIOLATION' /tmp/scratch/regress_$n.log | head -2 | sed 's/replay=[^ ]* //' | tr '\n' ' ' | cut -c1-260)"
done
