#!/bin/bash
# usage: seedregress.sh [seed names...]   (default: every directory under /verif/seeded)
# Applies each archived seeded change to a scratch worktree of /repo (never to /repo itself), runs the property's quick check on it
# with its own out / evidence directories, and prints one line per seed. Can run beside other work on /repo and /verif.
cd /verif
WT=${REGWT:-/tmp/scratch/regwt}   # REGWT / REGTAG: several instances can run side by side on their own worktrees
TAG=${REGTAG:-}
mkdir -p /tmp/scratch
if [ ! -d $WT ]; then git -C /repo worktree add -q --detach $WT HEAD; fi
git -C $WT checkout -q --detach $(git -C /repo rev-parse HEAD); git -C $WT checkout -q -- . ; git -C $WT clean -fdq
export VERIF_REPO=$WT VERIF_OUT=/tmp/scratch/regout$TAG VERIF_EVIDENCE=/tmp/scratch/regev$TAG
NAMES="$@"; [ -z "$NAMES" ] && NAMES=$(ls seeded)
for n in $NAMES; do
  prop=$(python3 -c "import json;print(json.load(open('seeded/$n/meta.json'))['property'])")
  git -C $WT apply /verif/seeded/$n/patch.diff || { echo "SEED $n: patch does not apply"; continue; }
  ./check $prop quick > /tmp/scratch/regress_$n.log 2>&1; rc=$?
  git -C $WT checkout -q -- . ; git -C $WT clean -fdq
  echo "SEED $n prop=$prop rc=$rc $(grep -E '^VIOLATION' /tmp/scratch/regress_$n.log | head -2 | sed 's/replay=[^ ]* //' | tr '\n' ' ' | cut -c1-260)"
done
