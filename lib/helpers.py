"""Demand-driven extraction of helper functions (R28).

When the generated file does not compile because an extracted function calls a function or method of /repo that the unit
did not request (a helper introduced or newly used by a change), the helper is located *by the type and name the compiler
reports* in the source files the unit draws from, extracted mechanically like every other function, and emitted twice:

    impl T {
        pub open spec fn vxs_NAME(params) -> R BODY          // the body read as a mathematical function
        #[verifier::when_used_as_spec(vxs_NAME)]
        pub fn NAME(params) -> (r: R) ensures r == vxs_NAME(args) BODY   // the real body, verified against it
    }

so the caller sees the strongest postcondition of a pure helper (its own body) and Verus resolves the call by type, not
by name. A helper that is not expressible as a spec function (async, `&mut`, `?`, loops, unmodelled callees) does not
compile and the check ends with exit 2 as before; nothing is ever assumed about a helper.
"""
import os
import re

import vxlib

DEFAULT_RULES = ["attrs", "log", "let_chain", "opt_match", "closure_wild", "std_net"]

RE_METHOD = re.compile(r"no method named `(\w+)` found for (?:struct|enum|reference|mutable reference) `([^`]+)`")
RE_ASSOC = re.compile(r"no (?:function or )?associated item named `(\w+)` found for (?:struct|enum) `([^`]+)`")
RE_FREE = re.compile(r"cannot find function `(\w+)` in (?:this scope|module)")
RE_VALUE = re.compile(r"cannot find value `([A-Z][A-Z0-9_]*)` in (?:this scope|module)")


def _base(ty):
    ty = ty.strip().lstrip("&").strip()
    if ty.startswith("mut "):
        ty = ty[4:].strip()
    ty = ty.split("<")[0]
    return ty.split("::")[-1]


def _split_params(sig):
    a = sig.index("(")
    depth = 0
    for i in range(a, len(sig)):
        if sig[i] in "([<{":
            depth += 1
        elif sig[i] in ")]>}":
            depth -= 1
            if depth == 0:
                b = i
                break
    inner = sig[a + 1:b]
    parts, cur, depth = [], "", 0
    for ch in inner:
        if ch in "([<{":
            depth += 1
        elif ch in ")]>}":
            depth -= 1
        if ch == "," and depth == 0:
            parts.append(cur.strip())
            cur = ""
        else:
            cur += ch
    if cur.strip():
        parts.append(cur.strip())
    return parts


def requests(unit, diags):
    """(name, type-or-None, primary line) for every `unknown function / method` compile error."""
    out = []
    for d in diags:
        msg = d["message"]
        line = None
        for (l0, l1, prim, _lab) in d["spans"]:
            if prim:
                line = l0
        m = RE_METHOD.search(msg) or RE_ASSOC.search(msg)
        if m:
            out.append((m.group(1), _base(m.group(2)), line))
            continue
        m = RE_FREE.search(msg)
        if m:
            out.append((m.group(1), None, line))
            continue
        m = RE_VALUE.search(msg)
        if m:
            out.append((m.group(1), "const", line))
    return out


def add_const(unit, name, line, analysis):
    """A named constant of /repo the unit did not request: extracted and placed next to its user."""
    hit = locate(unit, name, "const")
    caller = analysis.fn_at(line) if line else None
    if hit is None or caller is None:
        return False
    f, it = hit
    key = f"const.{f}::{name}"
    if any(key in b for _c, b in unit.helper_blocks):
        return False
    ex = vxlib.run_vx([{"key": key, "file": f, "modpath": it["modpath"], "kind": "const", "name": name, "rules": ["attrs", "const_static"]}])[key]
    unit.helper_blocks.append((caller, f"    // R28: constant `{name}` located in {f} ({key})\n" + "\n".join("    " + ln for ln in ex["text"].rstrip().split("\n")) + "\n"))
    unit.rules_fired["helper_const"] = unit.rules_fired.get("helper_const", 0) + 1
    return True


def locate(unit, name, ty):
    """Find the helper in the source files of the unit's functions (inherent impls / free fns only)."""
    files = []
    for meta in unit.fn_meta.values():
        if meta["file"] not in files:
            files.append(meta["file"])
    # sibling files of the same crate `src` directories
    dirs = []
    for f in list(files):
        d = os.path.dirname(f)
        if d not in dirs:
            dirs.append(d)
    for d in dirs:
        full = os.path.join(vxlib.REPO, d)
        for fn in sorted(os.listdir(full)):
            rel = os.path.join(d, fn)
            if fn.endswith(".rs") and rel not in files:
                files.append(rel)
    hits = []
    for f in files:
        for it in vxlib.vx_list(f):
            if ty is None and it["kind"] == "fn" and it["name"] == name:
                hits.append((f, it))
            if ty == "const" and it["kind"] == "const" and it["name"] == name:
                hits.append((f, it))
            if ty not in (None, "const") and it["kind"] == "impl" and it["trait_"] == "" and _base(it["self_ty"]) == ty and name in it["fns"]:
                hits.append((f, it))
    if len(hits) != 1:
        return None
    return hits[0]


def add_helper(unit, name, ty, line, analysis, opts=None):
    """Extract + emit one helper next to its caller. Returns False when it cannot be located."""
    if ty == "const":
        return add_const(unit, name, line, analysis)
    hit = locate(unit, name, ty)
    if hit is None:
        return False
    f, it = hit
    key = f"helper.{f}::{(ty + '::') if ty else ''}{name}"
    if key in unit.fn_meta:
        return False
    caller = analysis.fn_at(line) if line else None
    if caller is None:
        return False
    o = dict((opts or {}).get(ty or "", {}))
    req = {"key": key, "file": f, "modpath": it["modpath"], "name": name, "rules": o.get("rules", DEFAULT_RULES),
           "subst": o.get("subst", {}), "drop_generics": o.get("drop_generics", [])}
    if ty is None:
        req["kind"] = "fn"
    else:
        req["kind"] = "impl_fn"
        req["self_ty"] = it["self_ty"]
    ex = vxlib.run_vx([req])[key]
    if not ex["ret"] or ex["ret"] == "()":
        raise vxlib.OutOfReach(f"helper `{name}` returns nothing: its effect cannot be inferred as a postcondition (unsupported)")
    if "async " in ex["sig"]:
        raise vxlib.OutOfReach(f"helper `{name}` is async (unsupported)")
    params = _split_params(ex["sig"])
    args, has_self = [], False
    for p in params:
        if p in ("self", "&self"):
            has_self = True
        elif p.startswith("&mut self") or p.startswith("mut self") or "&mut " in p:
            raise vxlib.OutOfReach(f"helper `{name}` takes a mutable borrow: not expressible as a spec function (unsupported)")
        else:
            pat = p.split(":")[0].strip()
            if not re.fullmatch(r"\w+", pat):
                raise vxlib.OutOfReach(f"helper `{name}` has a pattern parameter (unsupported)")
            args.append(pat)
    sname = "vxs_" + name
    call = (f"self.{sname}" if has_self else (f"Self::{sname}" if ty else sname)) + "(" + ", ".join(args) + ")"
    cprops = list(unit.fn_meta.get(caller, {}).get("props", [])) or list(unit.default_props)
    contract = vxlib.FnContract(key, {
        "props": cprops,
        "attrs": [f"#[verifier::when_used_as_spec({sname})]"],
        "ensures": [{"id": f"{key}.inferred_post", "props": cprops, "text": f"r == {call}"}],
    })
    ex["vis"] = "pub"
    ind = "        " if ty else "    "
    sig0 = re.sub(r"^((const|unsafe)\s+)*", "", ex["sig"].split("/*where*/")[0].strip())
    spec_sig = re.sub(r"^fn\s+" + re.escape(name) + r"\b", f"pub open spec fn {sname}", sig0, count=1)
    if not spec_sig.startswith("pub open spec fn"):
        raise vxlib.OutOfReach(f"helper `{name}`: unexpected signature `{sig0}`")
    spec_body = "\n".join(ind + ln if ln else ln for ln in ex["body"].split("\n"))
    spec_txt = f"{ind}{spec_sig} -> {ex['ret']}\n{spec_body}\n"
    n0 = len(unit.parts)
    unit.add_fn(ex, contract, mode="verify", indent=ind)
    fn_txt = "".join(unit.parts[n0:])
    del unit.parts[n0:]
    tyname = o.get("impl_header") or (f"impl {ty}" if ty else None)
    if ty:
        block = f"    // R28: helper located by the compiler-reported type `{ty}` and name `{name}` in {f}\n    {tyname} {{\n{spec_txt}{fn_txt}    }}\n"
    else:
        block = f"    // R28: helper `{name}` located in {f}\n{spec_txt}{fn_txt}"
    unit.helper_blocks.append((caller, block))
    unit.rules_fired["helper_lift"] = unit.rules_fired.get("helper_lift", 0) + 1
    return True
