// Iterator / collector model used by R32 (iter_loop). Included inside a `verus!` block.
// `it.next()` yields the items of a fixed sequence in order; what that sequence is for a given collection, and what
// pushing an item into a collection under construction does, is stated per collection type by the unit's prelude through
// the three traits below (trait-level spec functions, so that callers see them through static dispatch).
pub struct VxIter<T> { pub items: Ghost<Seq<T>>, pub pos: Ghost<int> }
impl<T> VxIter<T> {
    pub open spec fn wf(&self) -> bool { 0 <= self.pos@ <= self.items@.len() }
    #[verifier::external_body]
    pub fn next(&mut self) -> (r: Option<T>)
        requires old(self).wf(),
        ensures final(self).wf(), final(self).items@ == old(self).items@,
            match r {
                Some(x) => old(self).pos@ < old(self).items@.len() && x == old(self).items@[old(self).pos@] && final(self).pos@ == old(self).pos@ + 1,
                None => old(self).pos@ == old(self).items@.len() && final(self).pos@ == old(self).pos@,
            },
    { unimplemented!() }
}
/// `c.into_iter()`: the items of `c`, in the order `vx_items` states
pub trait VxIntoIter: Sized {
    type Item;
    spec fn vx_items_ok(self, items: Seq<Self::Item>) -> bool;
    fn vx_into_iter(self) -> (r: VxIter<Self::Item>)
        ensures self.vx_items_ok(r.items@), r.pos@ == 0;
}
/// `c.iter()`
pub trait VxIterRef {
    type Item;
    spec fn vx_ref_items_ok(&self, items: Seq<Self::Item>) -> bool;
    fn vx_iter(&self) -> (r: VxIter<Self::Item>)
        ensures self.vx_ref_items_ok(r.items@), r.pos@ == 0;
}
/// `FromIterator`: start empty, take the items one by one
pub trait VxCollect: Sized {
    type Item;
    spec fn vx_is_empty(self) -> bool;
    spec fn vx_pushed(self, before: Self, item: Self::Item) -> bool;
    fn vx_new() -> (r: Self)
        ensures r.vx_is_empty();
    fn vx_push(&mut self, item: Self::Item)
        ensures final(self).vx_pushed(*old(self), item);
}
impl<T> VxIntoIter for Vec<T> {
    type Item = T;
    open spec fn vx_items_ok(self, items: Seq<T>) -> bool { items == self@ }
    #[verifier::external_body]
    fn vx_into_iter(self) -> (r: VxIter<T>) { unimplemented!() }
}
impl<T> VxCollect for Vec<T> {
    type Item = T;
    open spec fn vx_is_empty(self) -> bool { self@.len() == 0 }
    open spec fn vx_pushed(self, before: Self, item: T) -> bool { self@ == before@.push(item) }
    fn vx_new() -> (r: Self) { Vec::new() }
    fn vx_push(&mut self, item: T) { self.push(item); }
}
