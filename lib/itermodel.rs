// Iterator / collector model used by R32 (iter_loop). Included inside a `verus!` block.
// `it.next()` yields the items of a fixed sequence in order; what that sequence is for a given collection, and what
// pushing an item into a collection under construction does, is stated per collection type by the unit's prelude through
// the three traits below (trait-level spec functions, so that callers see them through static dispatch).
/// language invariant: the length of a `Vec` is a `usize`
pub broadcast axiom fn axiom_vec_len_bound<T>(v: &Vec<T>) ensures #[trigger] v@.len() <= usize::MAX;
pub struct VxIter<T> { pub items: Ghost<Seq<T>>, pub pos: Ghost<int> }
impl<T> VxIter<T> {
    pub open spec fn wf(&self) -> bool { 0 <= self.pos@ <= self.items@.len() }
    #[verifier::external_body]
    pub fn next(&mut self) -> (r: Option<T>)
        requires old(self).wf(),
        ensures final(self).wf(), final(self).items@ == old(self).items@,
            match r {
                Some(x) => old(self).pos@ < old(self).items@.len() && x == old(self).items@[old(self).pos@] && final(self).pos@ == old(self).pos@ + 1,
                None => old(self).pos@ == old(self).items@.len() && final(self).pos@ == old(self).pos@,
            },
    { unimplemented!() }
}
/// `c.into_iter()`: the items of `c`, in the order `vx_items` states
pub trait VxIntoIter: Sized {
    type Item;
    spec fn vx_items_ok(self, items: Seq<Self::Item>) -> bool;
    fn vx_into_iter(self) -> (r: VxIter<Self::Item>)
        ensures self.vx_items_ok(r.items@), r.pos@ == 0;
}
/// `c.iter()`
pub trait VxIterRef<'a> {
    type Item;
    spec fn vx_ref_items_ok(&self, items: Seq<Self::Item>) -> bool;
    fn vx_iter(&'a self) -> (r: VxIter<Self::Item>)
        ensures self.vx_ref_items_ok(r.items@), r.pos@ == 0;
}
impl<'a, T: 'a> VxIterRef<'a> for Vec<T> {
    type Item = &'a T;
    open spec fn vx_ref_items_ok(&self, items: Seq<&'a T>) -> bool { items.len() == self@.len() && forall|i: int| 0 <= i < items.len() ==> *(#[trigger] items[i]) == self@[i] }
    #[verifier::external_body]
    fn vx_iter(&'a self) -> (r: VxIter<&'a T>) { unimplemented!() }
}
/// `(&v).into_iter()` (what `for x in &v` runs): references to the elements, in order
impl<'a, T> VxIntoIter for &'a Vec<T> {
    type Item = &'a T;
    open spec fn vx_items_ok(self, items: Seq<&'a T>) -> bool { items.len() == self@.len() && forall|i: int| 0 <= i < items.len() ==> *(#[trigger] items[i]) == self@[i] }
    #[verifier::external_body]
    fn vx_into_iter(self) -> (r: VxIter<&'a T>) { unimplemented!() }
}
/// `FromIterator`: start empty, take the items one by one
pub trait VxCollect: Sized {
    type Item;
    spec fn vx_is_empty(self) -> bool;
    spec fn vx_pushed(self, before: Self, item: Self::Item) -> bool;
    fn vx_new() -> (r: Self)
        ensures r.vx_is_empty();
    fn vx_push(&mut self, item: Self::Item)
        ensures final(self).vx_pushed(*old(self), item);
}
impl<T> VxIntoIter for Vec<T> {
    type Item = T;
    open spec fn vx_items_ok(self, items: Seq<T>) -> bool { items == self@ }
    #[verifier::external_body]
    fn vx_into_iter(self) -> (r: VxIter<T>) { unimplemented!() }
}
impl<T> VxCollect for Vec<T> {
    type Item = T;
    open spec fn vx_is_empty(self) -> bool { self@.len() == 0 }
    open spec fn vx_pushed(self, before: Self, item: T) -> bool { self@ == before@.push(item) }
    // (the explicit instantiations keep the impl's definitions in the solver's context whatever else the file contains)
    fn vx_new() -> (r: Self) { let v: Vec<T> = Vec::new(); proof { assert(<Vec<T> as VxCollect>::vx_is_empty(v)); } v }
    fn vx_push(&mut self, item: T) { let ghost before = *self; self.push(item); proof { assert(<Vec<T> as VxCollect>::vx_pushed(*self, before, item)); } }
}
/// `impl FromIterator<Result<T, E>> for Result<Vec<T>, E>`: the items in order while they are `Ok`, else the first error
impl<T, E> VxCollect for Result<Vec<T>, E> {
    type Item = Result<T, E>;
    open spec fn vx_is_empty(self) -> bool { self matches Ok(v) && v@.len() == 0 }
    open spec fn vx_pushed(self, before: Self, item: Result<T, E>) -> bool {
        match (before, item) {
            (Ok(v), Ok(x)) => self matches Ok(w) && w@ == v@.push(x),
            (Ok(_), Err(e)) => self == Err::<Vec<T>, E>(e),
            (Err(e), _) => self == Err::<Vec<T>, E>(e),
        }
    }
    #[verifier::external_body]
    fn vx_new() -> (r: Self) { unimplemented!() }
    #[verifier::external_body]
    fn vx_push(&mut self, item: Result<T, E>) { unimplemented!() }
}
