// String comparison model (included inside a `verus!` block; needs `use vstd::std_specs::cmp::*;` at file level).
// vstd specifies `String == String` only for owned operands; comparisons through references (`&String == &str`, `&String ==
// &String`, `String == &str`) go through `PartialEqSpec`, which std's `String` leaves unspecified. Assumed here: every such
// comparison is equality of the strings' contents.
pub broadcast axiom fn axiom_string_obeys_eq()
    ensures #[trigger] <String as PartialEqSpec>::obeys_eq_spec();
pub broadcast axiom fn axiom_string_eq(a: String, b: String)
    ensures #[trigger] a.eq_spec(&b) == (a@ == b@);
pub broadcast axiom fn axiom_string_str_obeys_eq()
    ensures #[trigger] <String as PartialEqSpec<str>>::obeys_eq_spec();
pub broadcast axiom fn axiom_string_str_eq(a: String, b: &str)
    ensures #[trigger] <String as PartialEqSpec<str>>::eq_spec(&a, b) == (a@ == b@);
pub broadcast axiom fn axiom_string_refstr_obeys_eq<'a>()
    ensures #[trigger] <String as PartialEqSpec<&'a str>>::obeys_eq_spec();
pub broadcast axiom fn axiom_string_refstr_eq<'a>(a: String, b: &'a str)
    ensures #[trigger] <String as PartialEqSpec<&'a str>>::eq_spec(&a, &b) == (a@ == b@);
pub broadcast group group_string_eq { axiom_string_refstr_obeys_eq, axiom_string_refstr_eq, axiom_string_obeys_eq, axiom_string_eq, axiom_string_str_obeys_eq, axiom_string_str_eq }
