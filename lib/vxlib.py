"""Assembler / runner for the contract-based checks (see DESIGN.md §2).

A *unit* is one Verus file, rebuilt on every run from
  - a hand-written prelude (environment contracts, spec functions, lemmas),
  - functions/structs extracted mechanically from /repo by `vx`,
  - contract clauses from contracts.toml spliced in at structural anchors.

Every clause line carries a trailing `// @cl:<id>` tag so that verifier
diagnostics (which report line spans) can be mapped back to clause ids; every
emitted function is wrapped in `// @fn-begin:<key>` / `// @fn-end:<key>`.
"""
import json
import os
import re
import subprocess
import sys
import time
import threading
import tomllib

VERIF = os.path.dirname(os.path.dirname(os.path.abspath(__file__)))
REPO = os.environ.get("VERIF_REPO", "/repo")
VX = os.path.join(VERIF, "vx", "target", "release", "vx")
# VERIF_OUT / VERIF_EVIDENCE / VERIF_REPO let a regression run (lib/seedregress.sh) work on a scratch copy of the repository
# beside the registered checks, which always use /repo, /verif/out and /verif/evidence
OUT = os.environ.get("VERIF_OUT") or os.path.join(VERIF, "out")
EVIDENCE = os.environ.get("VERIF_EVIDENCE") or os.path.join(VERIF, "evidence")

EXIT_TOOL = 2


class ToolTrouble(Exception):
    """Extraction / tool problem: never a verdict (exit 2)."""


# --------------------------------------------------------------------------- vx
class OutOfReach(ToolTrouble):
    """The current source of a function under contract is outside what the extractor / Verus accept."""
    pass


# ---- rename following: lib/names.json holds, per unit and function key, the (kind, identifier) list of parameters and bindings
# that the contract text was written against (recorded on the pinned tree with `lib/dev.py --record-names`). vx compares it with the
# current function; if only identifiers differ (same kinds in the same order, consistent injective mapping) it translates the
# anchors and returns the map, and emit_fn lets clause and proof text follow the renamed locals.
NAMES_FILE = os.path.join(VERIF, "lib", "names.json")
_NAMES = None
RECORDED = {}


def _names():
    global _NAMES
    if _NAMES is None:
        try:
            with open(NAMES_FILE) as f:
                _NAMES = json.load(f)
        except Exception:
            _NAMES = {}
    return _NAMES


def _caller_unit():
    import inspect
    for fr in inspect.stack()[2:6]:
        n = fr.frame.f_globals.get("NAME")
        if isinstance(n, str):
            return n
    return "?"


def run_vx(items):
    unit_name = _caller_unit()
    reg = _names().get(unit_name, {})
    for it in items:
        if it.get("kind") in ("fn", "impl_fn") and it["key"] in reg and "expect_names" not in it:
            it["expect_names"] = reg[it["key"]]
    os.makedirs(OUT, exist_ok=True)
    job = {"repo": REPO, "items": items}
    path = os.path.join(OUT, f"vxjob.{os.getpid()}.{threading.get_ident()}.{time.time_ns()}.json")
    with open(path, "w") as f:
        json.dump(job, f)
    if not os.path.exists(VX):
        raise ToolTrouble(f"extractor not built: {VX} (run setup)")
    p = subprocess.run([VX, path], capture_output=True, text=True)
    os.unlink(path)
    if p.returncode != 0:
        raise ToolTrouble(f"vx failed: {p.stderr[-2000:]}")
    res = json.loads(p.stdout)
    out = {}
    for r in res:
        if not r["ok"]:
            raise OutOfReach(f"extraction of `{r['key']}` from {r['file']} failed: {r['error']}")
        out[r["key"]] = r
        if r.get("kind") in ("fn", "impl_fn"):
            RECORDED.setdefault(unit_name, {})[r["key"]] = r.get("names", [])
    return out


def follow_renames(text, rename):
    """identifiers of `rename` (whole words, code part of each line only) are replaced by the current names"""
    if not rename or not text:
        return text
    pat = re.compile(r"\b(" + "|".join(re.escape(k) for k in sorted(rename, key=len, reverse=True)) + r")\b")
    out = []
    for ln in text.split("\n"):
        code, sep, comment = ln.partition("//")
        out.append(pat.sub(lambda m: rename[m.group(1)], code) + sep + comment)
    return "\n".join(out)


def vx_list(relpath):
    p = subprocess.run([VX, "--list", os.path.join(REPO, relpath)], capture_output=True, text=True)
    if p.returncode != 0:
        raise ToolTrouble(f"vx --list {relpath} failed: {p.stderr[-2000:]}")
    return json.loads(p.stdout)


def with_includes(text):
    """`//@include <file>` lines of a prelude are replaced by lib/<file> (shared models)."""
    def sub(m):
        with open(os.path.join(VERIF, "lib", m.group(1))) as f:
            return f.read()
    return re.sub(r"^//@include (\S+)$", sub, text, flags=re.M)


def const_items(relpath, skip=()):
    """Extraction requests for every module-level `const` of a source file (any module depth), so that code which starts
    using a new named constant is still analysed. Returns (items, [(modpath, key)])."""
    items, where = [], []
    for it in vx_list(relpath):
        if it["kind"] == "const" and it["name"] not in skip:
            key = "const." + relpath + "::" + "::".join(it["modpath"] + [it["name"]])
            items.append({"key": key, "file": relpath, "modpath": it["modpath"], "kind": "const", "name": it["name"], "rules": ["attrs", "const_static"]})
            where.append((tuple(it["modpath"]), key))
    return items, where


# --------------------------------------------------------------------------- contracts
class Clause:
    def __init__(self, cid, kind, text, props, fn=None):
        self.id = cid
        self.kind = kind
        self.text = text.strip()
        # the properties named in the id prefix (`C02+C14.x`) always count, next to the explicit list
        self.props = list(props)
        m = re.match(r"^(C\d+(?:\+C\d+)*)\.", cid)
        for pp in (m.group(1).split("+") if m else []):
            if pp not in self.props:
                self.props.append(pp)
        self.fn = fn

    def tagged(self, indent="        "):
        lines = self.text.rstrip().rstrip(",").split("\n")
        out = []
        for i, ln in enumerate(lines):
            comma = "," if i == len(lines) - 1 else ""
            out.append(f"{indent}{ln.rstrip()}{comma} // @cl:{self.id}")
        return "\n".join(out)


def load_contracts(path):
    with open(path, "rb") as f:
        return tomllib.load(f)


def _clauses(fnkey, kind, entries, default_props, prefix=None):
    out = []
    for i, e in enumerate(entries or []):
        if isinstance(e, str):
            e = {"text": e}
        cid = e.get("id") or f"{prefix or fnkey}.{kind}{i}"
        out.append(Clause(cid, kind, e["text"], e.get("props", default_props), fnkey))
    return out


class FnContract:
    """Contract of one function from contracts.toml."""

    def __init__(self, key, d):
        self.key = key
        self.props = d.get("props", [])
        self.requires = _clauses(key, "requires", d.get("requires"), self.props)
        self.ensures = _clauses(key, "ensures", d.get("ensures"), self.props)
        self.loops = []
        for k, lp in enumerate(d.get("loops", [])):
            pfx = f"{key}.loop{k}"
            self.loops.append(
                {
                    "invariant_except_break": _clauses(key, "invariant_except_break", lp.get("invariant_except_break"), self.props, pfx),
                    "invariant": _clauses(key, "invariant", lp.get("invariant"), self.props, pfx),
                    "ensures": _clauses(key, "ensures", lp.get("ensures"), self.props, pfx),
                    "decreases": lp.get("decreases"),
                }
            )
        self.proof = d.get("proof", {})
        self.attrs = d.get("attrs", [])
        self.no_decreases = d.get("no_decreases", False)
        self.ret_name = d.get("ret_name", "r")
        self.note = d.get("note", "")

    def all_clauses(self):
        cs = list(self.requires) + list(self.ensures)
        for lp in self.loops:
            cs += lp["invariant_except_break"] + lp["invariant"] + lp["ensures"]
        return cs


def cancelled_contract(contract, loop=0):
    """R8c: contract of `vx_cancelled_<m>` - the future of `m` lost a `select!` and is dropped. Assumed: it stops between two
    iterations of its loop, so what holds is the loop invariant of `m` (proved where `m` is verified, under `m`'s precondition):
    same requires, ensures = the invariant clauses with `self` read as the final state. Clause ids are kept."""
    def conv(t):
        t = t.replace("old(self)", "\x00")
        t = re.sub(r"\bself\b", "final(self)", t)
        return t.replace("\x00", "old(self)")
    c = FnContract(contract.key + ".cancelled", {"props": list(contract.props)})
    c.requires = [Clause(r.id + ".cancelled", "requires", r.text, r.props, c.key) for r in contract.requires]
    c.ensures = [Clause(i.id + ".cancelled", "ensures", conv(i.text), i.props, c.key) for i in contract.loops[loop]["invariant"]]
    return c


def cancelled_item(item, method):
    it = dict(item)
    it.update({"sig": f"fn vx_cancelled_{method}(&mut self)", "ret": "", "body": "", "rename": {}, "auto_loop_ensures": {}, "rules_fired": {}})
    return it


# --------------------------------------------------------------------------- emission
LOOP_RE = re.compile(r"\{\s*__vx_loop!\((\d+)\);")
AT_RE = re.compile(r"^[ \t]*__vx_at!\(\"([^\"]+)\"\);[ \t]*\n", re.M)


def _spec_block(kind, clauses, indent):
    if not clauses:
        return ""
    return f"{indent}{kind}\n" + "\n".join(c.tagged(indent + "    ") for c in clauses) + "\n"


def emit_fn(item, contract, mode="verify", vacuity=False, extra_auto=None, indent="    "):
    """Return the Verus text of one extracted function with its contract.

    mode: "verify" (real body) | "external" (same signature + contract, body trusted)
    """
    key = contract.key
    rename = item.get("rename") or {}
    if rename and not getattr(contract, "_renamed", False):
        for c in contract.all_clauses():
            c.text = follow_renames(c.text, rename)
        for lp in contract.loops:
            if lp["decreases"]:
                lp["decreases"] = follow_renames(lp["decreases"], rename)
        contract.proof = {k: follow_renames(v, rename) for k, v in contract.proof.items()}
        contract._renamed = True
    lines = []
    lines.append(f"// @fn-begin:{key} src={item['file']}:{item['line_start']}-{item['line_end']} mode={mode}")
    attrs = list(contract.attrs)
    if mode == "decl":
        attrs = []
    elif mode in ("external", "body_external"):
        attrs.append("#[verifier::external_body]")
    elif contract.no_decreases:
        attrs.append("#[verifier::exec_allows_no_decreases_clause]")
    for a in attrs:
        lines.append(indent + a)
    sig = item["sig"].strip()
    where = ""
    if "/*where*/" in sig:
        sig, where = sig.split("/*where*/")
        sig = sig.strip()
        where = "\n" + indent + "    where " + where.strip()
    vis = item["vis"].strip() if mode not in ("decl", "body", "body_external") else ""
    head = (vis + " " if vis else "") + sig
    if item["ret"]:
        head += f" -> ({contract.ret_name}: {item['ret']})"
    lines.append(indent + head + where)
    spec = ""
    if mode not in ("body", "body_external"):
        spec = _spec_block("requires", contract.requires, indent + "    ")
        spec += _spec_block("ensures", contract.ensures, indent + "    ")
    if spec:
        lines.append(spec.rstrip("\n"))
    if mode == "decl":
        lines.append(indent + ";")
    elif mode in ("external", "body_external"):
        lines.append(indent + "{ unimplemented!() }")
    else:
        body = item["body"]
        # loop specs
        def loop_sub(m):
            k = int(m.group(1))
            lp = contract.loops[k] if k < len(contract.loops) else None
            auto = (item.get("auto_loop_ensures") or {}).get(str(k), [])
            txt = ""
            ind = indent + "        "
            if lp or auto:
                lp = lp or {"invariant_except_break": [], "invariant": [], "ensures": [], "decreases": None}
                ieb = list(lp["invariant_except_break"])
                ens = list(lp["ensures"])
                for j, a in enumerate(auto):
                    ens.append(Clause(f"{key}.loop{k}.auto{j}", "ensures", a, contract.props, key))
                    ieb.append(Clause(f"{key}.loop{k}.autoinv{j}", "invariant_except_break", a.replace(" is Some", " is None"), contract.props, key))
                txt += "\n" + _spec_block("invariant_except_break", ieb, ind)
                txt += _spec_block("invariant", lp["invariant"], ind)
                txt += _spec_block("ensures", ens, ind)
                if lp["decreases"]:
                    txt += f"{ind}decreases {lp['decreases']}\n"
                txt += ind
            tail = ""
            if vacuity:
                tail = f"\n{ind}proof {{ assert(vx_vac({_vac_id(key, 'loop#%d' % k)})); }} // @vac:{key}:loop#{k}"
            return txt + "{" + tail
        body = LOOP_RE.sub(loop_sub, body)
        # proof anchors
        def at_sub(m):
            name = m.group(1)
            txt = contract.proof.get(name, "")
            out = ""
            if txt:
                out += "\n".join(indent + "    " + ln for ln in txt.strip().split("\n")) + "\n"
            if vacuity and name == "fn:begin":
                out += f"{indent}    proof {{ assert(vx_vac({_vac_id(key, 'fn:begin')})); }} // @vac:{key}:fn:begin\n"
            return out
        body = AT_RE.sub(at_sub, body)
        if "__vx_at!" in body or "__vx_loop!" in body:
            raise ToolTrouble(f"marker left in body of {key}")
        body = "\n".join(indent + ln if ln else ln for ln in body.split("\n"))
        lines.append(body)
    lines.append(f"// @fn-end:{key}")
    return "\n".join(lines) + "\n"


_TL = threading.local()


def _vac_ids():
    if not hasattr(_TL, "ids"):
        _TL.ids = {}
    return _TL.ids


def _vac_id(key, anchor):
    ids = _vac_ids()
    k = (key, anchor)
    if k not in ids:
        ids[k] = len(ids)
    return ids[k]


def vac_points():
    return dict(_vac_ids())


def reset_vac():
    _vac_ids().clear()


VAC_PRELUDE = """
verus! {
pub uninterp spec fn vx_vac(k: int) -> bool;
}
"""


def anchors_for(contract, vacuity=False):
    a = list(contract.proof.keys())
    if vacuity and "fn:begin" not in a:
        a.append("fn:begin")
    return a


# --------------------------------------------------------------------------- verus
class VerusResult:
    def __init__(self):
        self.ok = False
        self.verified = 0
        self.errors = 0
        self.diagnostics = []  # list of dict(message, spans=[(l0,l1,primary,label)], rendered)
        self.functions = []  # function-breakdown
        self.times = {}
        self.raw_stdout = ""
        self.raw_stderr = ""
        self.wall_s = 0.0
        self.obligations = 0
        self.queries = 0
        self.compile_errors = []
        self.cmd = ""


def run_verus(path, rlimit=None, multiple_errors=40, log_air=True, extra=None, timeout=900, seed=None):
    logdir = path + ".log"
    cmd = ["verus", "--edition", "2024", path, "--error-format=json", "--output-json", "--time-expanded",
           "--multiple-errors", str(multiple_errors), "--num-threads", "8"]
    if rlimit:
        cmd += ["--rlimit", str(rlimit)]
    if log_air:
        cmd += ["--log", "air-final", "--log-dir", logdir]
    if seed is not None:
        cmd += ["--smt-option", f"smt.random_seed={seed}"]
    if extra:
        cmd += extra
    t0 = time.time()
    import signal
    proc = subprocess.Popen(cmd, stdout=subprocess.PIPE, stderr=subprocess.PIPE, text=True, cwd=os.path.dirname(path), start_new_session=True)
    try:
        so, se = proc.communicate(timeout=timeout)
    except subprocess.TimeoutExpired:
        try:
            os.killpg(proc.pid, signal.SIGKILL)
        except Exception:
            pass
        proc.communicate()
        raise ToolTrouble(f"verus timed out after {timeout}s on {path}")

    class _P:
        pass
    p = _P()
    p.stdout, p.stderr, p.returncode = so, se, proc.returncode
    r = VerusResult()
    r.cmd = " ".join(cmd)
    r.wall_s = time.time() - t0
    r.raw_stdout = p.stdout
    r.raw_stderr = p.stderr
    for ln in p.stderr.split("\n"):
        ln = ln.strip()
        if not ln.startswith("{"):
            continue
        try:
            d = json.loads(ln)
        except Exception:
            continue
        if d.get("$message_type") != "diagnostic":
            continue
        if d.get("level") not in ("error",):
            continue
        if d.get("message", "").startswith("aborting due to"):
            continue
        spans = [(s["line_start"], s["line_end"], s["is_primary"], s.get("label") or "") for s in d.get("spans", [])
                 if os.path.basename(s.get("file_name", "")) == os.path.basename(path)]
        r.diagnostics.append({"message": d["message"], "spans": spans, "rendered": d.get("rendered", ""), "code": d.get("code")})
    try:
        j = json.loads(p.stdout)
    except Exception:
        j = None
    if j is None:
        # compile error before verification, or crash
        r.compile_errors = [d for d in r.diagnostics]
        if not r.compile_errors:
            raise ToolTrouble(f"verus produced no JSON: rc={p.returncode} stderr={p.stderr[-1500:]}")
        return r
    vr = j.get("verification-results", {})
    r.verified = vr.get("verified", 0)
    r.errors = vr.get("errors", 0)
    r.ok = (r.errors == 0 and not vr.get("encountered-error") and not vr.get("encountered-vir-error"))
    if vr.get("encountered-vir-error") or (not r.ok and r.errors == 0):
        r.compile_errors = [d for d in r.diagnostics]
    r.times = j.get("times-ms", {})
    try:
        for m in r.times["smt"]["smt-run-module-times"]:
            r.functions += m.get("function-breakdown", [])
    except Exception:
        pass
    if log_air:
        try:
            for fn in os.listdir(logdir):
                if fn.endswith(".air"):
                    with open(os.path.join(logdir, fn)) as f:
                        txt = f.read()
                    r.queries += len(re.findall(r"^\(check-valid", txt, re.M))
                    r.obligations += len(re.findall(r"\(location\b", txt))
            subprocess.run(["rm", "-rf", logdir])
        except Exception:
            pass
    return r


# --------------------------------------------------------------------------- unit
class Unit:
    def __init__(self, name):
        self.name = name
        self.parts = []
        self.clauses = {}
        self.fn_meta = {}  # key -> dict(file, lines, mode, props)
        self.rules_fired = {}
        self.default_props = []
        self.trusted_notes = []
        self.modules = []  # modules holding extracted code (the vacuity run verifies only these)
        self.helper_blocks = []  # (caller fn key, text): R28 helpers, spliced in front of the caller's impl block / fn

    def raw(self, text):
        self.parts.append(text if text.endswith("\n") else text + "\n")

    def add_clause(self, c):
        if c.id in self.clauses and self.clauses[c.id].text != c.text:
            raise ToolTrouble(f"duplicate clause id {c.id}")
        self.clauses[c.id] = c

    def add_fn(self, item, contract, mode="verify", vacuity=False, indent="    "):
        for c in contract.all_clauses():
            self.add_clause(c)
        for k, auto in (item.get("auto_loop_ensures") or {}).items():
            for j, a in enumerate(auto):
                self.add_clause(Clause(f"{contract.key}.loop{k}.auto{j}", "ensures", a, contract.props, contract.key))
                self.add_clause(Clause(f"{contract.key}.loop{k}.autoinv{j}", "invariant_except_break", a, contract.props, contract.key))
        mkey = contract.key if mode != "decl" else contract.key + "#decl"
        # a failed body obligation leaves the whole contract unestablished: it counts for every
        # property one of the function's clauses serves
        fprops = list(contract.props)
        for c in contract.all_clauses():
            for pp in c.props:
                if pp not in fprops:
                    fprops.append(pp)
        self.fn_meta[mkey] = {
            "file": item["file"], "lines": [item["line_start"], item["line_end"]], "mode": mode,
            "props": fprops, "loops": item.get("loops", 0), "rules": item.get("rules_fired", {}),
        }
        for k, v in (item.get("rules_fired") or {}).items():
            self.rules_fired[k] = self.rules_fired.get(k, 0) + v
        self.raw(emit_fn(item, contract, mode=mode, vacuity=vacuity and mode in ("verify", "body"), indent=indent))

    def add_item_text(self, item):
        for k, v in (item.get("rules_fired") or {}).items():
            self.rules_fired[k] = self.rules_fired.get(k, 0) + v
        self.raw(f"// @item:{item['key']} src={item['file']}:{item['line_start']}-{item['line_end']}\n" + item["text"])

    def text(self):
        text = "".join(self.parts)
        for caller, block in self.helper_blocks:
            lines = text.split("\n")
            at = None
            for i, ln in enumerate(lines):
                if ln.startswith(f"// @fn-begin:{caller} "):
                    at = i
                    break
            if at is None:
                raise ToolTrouble(f"helper placement: caller {caller} not found")
            # the enclosing `impl .. {` of the caller, if it is still open at the caller
            j = at - 1
            while j >= 0:
                st = lines[j].strip()
                if re.match(r"^(pub\s+)?(mod|impl)\b.*\{$", st) or st.startswith("verus!"):
                    break
                j -= 1
            if j >= 0 and lines[j].strip().startswith("impl"):
                ind = len(lines[j]) - len(lines[j].lstrip())
                closed = any(l.rstrip() == " " * ind + "}" for l in lines[j + 1:at])
                if not closed:
                    at = j
            lines[at:at] = block.rstrip("\n").split("\n")
            text = "\n".join(lines)
        return text


class Analysis:
    """Line maps of an assembled unit file."""

    def __init__(self, text):
        self.line_clause = {}
        self.fn_ranges = []
        self.vac_lines = {}
        stack = []
        for i, ln in enumerate(text.split("\n"), start=1):
            m = re.search(r"// @cl:(\S+)", ln)
            if m:
                self.line_clause[i] = m.group(1)
            m = re.search(r"// @vac:(\S+)", ln)
            if m:
                self.vac_lines[i] = m.group(1)
            m = re.match(r"\s*// @fn-begin:(\S+)", ln)
            if m:
                stack.append((m.group(1), i))
            m = re.match(r"\s*// @fn-end:(\S+)", ln)
            if m and stack:
                k, s = stack.pop()
                self.fn_ranges.append((s, i, k))
        self.lines = text.split("\n")

    def fn_at(self, line):
        best = None
        for s, e, k in self.fn_ranges:
            if s <= line <= e:
                if best is None or (e - s) < (best[1] - best[0]):
                    best = (s, e, k)
        return best[2] if best else None

    def clauses_at(self, l0, l1):
        out = []
        for ln in range(l0, l1 + 1):
            c = self.line_clause.get(ln)
            if c and c not in out:
                out.append(c)
        return out


def props_from_id(cid):
    """Clause ids start with the property ids they serve: `C04.x`, `C04+C09.x`."""
    m = re.match(r"^(C\d+(?:\+C\d+)*)\.", cid)
    return m.group(1).split("+") if m else []


class Failure:
    def __init__(self, obligation, fn, message, clause_ids, props, rendered, line):
        self.obligation = obligation
        self.fn = fn
        self.message = message
        self.clause_ids = clause_ids
        self.props = props
        self.rendered = rendered
        self.line = line

    def to_json(self):
        return {"obligation": self.obligation, "function": self.fn, "message": self.message,
                "clauses": self.clause_ids, "properties": self.props, "line": self.line,
                "verifier_output": self.rendered}


def classify(unit, analysis, vres):
    """Map verifier diagnostics to failed obligations."""
    fails = []
    for d in vres.diagnostics:
        cids = []
        fn = None
        prim_line = None
        for (l0, l1, primary, label) in d["spans"]:
            # clause tags: only spans that are short (a clause), not whole bodies
            if l1 - l0 <= 60:
                for c in analysis.clauses_at(l0, l1):
                    # a whole-function span would touch every clause; only accept if the span
                    # does not cover a fn-begin line
                    if c not in cids:
                        cids.append(c)
            if primary:
                prim_line = l0
        # pick the function: the one containing the primary span, else any
        for (l0, l1, primary, label) in sorted(d["spans"], key=lambda s: not s[2]):
            f = analysis.fn_at(l0)
            if f:
                fn = f
                break
        # whole-body spans ("at the end of the function body") cover many clause lines: filter to
        # clauses named by a *narrow* span when there is one
        narrow = []
        for (l0, l1, primary, label) in d["spans"]:
            if l1 - l0 <= 12:
                for c in analysis.clauses_at(l0, l1):
                    if c not in narrow:
                        narrow.append(c)
        if narrow:
            cids = narrow
        props = []
        for c in cids:
            cl = unit.clauses.get(c)
            cprops = cl.props if cl else props_from_id(c)
            for p in cprops:
                if p not in props:
                    props.append(p)
        if not cids:
            meta = unit.fn_meta.get(fn or "", {})
            props = list(meta.get("props", [])) or list(unit.default_props)
        src = ""
        if prim_line and 1 <= prim_line <= len(analysis.lines):
            src = analysis.lines[prim_line - 1].strip()
            src = re.sub(r"\s*// @\S+.*$", "", src)
        if cids:
            owned = any(unit.clauses.get(c) is not None and unit.clauses[c].fn == fn for c in cids)
            ob = "+".join(cids) + (f"@{fn}" if fn and not owned else "")
        else:
            ob = f"{fn or '?'}:{d['message']}:{src[:80]}"
        fails.append(Failure(ob, fn, d["message"], cids, props, d["rendered"], prim_line))
    return fails


TRUST_PATTERNS = [
    ("external_body", re.compile(r"#\[verifier::external_body\]")),
    ("assume_specification", re.compile(r"assume_specification")),
    ("assume", re.compile(r"\bassume\s*\(")),
    ("admit", re.compile(r"\badmit\s*\(")),
    ("external_type_specification", re.compile(r"external_type_specification")),
    ("uninterp", re.compile(r"\buninterp\s+spec\s+fn\s+(\w+)")),
    ("axiom", re.compile(r"\b(?:broadcast\s+)?axiom\s+fn\s+(\w+)")),
]


def scan_trusted(text):
    """Mechanical scan of the generated file for everything that is assumed, not proved."""
    out = []
    lines = text.split("\n")
    for i, ln in enumerate(lines):
        code = ln.split("//")[0]
        if "#[verifier::external_body]" in code:
            # name = next fn/struct line
            name = "?"
            for j in range(i, min(i + 8, len(lines))):
                m = re.search(r"\b(?:fn|struct)\s+(\w+)", lines[j])
                if m:
                    name = m.group(1)
                    break
            out.append(f"external_body: {name}")
        m = re.search(r"assume_specification\s*(?:<[^>]*>)?\s*\[\s*([^\]]+)\]", code)
        if m:
            out.append(f"assume_specification: {m.group(1).strip()}")
        if re.search(r"\bassume\s*\(", code):
            out.append(f"assume: line {i+1}: {code.strip()[:100]}")
        if re.search(r"\badmit\s*\(", code):
            out.append(f"admit: line {i+1}")
        m = re.search(r"\buninterp\s+spec\s+fn\s+(\w+)", code)
        if m:
            out.append(f"uninterpreted spec fn: {m.group(1)}")
        m = re.search(r"\baxiom\s+fn\s+(\w+)", code)
        if m:
            out.append(f"axiom: {m.group(1)}")
    # dedupe preserving order
    seen = set()
    res = []
    for x in out:
        if x not in seen:
            seen.add(x)
            res.append(x)
    return res
