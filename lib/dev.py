#!/usr/bin/env python3
"""Development helper: build + verify one unit and print the diagnostics.   lib/dev.py <unit> [--vac] [--full]"""
import os
import sys

sys.path.insert(0, os.path.dirname(os.path.abspath(__file__)))
import runner  # noqa: E402


def record_names():
    """rebuild every unit on the current tree and write lib/names.json (the names the contract text is written against)"""
    import json
    import vxlib
    units = sorted(d for d in os.listdir(os.path.join(vxlib.VERIF, "units")) if os.path.exists(os.path.join(vxlib.VERIF, "units", d, "unit.py")))
    vxlib._NAMES = {}
    for u in units:
        m = runner.load_unit(u)
        try:
            if hasattr(m, "build"):
                m.build(vacuity=False)
            elif hasattr(m, "build_kani"):
                m.build_kani()
        except Exception as e:
            print("skipped", u, str(e)[:100])
    with open(vxlib.NAMES_FILE, "w") as f:
        json.dump(vxlib.RECORDED, f, indent=0, sort_keys=True)
    print("recorded", {k: len(v) for k, v in vxlib.RECORDED.items()})


def main():
    if sys.argv[1] == "--record-names":
        return record_names()
    name = sys.argv[1]
    vac = "--vac" in sys.argv
    full = "--full" in sys.argv
    r = runner.verify_unit(name, vacuity=vac)
    v = r.vres
    print(f"unit {name}: file {r.path} verified={v.verified} errors={v.errors} ok={v.ok} obligations={v.obligations} wall={r.wall_s:.1f}s")
    if v.compile_errors:
        print("COMPILE ERRORS:")
        for d in v.compile_errors[:12]:
            print(d["rendered"] if full else d["rendered"][:1500])
        return 2
    for f in r.fails:
        print("FAIL", f.obligation, "| fn", f.fn, "| props", f.props)
        print(f.rendered if full else f.rendered[:1200])
    for fb in v.functions:
        if fb.get("time", 0) >= 1000:
            print("slow:", fb["function"], fb["time"], "ms")
    return 1 if r.fails else 0


if __name__ == "__main__":
    sys.exit(main())
