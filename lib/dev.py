#!/usr/bin/env python3
"""Development helper: build + verify one unit and print the diagnostics.   lib/dev.py <unit> [--vac] [--full]"""
import os
import sys

sys.path.insert(0, os.path.dirname(os.path.abspath(__file__)))
import runner  # noqa: E402


def main():
    name = sys.argv[1]
    vac = "--vac" in sys.argv
    full = "--full" in sys.argv
    r = runner.verify_unit(name, vacuity=vac)
    v = r.vres
    print(f"unit {name}: file {r.path} verified={v.verified} errors={v.errors} ok={v.ok} obligations={v.obligations} wall={r.wall_s:.1f}s")
    if v.compile_errors:
        print("COMPILE ERRORS:")
        for d in v.compile_errors[:12]:
            print(d["rendered"] if full else d["rendered"][:1500])
        return 2
    for f in r.fails:
        print("FAIL", f.obligation, "| fn", f.fn, "| props", f.props)
        print(f.rendered if full else f.rendered[:1200])
    for fb in v.functions:
        if fb.get("time", 0) >= 1000:
            print("slow:", fb["function"], fb["time"], "ms")
    return 1 if r.fails else 0


if __name__ == "__main__":
    sys.exit(main())
