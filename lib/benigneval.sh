#!/bin/bash
# usage: benigneval.sh <dir with v1.diff v2.diff ..> <property> [more properties...]
# Applies each behaviour-preserving variant to a scratch worktree and runs the quick checks there: rc 0 (still proved) and rc 2
# (out of reach, undecided) are acceptable, rc 1 on a behaviour-preserving change is a false alarm of the check.
set -u
D=$1; shift
EV=${BENWT:-/tmp/scratch/ev}; TAG=${BENTAG:-}
mkdir -p /tmp/scratch
if [ ! -d $EV ]; then git -C /repo worktree add -q --detach $EV HEAD; fi
cd $EV && git checkout -q --detach $(git -C /repo rev-parse HEAD) && git checkout -q -- . && git clean -fdq -e target
for v in $D/v*.diff; do
  git -C $EV apply $v || { echo "VARIANT $(basename $v): does not apply"; continue; }
  for PROP in "$@"; do
    cd /verif
    VERIF_REPO=$EV VERIF_OUT=/tmp/scratch/evout$TAG VERIF_EVIDENCE=/tmp/scratch/evev$TAG ./check $PROP quick > /tmp/scratch/benign${TAG}_$(basename $v)_$PROP.log 2>&1; rc=$?
    echo "VARIANT $(basename $D)/$(basename $v) prop=$PROP rc=$rc $(grep -E '^(VIOLATION|TOOL)' /tmp/scratch/benign${TAG}_$(basename $v)_$PROP.log | head -2 | cut -c1-220 | tr '\n' ' ')"
  done
  git -C $EV checkout -q -- . ; git -C $EV clean -fdq -e target
done
