use vstd::prelude::*;
use std::sync::Arc;
verus! {

pub type VarInt = i32;
pub type Protocol = i32;

#[derive(Clone, Copy, PartialEq, Eq)]
pub struct Uuid { pub v: u128 }
#[derive(Clone, Copy, PartialEq, Eq)]
pub struct SocketAddr { pub ip: u128, pub port: u16 }

pub enum AdapterError { Failed }
pub enum JsonError { Bad }
pub enum Error { Io, Json(JsonError), Adapter(AdapterError), UnexpectedPacketId(VarInt), InvalidVerifyToken }
impl vstd::std_specs::convert::FromSpecImpl<JsonError> for Error { open spec fn obeys_from_spec() -> bool { true } open spec fn from_spec(e: JsonError) -> Error { Error::Json(e) } }
impl From<JsonError> for Error { fn from(e: JsonError) -> (r: Error) { Error::Json(e) } }
impl vstd::std_specs::convert::FromSpecImpl<AdapterError> for Error { open spec fn obeys_from_spec() -> bool { true } open spec fn from_spec(e: AdapterError) -> Error { Error::Adapter(e) } }
impl From<AdapterError> for Error { fn from(e: AdapterError) -> (r: Error) { Error::Adapter(e) } }

pub struct Profile { pub id: Uuid, pub name: String }

pub struct AuthAdapter {}
pub uninterp spec fn auth_oracle(ca: SocketAddr, sa: (Seq<char>, u16), pv: Protocol, user: (Seq<char>, Uuid), ss: Seq<u8>, pk: Seq<u8>) -> Result<Profile, AdapterError>;
impl AuthAdapter {
    #[verifier::external_body]
    pub fn authenticate(&self, client_addr: &SocketAddr, server_addr: (&str, u16), protocol: Protocol, user: (&str, &Uuid), shared_secret: &[u8], encoded_public: &[u8]) -> (r: Result<Profile, AdapterError>)
        ensures r == auth_oracle(*client_addr, (server_addr.0@, server_addr.1), protocol, (user.0@, *user.1), shared_secret@, encoded_public@)
    { unimplemented!() }
}

pub enum Sent { LoginSuccess { name: Seq<char>, id: Uuid }, EncReq { should: bool } }

pub struct LoginSuccessPacket { pub user_name: String, pub user_id: Uuid }
pub struct LoginStart { pub user_name: String, pub user_id: Uuid }

pub struct Conn {
    pub authentication_adapter: Arc<AuthAdapter>,
    pub client_address: SocketAddr,
    pub sent: Ghost<Seq<Sent>>,
    pub key: Ghost<Option<Seq<u8>>>,
}

impl Conn {
    #[verifier::external_body]
    fn send_login_success(&mut self, p: LoginSuccessPacket) -> (r: Result<(), Error>)
        ensures
            final(self).sent@ == old(self).sent@.push(Sent::LoginSuccess { name: p.user_name@, id: p.user_id }),
            final(self).key == old(self).key,
            final(self).client_address == old(self).client_address,
            final(self).authentication_adapter == old(self).authentication_adapter,
    { unimplemented!() }

    #[verifier::external_body]
    fn apply_encryption(&mut self, s: &[u8]) -> (r: Result<(), Error>)
        ensures
            final(self).sent == old(self).sent,
            r is Ok ==> final(self).key@ == Some(s@),
            final(self).client_address == old(self).client_address,
            final(self).authentication_adapter == old(self).authentication_adapter,
    { unimplemented!() }

    fn listen(&mut self, mut login_start: LoginStart, should_authenticate: bool, shared_secret: Vec<u8>, pk: Vec<u8>, host: String, port: u16, pv: i32) -> (r: Result<(), Error>)
        requires old(self).sent@.len() == 0, !should_authenticate ==> false
        ensures
            forall |i: int| 0 <= i < final(self).sent@.len() ==> (#[trigger] final(self).sent@[i] matches Sent::LoginSuccess { name, id } ==>
                exists |ca: SocketAddr, sa: (Seq<char>, u16), pvv: Protocol, user: (Seq<char>, Uuid), ss: Seq<u8>, pkk: Seq<u8>|
                    (#[trigger] auth_oracle(ca, sa, pvv, user, ss, pkk)) matches Ok(p) && p.name@ == name && p.id == id && final(self).key@ == Some(ss))
    {
        if should_authenticate {
            let auth_response = self
                .authentication_adapter
                .authenticate(
                    &self.client_address,
                    (&host, port),
                    pv as Protocol,
                    (&login_start.user_name, &login_start.user_id),
                    &shared_secret,
                    &pk,
                )
                ?;
            login_start.user_name = auth_response.name;
            login_start.user_id = auth_response.id;
        }
        self.apply_encryption(&shared_secret)?;
        self.send_login_success(LoginSuccessPacket {
            user_name: login_start.user_name.clone(),
            user_id: login_start.user_id,
        })
        ?;
        Ok(())
    }
}

}
fn main() {}
