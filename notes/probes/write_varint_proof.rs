use vstd::prelude::*;
verus! {

pub enum Error { Io }

pub struct Writer { pub bytes: Vec<u8> }
impl Writer {
    pub fn write_all(&mut self, buf: &[u8]) -> (r: Result<(), Error>)
        ensures r is Ok, final(self).bytes@ == old(self).bytes@ + buf@
    {
        self.bytes.extend_from_slice(buf);
        Ok(())
    }
}

pub open spec fn enc_nat(n: nat) -> Seq<u8>
    decreases n
{
    if n < 128 { seq![n as u8] }
    else { seq![((n % 128) + 128) as u8] + enc_nat(n / 128) }
}
pub open spec fn unsigned32(v: i32) -> nat { if v >= 0 { v as nat } else { (v + 0x1_0000_0000) as nat } }
pub open spec fn enc_varint(v: i32) -> Seq<u8> { enc_nat(unsigned32(v)) }

proof fn lemma_step(value: i32)
    ensures
        unsigned32(((value >> 7) & (i32::MAX >> 6))) == unsigned32(value) / 128,
        ((value & 0b0111_1111) as u8) as nat == unsigned32(value) % 128,
        (((value & 0b0111_1111) as u8) | 0b1000_0000u8) as nat == unsigned32(value) % 128 + 128,
        ((value >> 7) & (i32::MAX >> 6)) >= 0,
{
    let n = (value >> 7) & (i32::MAX >> 6);
    assert(n >= 0 && (n as u32) == (value as u32) >> 7) by (bit_vector) requires n == (value >> 7) & (i32::MAX >> 6);
    assert(value >= 0 ==> (value as u32) as int == value as int) by (bit_vector);
    assert(value < 0 ==> (value as u32) as int == value as int + 0x1_0000_0000) by (bit_vector);
    assert(n >= 0 ==> (n as u32) as int == n as int) by (bit_vector);
    let u = value as u32;
    assert((u >> 7) == u / 128) by (bit_vector);
    let b = (value & 0b0111_1111) as u8;
    assert(b as u32 == u % 128 && b < 128) by (bit_vector) requires b == (value & 0b0111_1111) as u8, u == value as u32;
    assert(b < 128 ==> (b | 0b1000_0000u8) == b + 128) by (bit_vector);
}

fn write_varint(w: &mut Writer, value: i32) -> (r: Result<(), Error>)
    ensures r is Ok, final(w).bytes@ == old(w).bytes@ + enc_varint(value)
{
        let ghost orig = value;
        let mut value = value;
        let mut buf = [0];
        loop
            invariant_except_break
                old(w).bytes@ + enc_varint(orig) == w.bytes@ + enc_varint(value),
            ensures
                w.bytes@ == old(w).bytes@ + enc_varint(orig),
            decreases unsigned32(value)
        {
            proof { lemma_step(value); reveal_with_fuel(enc_nat, 2); }
            let ghost v0 = value;
            let ghost w0 = w.bytes@;
            buf[0] = (value & 0b0111_1111) as u8;
            value = (value >> 7) & (i32::MAX >> 6);
            if value != 0 {
                buf[0] |= 0b1000_0000;
            }
            w.write_all(&buf)?;
            proof {
                assert(buf@ =~= seq![buf[0]]);
                if unsigned32(v0) < 128 {
                    assert(enc_varint(v0) =~= seq![buf[0]]);
                    assert(value == 0);
                } else {
                    assert(enc_varint(v0) =~= seq![buf[0]] + enc_varint(value));
                }
                assert(w0 + (seq![buf[0]] + enc_varint(value)) =~= (w0 + seq![buf[0]]) + enc_varint(value));
            }

            if value == 0 {
                break;
            }
        }
        Ok(())
}
}
fn main() {}
