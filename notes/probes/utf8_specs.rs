use vstd::prelude::*;
use vstd::utf8::*;
use vstd::string::StringSliceAdditionalSpecFns;
verus! {
fn t(string: &str) {
    let b = string.as_bytes();
    assert(b@ == string.spec_bytes());
    assert(b@ == encode_utf8(string@));
}
fn t3(string: &str) {
    let n = string.len();
    assert(n == string.spec_bytes().len());
}

}
fn main() {}
