use vstd::prelude::*;
use vstd::utf8::*;
use vstd::string::StringSliceAdditionalSpecFns;
verus! {
pub type VarInt = i32;
pub enum Error { Io, InvalidEncoding, IllegalEnumValue { kind: &'static str, value: VarInt } }

// ---- spec ----
pub open spec fn enc_b(u: u32) -> Seq<u8> decreases u via enc_b_dec
{ if u < 128 { seq![u as u8] } else { seq![((u & 0x7f) | 0x80) as u8] + enc_b(u >> 7) } }
#[via_fn] proof fn enc_b_dec(u: u32) { assert(u >= 128 ==> (u >> 7) < u) by (bit_vector); }
pub open spec fn enc_varint(v: i32) -> Seq<u8> { enc_b(v as u32) }
pub open spec fn enc_string(s: Seq<char>) -> Seq<u8> { enc_varint(encode_utf8(s).len() as i32) + encode_utf8(s) }
pub open spec fn be16(x: u16) -> Seq<u8> { seq![(x >> 8) as u8, (x & 0xff) as u8] }

// ---- byte stream model (verified) ----
pub struct Reader { pub data: Vec<u8>, pub pos: usize }
impl Reader {
    pub open spec fn wf(&self) -> bool { self.pos <= self.data.len() }
    pub open spec fn rest(&self) -> Seq<u8> { self.data@.subrange(self.pos as int, self.data.len() as int) }
    pub open spec fn same(&self, o: &Reader) -> bool { self.data == o.data }

    pub fn read_exact(&mut self, buf: &mut Vec<u8>) -> (r: Result<(), Error>)
        requires old(self).wf()
        ensures final(self).wf(), final(self).same(old(self)), final(buf)@.len() == old(buf)@.len(),
            match r {
                Ok(()) => old(self).rest().len() >= old(buf)@.len() && final(self).pos == old(self).pos + old(buf)@.len()
                          && final(buf)@ == old(self).rest().subrange(0, old(buf)@.len() as int),
                Err(_) => old(self).rest().len() < old(buf)@.len(),
            }
    {
        let n = buf.len();
        if self.data.len() - self.pos < n { return Err(Error::Io); }
        let mut k: usize = 0;
        while k < n
            invariant self.wf(), self.same(old(self)), self.pos == old(self).pos, k <= n, n == buf@.len(), self.data.len() - self.pos >= n,
                forall |j: int| 0 <= j < k ==> buf@[j] == self.data@[self.pos + j],
            decreases n - k
        {
            buf.set(k, self.data[self.pos + k]);
            k += 1;
        }
        self.pos = self.pos + n;
        proof { assert(buf@ =~= old(self).rest().subrange(0, n as int)); }
        Ok(())
    }
    #[verifier::external_body]
    pub fn read_varint(&mut self) -> (r: Result<VarInt, Error>)
        requires old(self).wf()
        ensures final(self).wf(), final(self).same(old(self)), final(self).pos >= old(self).pos,
            forall |v: i32, tail: Seq<u8>| old(self).rest() == #[trigger] (enc_varint(v) + tail) ==> r == Ok::<i32, Error>(v) && final(self).rest() == tail,
    { unimplemented!() }
}

#[verifier::external_type_specification]
#[verifier::external_body]
pub struct ExFromUtf8Error(std::string::FromUtf8Error);
pub assume_specification [std::string::String::from_utf8] (v: std::vec::Vec<u8>) -> (r: std::result::Result<std::string::String, std::string::FromUtf8Error>)
    ensures r is Ok <==> valid_utf8(v@), r matches Ok(s) ==> s@ == decode_utf8(v@);

// allocation stand-in carrying the C04 obligation
pub fn alloc_zeroed(length: usize, Ghost(avail): Ghost<nat>) -> (r: Vec<u8>)
    ensures r@.len() == length
{ vec![0; length] }

impl Reader {
    // real body of read_string; `vec![0; length]` routed through alloc_zeroed by the extractor
    fn read_string(&mut self) -> (r: Result<String, Error>)
        requires old(self).wf()
        ensures final(self).wf(), final(self).same(old(self)),
            forall |s: Seq<char>, tail: Seq<u8>| old(self).rest() == #[trigger] (enc_string(s) + tail) && encode_utf8(s).len() <= 0x7fff_ffff ==> (r matches Ok(x) && x@ == s) && final(self).rest() == tail,
    {
        let ghost r0 = self.rest();
        proof {
            assert forall |s: Seq<char>, tail: Seq<u8>| r0 == #[trigger] (enc_string(s) + tail) implies
                r0 == enc_varint(encode_utf8(s).len() as i32) + (encode_utf8(s) + tail) by {
                assert(enc_string(s) + tail =~= enc_varint(encode_utf8(s).len() as i32) + (encode_utf8(s) + tail));
            }
        }
        let length = self.read_varint()? as usize;
        let ghost r1 = self.rest();
        proof {
            assert forall |s: Seq<char>, tail: Seq<u8>| r0 == #[trigger] (enc_string(s) + tail) && encode_utf8(s).len() <= 0x7fff_ffff implies
                length == encode_utf8(s).len() && r1 == encode_utf8(s) + tail by {
                let n = encode_utf8(s).len() as i32;
                assert(enc_string(s) + tail =~= enc_varint(n) + (encode_utf8(s) + tail));
                assert(n >= 0 ==> (n as usize) as int == n as int) by (bit_vector);
            }
        }
        let mut buffer = alloc_zeroed(length, Ghost(self.rest().len()));
        self.read_exact(&mut buffer)?;

        proof {
            assert forall |s: Seq<char>, tail: Seq<u8>| r0 == #[trigger] (enc_string(s) + tail) && encode_utf8(s).len() <= 0x7fff_ffff implies
                buffer@ == encode_utf8(s) && self.rest() == tail && valid_utf8(buffer@) && decode_utf8(buffer@) == s by {
                assert(r1.subrange(0, length as int) =~= encode_utf8(s));
                assert(self.rest() =~= r1.subrange(length as int, r1.len() as int));
                assert(r1.subrange(length as int, r1.len() as int) =~= tail);
                encode_utf8_valid_utf8(s);
                encode_utf8_decode_utf8(s);
            }
        }
        String::from_utf8(buffer).map_err(|_e| Error::InvalidEncoding)
    }
}
}
fn main() {}
