use vstd::prelude::*;
use std::sync::Arc;
verus! {
#[derive(Clone, Copy, PartialEq, Eq, Structural)] pub struct IpAddr { pub bits: u128 }
#[derive(Clone, Copy, PartialEq, Eq, Structural)] pub struct SocketAddr { pub ipaddr: IpAddr, pub portno: u16 }
impl SocketAddr { pub fn ip(&self) -> (r: IpAddr) ensures r == self.ipaddr { self.ipaddr } }
#[derive(Clone, Copy)] pub struct ParseConfig { pub allow_v1: bool, pub allow_v2: bool }
#[derive(Clone, Copy)] pub struct Duration { pub secs: u64 }
pub struct ProxiedAddress { pub source: SocketAddr, pub destination: SocketAddr }
pub struct ProxyHeader { pub addr: Option<ProxiedAddress> }
impl ProxyHeader { pub fn proxied_address(&self) -> (r: Option<&ProxiedAddress>) ensures r == (match self.addr { Some(a) => Some(&a), None => None }) { self.addr.as_ref() } }
pub struct TcpStream {}
pub struct IoError {}
pub struct ProxiedStream { pub header: ProxyHeader, pub shut: Ghost<bool> }
impl ProxiedStream {
    #[verifier::external_body] pub fn create_from_tokio(s: TcpStream, c: ParseConfig) -> Result<ProxiedStream, IoError> { unimplemented!() }
    #[verifier::external_body] pub fn unproxied(s: TcpStream) -> (r: ProxiedStream) ensures r.header.addr is None { unimplemented!() }
    pub fn proxy_header(&self) -> (r: &ProxyHeader) ensures r == &self.header { &self.header }
    #[verifier::external_body] pub fn shutdown(&mut self) -> Result<(), IoError> { unimplemented!() }
}
pub struct RateLimiter { pub calls: Ghost<Seq<IpAddr>> }
impl RateLimiter { #[verifier::external_body] pub fn enqueue(&mut self, key: IpAddr) -> (r: bool) ensures final(self).calls@ == old(self).calls@.push(key) { unimplemented!() } }

pub uninterp spec fn cfg_max_len() -> i32;
pub uninterp spec fn cfg_expiry() -> u64;
pub uninterp spec fn cfg_timeout() -> Duration;
pub enum Error { ConnectionClosed, Other }
impl Error { #[verifier::external_body] pub fn as_label(&self) -> &'static str { unimplemented!() } }
pub struct Elapsed {}
pub struct Connection { pub max_packet_length: i32, pub auth_cookie_expiry: u64, pub auth_secret: Option<Vec<u8>>, pub client_address: SocketAddr }
impl Connection {
    #[verifier::external_body] pub fn new(stream: &mut ProxiedStream) -> (r: Connection) ensures r.max_packet_length == 10_000, r.auth_cookie_expiry == 21600, r.auth_secret is None { unimplemented!() }
    pub fn with_client_address(self, client_address: SocketAddr) -> (r: Self)
        ensures r.client_address == client_address, r.max_packet_length == self.max_packet_length, r.auth_cookie_expiry == self.auth_cookie_expiry, r.auth_secret == self.auth_secret
    { let mut this = self; this.client_address = client_address; this }
    pub fn with_auth_secret(self, auth_secret: Option<Vec<u8>>) -> (r: Self)
        ensures r.auth_secret == auth_secret, r.max_packet_length == self.max_packet_length, r.auth_cookie_expiry == self.auth_cookie_expiry, r.client_address == self.client_address
    { let mut this = self; this.auth_secret = auth_secret; this }
    #[verifier::external_body] pub fn listen(&mut self) -> (r: Result<(), Error>)
        requires old(self).max_packet_length == cfg_max_len(), old(self).auth_cookie_expiry == cfg_expiry(),
    { unimplemented!() }
}
#[verifier::external_body] pub fn timeout<T>(d: Duration, v: T) -> (r: Result<T, Elapsed>) requires d == cfg_timeout() { unimplemented!() }

pub struct Listener {
    pub rate_limiter: Option<RateLimiter>, pub proxy_protocol: Option<ParseConfig>, pub connection_timeout: Duration,
    pub auth_secret: Option<Vec<u8>>, pub max_packet_length: i32, pub auth_cookie_expiry: u64,
}
impl Listener {
    fn handle(&mut self, stream: TcpStream, addr: SocketAddr)
        requires old(self).max_packet_length == cfg_max_len(), old(self).auth_cookie_expiry == cfg_expiry(), old(self).connection_timeout == cfg_timeout(),
    {
        let (mut stream, client_addr) = if let Some(proxy_config) = self.proxy_protocol {
            match ProxiedStream::create_from_tokio(stream, proxy_config) {
                Ok(stream) => {
                    let client_addr = stream
                        .proxy_header()
                        .proxied_address()
                        .map(|address| address.source)
                        .unwrap_or(addr);
                    (stream, client_addr)
                }
                Err(e) => {
                    return;
                }
            }
        } else {
            (ProxiedStream::unproxied(stream), addr)
        };

        if let Some(rate_limiter) = &mut self.rate_limiter {
            if !rate_limiter.enqueue(client_addr.ip())
        {
            if let Err(e) = stream.shutdown() {
            }
            return;
        }}

        let connection_timeout = self.connection_timeout;
        let auth_secret = self.auth_secret.clone();

        {
            let mut connection = Connection::new(
                &mut stream,
            )
            .with_client_address(client_addr)
            .with_auth_secret(auth_secret);

            let timeout = timeout(connection_timeout, connection.listen());
            let connection_result = match timeout {
                Ok(Err(Error::ConnectionClosed)) => "connection-closed",
                Ok(Err(err)) => {
                    err.as_label()
                }
                Ok(_) => "success",
                Err(_) => "timeout",
            };

            if let Err(err) = stream.shutdown() {
            }
        };
    }
}
}
fn main() {}
