use vstd::prelude::*;
verus! {
pub struct IoError {}
pub enum Poll<T> { Ready(T), Pending }
impl<T> Poll<T> {
    pub fn is_ready(&self) -> (r: bool) ensures r == (self is Ready) { match self { Poll::Ready(_) => true, Poll::Pending => false } }
}
pub struct Context {}
pub struct Dec { pub st: Ghost<Seq<u8>> }   // ciphertext bytes absorbed so far
impl Dec {
    #[verifier::external_body]
    pub fn apply_blocks(&mut self, buf: &mut [u8])
        ensures final(self).st@ == old(self).st@ + old(buf)@, final(buf)@.len() == old(buf)@.len()
    { unimplemented!() }
}
pub struct ReadBuf { pub buf: Vec<u8>, pub filled: usize }
impl ReadBuf {
    pub open spec fn wf(&self) -> bool { self.filled <= self.buf@.len() }
    pub fn capacity(&self) -> (r: usize) ensures r == self.buf@.len() { self.buf.len() }
    pub fn remaining(&self) -> (r: usize) requires self.wf() ensures r == self.buf@.len() - self.filled { self.buf.len() - self.filled }
    #[verifier::external_body]
    pub fn filled_mut(&mut self) -> (r: &mut [u8])
        requires old(self).wf()
        ensures r@ == old(self).buf@.subrange(0, old(self).filled as int)
    { unimplemented!() }
}
pub struct Sock { pub src: Ghost<Seq<u8>> }
impl Sock {
    #[verifier::external_body]
    pub fn poll_read(&mut self, cx: &mut Context, buf: &mut ReadBuf) -> (r: Poll<Result<(), IoError>>)
        requires old(buf).wf()
        ensures final(buf).wf(), final(buf).filled >= old(buf).filled, final(buf).buf@.len() == old(buf).buf@.len(),
            !(r matches Poll::Ready(Ok(()))) ==> final(buf).filled == old(buf).filled,
    { unimplemented!() }
}
pub struct CipherStream { pub inner: Sock, pub decryptor: Option<Dec> }
impl CipherStream {
    fn poll_read(&mut self, cx: &mut Context, buf: &mut ReadBuf) -> (r: Poll<Result<(), IoError>>)
        requires old(buf).wf(), old(self).decryptor is Some
    {
        let self_mut = self;

        let Some(dec) = &mut self_mut.decryptor else {
            return self_mut.inner.poll_read(cx, buf);
        };

        // pass to inner
        let cursor = buf.capacity() - buf.remaining();
        let poll_result = self_mut.inner.poll_read(cx, buf);

        // decrypt newly read buffer slice
        if poll_result.is_ready() {
            dec.apply_blocks(&mut buf.filled_mut()[cursor..]);
        }

        poll_result
    }
}
}
fn main() {}
