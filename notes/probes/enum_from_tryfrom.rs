use vstd::prelude::*;
verus! {
pub type VarInt = i32;
pub enum Error { Io, IllegalEnumValue { kind: &'static str, value: VarInt } }
#[derive(Clone, Copy, PartialEq, Eq, Structural)]
pub enum State { Status, Login, Transfer }

pub open spec fn state_ord(s: State) -> VarInt { match s { State::Status => 1, State::Login => 2, State::Transfer => 3 } }

impl vstd::std_specs::convert::FromSpecImpl<State> for VarInt { open spec fn obeys_from_spec() -> bool { true } open spec fn from_spec(s: State) -> VarInt { state_ord(s) } }
impl From<State> for VarInt {
    fn from(state: State) -> Self {
        match state {
            State::Status => 1,
            State::Login => 2,
            State::Transfer => 3,
        }
    }
}

pub open spec fn state_of(v: VarInt) -> Result<State, Error> {
    if v == 1 { Ok(State::Status) } else if v == 2 { Ok(State::Login) } else if v == 3 { Ok(State::Transfer) } else { Err(Error::IllegalEnumValue { kind: "State", value: v }) }
}
impl vstd::std_specs::convert::TryFromSpecImpl<VarInt> for State { open spec fn obeys_try_from_spec() -> bool { true } open spec fn try_from_spec(v: VarInt) -> Result<State, Error> { state_of(v) } }
impl TryFrom<VarInt> for State {
    type Error = Error;

    fn try_from(value: VarInt) -> (r: Result<Self, Self::Error>)
        ensures r matches Ok(s) ==> state_ord(s) == value, r is Err ==> !(1 <= value <= 3)
    {
        match value {
            1 => Ok(State::Status),
            2 => Ok(State::Login),
            3 => Ok(State::Transfer),
            _ => Err(Error::IllegalEnumValue {
                kind: "State",
                value,
            }),
        }
    }
}

fn use_into(s: State) -> (r: VarInt) ensures r == state_ord(s) { s.into() }
fn use_try(v: VarInt) -> (r: Result<State, Error>) ensures r matches Ok(s) ==> state_ord(s) == v {
    let next_state = v.try_into()?;
    Ok(next_state)
}
}
fn main() {}
