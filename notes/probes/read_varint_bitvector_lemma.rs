use vstd::prelude::*;
verus! {
proof fn lemma_or_shift(ans: i32, b: u8, i: u32)
    requires i < 5, b < 128, i == 4 ==> b < 16,
        ans >= 0, (ans as u32) < (1u32 << (7 * i)),
    ensures ({
        let r = ans | ((b as i32) << (7 * i));
        &&& (r as u32) == (ans as u32) + (b as u32) * (1u32 << (7 * i))
    })
{
    assert(i < 5 && b < 128 && (i == 4 ==> b < 16) && ans >= 0 && (ans as u32) < (1u32 << (7 * i)) ==>
        ((ans | ((b as i32) << (7 * i))) as u32) == (ans as u32) + (b as u32) * (1u32 << (7 * i))) by (bit_vector);
}
}
fn main() {}
