use vstd::prelude::*;
verus! {

pub enum Error { Io, IllegalPacketLength, InvalidEncoding }

pub struct Reader { pub data: Vec<u8>, pub pos: usize }

impl Reader {
    pub open spec fn wf(&self) -> bool { self.pos <= self.data.len() }
    pub open spec fn rest(&self) -> Seq<u8> { self.data@.subrange(self.pos as int, self.data.len() as int) }

    pub fn read_exact(&mut self, buf: &mut [u8; 1]) -> (r: Result<(), Error>)
        requires old(self).wf()
        ensures final(self).wf(), final(self).data == old(self).data,
            match r {
                Ok(()) => old(self).rest().len() >= 1 && final(self).pos == old(self).pos + 1 && final(buf)[0] == old(self).rest()[0],
                Err(_) => old(self).rest().len() < 1,
            }
    {
        if self.pos < self.data.len() {
            buf[0] = self.data[self.pos];
            self.pos = self.pos + 1;
            Ok(())
        } else {
            Err(Error::Io)
        }
    }

    fn read_varint(&mut self) -> (r: Result<i32, Error>)
        requires old(self).wf()
        ensures final(self).wf()
    {
        let mut buf = [0];
        let mut ans = 0;
        for i in 0..5
            invariant self.wf()
        {
            self.read_exact(&mut buf)?;
            ans |= (i32::from(buf[0] & 0b0111_1111)) << (7 * i);
            if buf[0] & 0b1000_0000 == 0 {
                break;
            }
        }
        Ok(ans)
    }
}

}
fn main() {}
