use vstd::prelude::*;
use vstd::std_specs::convert::FromSpec;
verus! {
pub assume_specification [<i32 as From<u8>>::from](v: u8) -> (r: i32) ensures r == v as i32;
pub enum Error { Io }
pub struct Reader { pub data: Vec<u8>, pub pos: usize }

// protocol spec over u32 bit patterns (two's complement of the i32)
pub open spec fn enc_b(u: u32) -> Seq<u8>
    decreases u via enc_b_dec
{
    if u < 128 { seq![u as u8] }
    else { seq![((u & 0x7f) | 0x80) as u8] + enc_b(u >> 7) }
}
#[via_fn]
proof fn enc_b_dec(u: u32) { assert(u >= 128 ==> (u >> 7) < u) by (bit_vector); }
pub open spec fn enc_varint(v: i32) -> Seq<u8> { enc_b(v as u32) }

impl Reader {
    pub open spec fn wf(&self) -> bool { self.pos <= self.data.len() }
    pub open spec fn rest(&self) -> Seq<u8> { self.data@.subrange(self.pos as int, self.data.len() as int) }
    pub fn read_exact(&mut self, buf: &mut [u8; 1]) -> (r: Result<(), Error>)
        requires old(self).wf()
        ensures final(self).wf(), final(self).data == old(self).data,
            match r {
                Ok(()) => old(self).rest().len() >= 1 && final(self).pos == old(self).pos + 1 && final(buf)[0] == old(self).rest()[0],
                Err(_) => old(self).rest().len() < 1 && final(self).pos == old(self).pos,
            }
    {
        if self.pos < self.data.len() { buf[0] = self.data[self.pos]; self.pos = self.pos + 1; Ok(()) } else { Err(Error::Io) }
    }
}

proof fn lemma_enc_head(q: u32)
    ensures enc_b(q).len() >= 1,
        q < 128 ==> enc_b(q) =~= seq![q as u8],
        q >= 128 ==> enc_b(q)[0] == ((q & 0x7f) | 0x80) as u8 && enc_b(q).subrange(1, enc_b(q).len() as int) =~= enc_b(q >> 7)
{ reveal_with_fuel(enc_b, 2); }

// one decoding step, all bit-level
proof fn lemma_step(uu: u32, ans: i32, b: u8, i: i32)
    requires 0 <= i < 5,
        (ans as u32) == uu & (((1u32 << ((7 * i) as u32)) - 1) as u32),
        ({ let q = uu >> ((7 * i) as u32); if q < 128 { b == q as u8 } else { b == ((q & 0x7f) | 0x80) as u8 } }),
    ensures ({
        let q = uu >> ((7 * i) as u32);
        let r = ans | (((b & 0b0111_1111) as i32) << ((7 * i) as u32));
        &&& (q < 128 <==> b & 0b1000_0000 == 0)
        &&& (q < 128 ==> (r as u32) == uu)
        &&& (q >= 128 ==> i < 4 && (r as u32) == uu & (((1u32 << ((7 * (i + 1)) as u32)) - 1) as u32) && (q >> 7) == uu >> ((7 * (i + 1)) as u32))
    })
{
    assert(0 <= i < 5 && (ans as u32) == uu & (((1u32 << ((7 * i) as u32)) - 1) as u32)
        && (if (uu >> ((7 * i) as u32)) < 128 { b == (uu >> ((7 * i) as u32)) as u8 } else { b == (((uu >> ((7 * i) as u32)) & 0x7f) | 0x80) as u8 })
        ==> (((uu >> ((7 * i) as u32)) < 128) <==> (b & 0b1000_0000 == 0))
         && (((uu >> ((7 * i) as u32)) < 128) ==> ((ans | (((b & 0b0111_1111) as i32) << ((7 * i) as u32))) as u32) == uu)
         && (((uu >> ((7 * i) as u32)) >= 128) ==> i < 4 && ((ans | (((b & 0b0111_1111) as i32) << ((7 * i) as u32))) as u32) == uu & (((1u32 << ((7 * (i + 1)) as u32)) - 1) as u32) && ((uu >> ((7 * i) as u32)) >> 7) == uu >> ((7 * (i + 1)) as u32))
    ) by (bit_vector);
}
proof fn lemma_inj(a: i32, b: i32) ensures (a as u32) == (b as u32) ==> a == b
{ assert((a as u32) == (b as u32) ==> a == b) by (bit_vector); }
proof fn lemma_zero(uu: u32) ensures uu & (((1u32 << 0) - 1) as u32) == 0, (0i32 as u32) == 0, uu >> 0 == uu
{ assert(uu & (((1u32 << 0) - 1) as u32) == 0) by (bit_vector); assert((0i32 as u32) == 0) by (bit_vector); assert(uu >> 0 == uu) by (bit_vector); }

impl Reader {
    fn read_varint(&mut self, Ghost(v): Ghost<i32>, Ghost(tail): Ghost<Seq<u8>>) -> (r: Result<i32, Error>)
        requires old(self).wf(), old(self).rest() == enc_varint(v) + tail
        ensures final(self).wf(), final(self).data == old(self).data, r == Ok::<i32, Error>(v), final(self).rest() == tail
    {
        let mut buf = [0];
        let mut ans = 0;
        let ghost uu = v as u32;
        proof { lemma_zero(uu); }
        for i in 0..5
            invariant_except_break
                i < 5 ==> (ans as u32) == uu & (((1u32 << ((7 * i) as u32)) - 1) as u32),
                i < 5 ==> self.rest() == enc_b(uu >> ((7 * i) as u32)) + tail,
                i == 5 ==> false,
            invariant
                self.wf(), self.data == old(self).data,
            ensures
                (ans as u32) == uu, self.rest() == tail, self.wf(), self.data == old(self).data,
        {
            let ghost q = uu >> ((7 * i) as u32);
            let ghost rest0 = self.rest();
            proof { lemma_enc_head(q); assert(rest0[0] == enc_b(q)[0]); }
            self.read_exact(&mut buf)?;
            proof {
                lemma_step(uu, ans, buf[0], i);
                assert(self.rest() =~= rest0.subrange(1, rest0.len() as int));
                if q < 128 { assert(rest0.subrange(1, rest0.len() as int) =~= tail); }
                else { assert(rest0.subrange(1, rest0.len() as int) =~= enc_b(q >> 7) + tail); }
            }
            let ghost ans0 = ans;
            ans |= (i32::from(buf[0] & 0b0111_1111)) << (7 * i);
            assert(ans == ans0 | (((buf[0] & 0b0111_1111) as i32) << ((7 * i) as u32)));
            if buf[0] & 0b1000_0000 == 0 {
                break;
            }
        }
        proof { lemma_inj(ans, v); }
        Ok(ans)
    }
}
}
fn main() {}
