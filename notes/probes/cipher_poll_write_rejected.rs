use vstd::prelude::*;
verus! {
pub struct IoError {}
pub assume_specification<T: Clone> [<[T]>::to_vec] (s: &[T]) -> (r: std::vec::Vec<T>) ensures r@ == s@;
pub enum Poll<T> { Ready(T), Pending }
pub struct Context {}

pub struct Enc { pub st: Ghost<Seq<u8>> }   // abstract: all plaintext bytes absorbed so far
pub uninterp spec fn cfb8(key: Seq<u8>, absorbed: Seq<u8>, pt: Seq<u8>) -> Seq<u8>;
impl Enc {
    // abstraction of: for chunk in buf.chunks_mut(1) { enc.encrypt_block_mut(chunk) }
    #[verifier::external_body]
    pub fn apply(&mut self, buf: &mut Vec<u8>)
        ensures final(self).st@ == old(self).st@ + old(buf)@, final(buf)@.len() == old(buf)@.len()
    { unimplemented!() }
}
pub struct Sock { pub out: Ghost<Seq<u8>> }
impl Sock {
    #[verifier::external_body]
    pub fn poll_write(&mut self, cx: &mut Context, buf: &[u8]) -> (r: Poll<Result<usize, IoError>>)
        ensures match r {
            Poll::Ready(Ok(n)) => n <= buf@.len() && final(self).out@ == old(self).out@ + buf@.subrange(0, n as int),
            _ => final(self).out@ == old(self).out@,
        }
    { unimplemented!() }
}
pub struct CipherStream { pub inner: Sock, pub encryptor: Option<Enc> }

impl CipherStream {
    fn poll_write(
        &mut self,
        cx: &mut Context,
        buf: &[u8],
    ) -> (r: Poll<Result<usize, IoError>>)
        requires old(self).encryptor is Some
        ensures
            match r {
                Poll::Ready(Ok(n)) => n <= buf@.len() && final(self).encryptor->Some_0.st@ == old(self).encryptor->Some_0.st@ + buf@.subrange(0, n as int),
                _ => final(self).encryptor->Some_0.st@ == old(self).encryptor->Some_0.st@,
            }
    {
        let self_mut = self;

        // if no encryptor present, use direct
        let Some(enc) = &mut self_mut.encryptor else {
            return self_mut.inner.poll_write(cx, buf);
        };

        // encrypt buffer
        let mut buf = buf.to_vec();
        enc.apply(&mut buf);

        // pass to inner
        self_mut.inner.poll_write(cx, &buf)
    }
}
}
fn main() {}
