use vstd::prelude::*;
use std::sync::Arc;
verus! {

pub type VarInt = i32;
pub type Protocol = i32;
pub type VerifyToken = [u8; 32];

// ---------- external value types ----------
#[derive(Clone, Copy, PartialEq, Eq, Structural)]
pub struct Uuid { pub v: u128 }
impl Uuid {
    #[verifier::external_body] pub fn new_v4() -> Uuid { unimplemented!() }
}
#[derive(Clone, Copy, PartialEq, Eq, Structural)]
pub struct IpAddr { pub v6: bool, pub bits: u128 }
pub uninterp spec fn ip_text(ip: IpAddr) -> Seq<char>;
impl IpAddr {
    #[verifier::external_body]
    pub fn to_string(&self) -> (r: String) ensures r@ == ip_text(*self) { unimplemented!() }
}
#[derive(Clone, Copy, PartialEq, Eq, Structural)]
pub struct SocketAddr { pub ipaddr: IpAddr, pub portno: u16 }
impl SocketAddr {
    pub fn ip(&self) -> (r: IpAddr) ensures r == self.ipaddr { self.ipaddr }
    pub fn port(&self) -> (r: u16) ensures r == self.portno { self.portno }
}

#[derive(Clone, Copy, PartialEq, Eq, Structural)]
pub enum State { Status, Login, Transfer }

// ---------- errors ----------
pub struct JsonError {}
pub struct AdapterError {}
pub struct CryptoError {}
pub enum Error {
    Io, Json(JsonError), CryptographyFailed(CryptoError), MissedKeepAlive, InvalidVerifyToken, NoTargetFound,
    IllegalPacketLength, UnexpectedPacketId(VarInt), Decode, AdapterError(AdapterError),
}
impl vstd::std_specs::convert::FromSpecImpl<JsonError> for Error { open spec fn obeys_from_spec() -> bool { true } open spec fn from_spec(e: JsonError) -> Error { Error::Json(e) } }
impl From<JsonError> for Error { fn from(e: JsonError) -> (r: Error) { Error::Json(e) } }
impl vstd::std_specs::convert::FromSpecImpl<AdapterError> for Error { open spec fn obeys_from_spec() -> bool { true } open spec fn from_spec(e: AdapterError) -> Error { Error::AdapterError(e) } }
impl From<AdapterError> for Error { fn from(e: AdapterError) -> (r: Error) { Error::AdapterError(e) } }
impl vstd::std_specs::convert::FromSpecImpl<CryptoError> for Error { open spec fn obeys_from_spec() -> bool { true } open spec fn from_spec(e: CryptoError) -> Error { Error::CryptographyFailed(e) } }
impl From<CryptoError> for Error { fn from(e: CryptoError) -> (r: Error) { Error::CryptographyFailed(e) } }

// ---------- domain types (extracted struct defs in the real unit) ----------
pub struct ProfileProperty { pub name: String, pub value: String, pub signature: Option<String> }
pub struct Profile { pub id: Uuid, pub name: String, pub properties: Vec<ProfileProperty>, pub profile_actions: Vec<String> }
pub struct Target { pub identifier: String, pub address: SocketAddr }
pub struct ServerStatus {}
pub struct ExtraMap {}
impl Default for ExtraMap { #[verifier::external_body] fn default() -> ExtraMap { unimplemented!() } }
pub struct AuthCookie {
    pub timestamp: u64, pub client_addr: SocketAddr, pub user_name: String, pub user_id: Uuid,
    pub target: Option<String>, pub profile_properties: Vec<ProfileProperty>, pub extra: ExtraMap,
}
pub struct SessionCookie { pub id: Uuid, pub server_address: String, pub server_port: u16, pub trace_id: Option<String> }

pub const AUTH_COOKIE_KEY: &'static str = "passage:authentication";
pub const SESSION_COOKIE_KEY: &'static str = "passage:session";

// ---------- packets ----------
pub trait Packet { const ID: VarInt; }
pub struct Cursor { pub data: Vec<u8> }
pub trait ReadPacket: Packet + Sized {
    fn read_from_buffer(buffer: &mut Cursor) -> Result<Self, Error>;
}
pub mod hand_in {
    use super::*;
    pub struct HandshakePacket { pub protocol_version: VarInt, pub server_address: String, pub server_port: u16, pub next_state: State }
    impl Packet for HandshakePacket { const ID: VarInt = 0x00; }
    impl ReadPacket for HandshakePacket { #[verifier::external_body] fn read_from_buffer(buffer: &mut Cursor) -> Result<Self, Error> { unimplemented!() } }
}
pub mod status_in {
    use super::*;
    pub struct StatusRequestPacket;
    impl Packet for StatusRequestPacket { const ID: VarInt = 0x00; }
    impl ReadPacket for StatusRequestPacket { #[verifier::external_body] fn read_from_buffer(buffer: &mut Cursor) -> Result<Self, Error> { unimplemented!() } }
    pub struct PingPacket { pub payload: u64 }
    impl Packet for PingPacket { const ID: VarInt = 0x01; }
    impl ReadPacket for PingPacket { #[verifier::external_body] fn read_from_buffer(buffer: &mut Cursor) -> Result<Self, Error> { unimplemented!() } }
}
pub mod login_in {
    use super::*;
    pub struct LoginStartPacket { pub user_name: String, pub user_id: Uuid }
    impl Packet for LoginStartPacket { const ID: VarInt = 0x00; }
    impl ReadPacket for LoginStartPacket { #[verifier::external_body] fn read_from_buffer(buffer: &mut Cursor) -> Result<Self, Error> { unimplemented!() } }
    pub struct EncryptionResponsePacket { pub shared_secret: Vec<u8>, pub verify_token: Vec<u8> }
    impl Packet for EncryptionResponsePacket { const ID: VarInt = 0x01; }
    impl ReadPacket for EncryptionResponsePacket { #[verifier::external_body] fn read_from_buffer(buffer: &mut Cursor) -> Result<Self, Error> { unimplemented!() } }
    pub struct LoginAcknowledgedPacket;
    impl Packet for LoginAcknowledgedPacket { const ID: VarInt = 0x03; }
    impl ReadPacket for LoginAcknowledgedPacket { #[verifier::external_body] fn read_from_buffer(buffer: &mut Cursor) -> Result<Self, Error> { unimplemented!() } }
    pub struct CookieResponsePacket { pub key: String, pub payload: Option<Vec<u8>> }
    impl Packet for CookieResponsePacket { const ID: VarInt = 0x04; }
    impl ReadPacket for CookieResponsePacket { #[verifier::external_body] fn read_from_buffer(buffer: &mut Cursor) -> Result<Self, Error> { unimplemented!() } }
    pub uninterp spec fn session_json(b: Seq<u8>) -> Result<Option<SessionCookie>, JsonError>;
    impl CookieResponsePacket {
        #[verifier::external_body]
        pub fn decode_session(&self) -> (r: Result<Option<SessionCookie>, JsonError>)
            ensures self.payload is None ==> r matches Ok(None)
        { unimplemented!() }
    }
}
pub mod conf_in {
    use super::*;
    pub struct ClientInformationPacket { pub locale: String, pub view_distance: i8 }
    impl Packet for ClientInformationPacket { const ID: VarInt = 0x00; }
    impl ReadPacket for ClientInformationPacket { #[verifier::external_body] fn read_from_buffer(buffer: &mut Cursor) -> Result<Self, Error> { unimplemented!() } }
    pub struct CookieResponsePacket;
    impl Packet for CookieResponsePacket { const ID: VarInt = 0x01; }
    impl ReadPacket for CookieResponsePacket { #[verifier::external_body] fn read_from_buffer(buffer: &mut Cursor) -> Result<Self, Error> { unimplemented!() } }
    pub struct PluginMessagePacket;
    impl Packet for PluginMessagePacket { const ID: VarInt = 0x02; }
    impl ReadPacket for PluginMessagePacket { #[verifier::external_body] fn read_from_buffer(buffer: &mut Cursor) -> Result<Self, Error> { unimplemented!() } }
    pub struct KeepAlivePacket { pub id: u64 }
    impl Packet for KeepAlivePacket { const ID: VarInt = 0x04; }
    impl ReadPacket for KeepAlivePacket { #[verifier::external_body] fn read_from_buffer(buffer: &mut Cursor) -> Result<Self, Error> { unimplemented!() } }
    pub struct ResourcePackResponsePacket;
    impl Packet for ResourcePackResponsePacket { const ID: VarInt = 0x06; }
    impl ReadPacket for ResourcePackResponsePacket { #[verifier::external_body] fn read_from_buffer(buffer: &mut Cursor) -> Result<Self, Error> { unimplemented!() } }
}

// clientbound packets + their abstract view
pub enum Sent {
    StatusResponse { body: Seq<char> }, Pong { payload: u64 },
    LoginCookieRequest { key: Seq<char> },
    EncryptionRequest { public_key: Seq<u8>, verify_token: Seq<u8>, should_authenticate: bool },
    LoginSuccess { user_name: Seq<char>, user_id: Uuid },
    KeepAlive { id: u64 }, Disconnect { reason: Seq<char> },
    StoreCookie { key: Seq<char>, payload: Seq<u8> }, Transfer { host: Seq<char>, port: u16 },
}
pub trait WritePacket: Packet { spec fn view_sent(&self) -> Sent; }
pub mod status_out {
    use super::*;
    pub struct StatusResponsePacket { pub body: String }
    impl Packet for StatusResponsePacket { const ID: VarInt = 0x00; }
    impl WritePacket for StatusResponsePacket { open spec fn view_sent(&self) -> Sent { Sent::StatusResponse { body: self.body@ } } }
    pub struct PongPacket { pub payload: u64 }
    impl Packet for PongPacket { const ID: VarInt = 0x01; }
    impl WritePacket for PongPacket { open spec fn view_sent(&self) -> Sent { Sent::Pong { payload: self.payload } } }
}
pub mod login_out {
    use super::*;
    pub struct CookieRequestPacket { pub key: String }
    impl Packet for CookieRequestPacket { const ID: VarInt = 0x05; }
    impl WritePacket for CookieRequestPacket { open spec fn view_sent(&self) -> Sent { Sent::LoginCookieRequest { key: self.key@ } } }
    pub struct EncryptionRequestPacket { pub server_id: String, pub public_key: Vec<u8>, pub verify_token: VerifyToken, pub should_authenticate: bool }
    impl Packet for EncryptionRequestPacket { const ID: VarInt = 0x01; }
    impl WritePacket for EncryptionRequestPacket { open spec fn view_sent(&self) -> Sent { Sent::EncryptionRequest { public_key: self.public_key@, verify_token: self.verify_token@, should_authenticate: self.should_authenticate } } }
    pub struct LoginSuccessPacket { pub user_id: Uuid, pub user_name: String }
    impl Packet for LoginSuccessPacket { const ID: VarInt = 0x02; }
    impl WritePacket for LoginSuccessPacket { open spec fn view_sent(&self) -> Sent { Sent::LoginSuccess { user_name: self.user_name@, user_id: self.user_id } } }
}
pub mod conf_out {
    use super::*;
    pub struct DisconnectPacket { pub reason: String }
    impl Packet for DisconnectPacket { const ID: VarInt = 0x02; }
    impl WritePacket for DisconnectPacket { open spec fn view_sent(&self) -> Sent { Sent::Disconnect { reason: self.reason@ } } }
    pub struct KeepAlivePacket { pub id: u64 }
    impl Packet for KeepAlivePacket { const ID: VarInt = 0x04; }
    impl WritePacket for KeepAlivePacket { open spec fn view_sent(&self) -> Sent { Sent::KeepAlive { id: self.id } } }
    pub struct StoreCookiePacket { pub key: String, pub payload: Vec<u8> }
    impl Packet for StoreCookiePacket { const ID: VarInt = 0x0A; }
    impl WritePacket for StoreCookiePacket { open spec fn view_sent(&self) -> Sent { Sent::StoreCookie { key: self.key@, payload: self.payload@ } } }
    pub struct TransferPacket { pub host: String, pub port: u16 }
    impl Packet for TransferPacket { const ID: VarInt = 0x0B; }
    impl WritePacket for TransferPacket { open spec fn view_sent(&self) -> Sent { Sent::Transfer { host: self.host@, port: self.port } } }
}

// ---------- adapters as oracles ----------
pub type User = (Seq<char>, Uuid);
pub type Srv = (Seq<char>, u16);
pub uninterp spec fn status_oracle(ca: SocketAddr, sa: Srv, pv: Protocol) -> Result<Option<ServerStatus>, AdapterError>;
pub uninterp spec fn discover_oracle() -> Result<Vec<Target>, AdapterError>;
pub uninterp spec fn filter_oracle(ca: SocketAddr, sa: Srv, pv: Protocol, u: User, t: Vec<Target>) -> Result<Vec<Target>, AdapterError>;
pub uninterp spec fn select_oracle(ca: SocketAddr, sa: Srv, pv: Protocol, u: User, t: Vec<Target>) -> Result<Option<Target>, AdapterError>;
pub uninterp spec fn auth_oracle(ca: SocketAddr, sa: Srv, pv: Protocol, u: User, ss: Seq<u8>, pk: Seq<u8>) -> Result<Profile, AdapterError>;
pub uninterp spec fn localize_oracle(locale: Option<Seq<char>>, key: Seq<char>) -> Result<String, AdapterError>;

pub struct Stat {} pub struct Disc {} pub struct Filt {} pub struct Stra {} pub struct Auth {} pub struct Loca {}
impl Stat { #[verifier::external_body] pub fn status(&self, client_addr: &SocketAddr, server_addr: (&String, u16), protocol: Protocol) -> (r: Result<Option<ServerStatus>, AdapterError>)
    ensures r == status_oracle(*client_addr, (server_addr.0@, server_addr.1), protocol) { unimplemented!() } }
impl Disc { #[verifier::external_body] pub fn discover(&self) -> (r: Result<Vec<Target>, AdapterError>) ensures r == discover_oracle() { unimplemented!() } }
impl Filt { #[verifier::external_body] pub fn filter(&self, client_addr: &SocketAddr, server_addr: (&String, u16), protocol: Protocol, user: (&String, &Uuid), targets: Vec<Target>) -> (r: Result<Vec<Target>, AdapterError>)
    ensures r == filter_oracle(*client_addr, (server_addr.0@, server_addr.1), protocol, (user.0@, *user.1), targets) { unimplemented!() } }
impl Stra { #[verifier::external_body] pub fn select(&self, client_addr: &SocketAddr, server_addr: (&String, u16), protocol: Protocol, user: (&String, &Uuid), targets: Vec<Target>) -> (r: Result<Option<Target>, AdapterError>)
    ensures r == select_oracle(*client_addr, (server_addr.0@, server_addr.1), protocol, (user.0@, *user.1), targets) { unimplemented!() } }
impl Auth { #[verifier::external_body] pub fn authenticate(&self, client_addr: &SocketAddr, server_addr: (&String, u16), protocol: Protocol, user: (&String, &Uuid), shared_secret: &Vec<u8>, encoded_public: &Vec<u8>) -> (r: Result<Profile, AdapterError>)
    ensures r == auth_oracle(*client_addr, (server_addr.0@, server_addr.1), protocol, (user.0@, *user.1), shared_secret@, encoded_public@) { unimplemented!() } }
impl Loca { #[verifier::external_body] pub fn localize(&self, locale: Option<&str>, key: &str, params: &[(&'static str, String)]) -> (r: Result<String, AdapterError>)
    ensures r == localize_oracle(match locale { Some(l) => Some(l@), None => None }, key@) { unimplemented!() } }

// ---------- crypto / cookie / json / time ----------
pub uninterp spec fn rsa_decrypt(ct: Seq<u8>) -> Result<Vec<u8>, CryptoError>;
pub uninterp spec fn pub_key() -> Seq<u8>;
pub uninterp spec fn hmac(key: Seq<u8>, msg: Seq<u8>) -> Seq<u8>;
pub uninterp spec fn json_auth(c: AuthCookie) -> Seq<u8>;
pub uninterp spec fn parse_auth(b: Seq<u8>) -> Result<AuthCookie, JsonError>;
pub struct PrivKey {}
pub mod crypto {
    use super::*;
    #[verifier::external_body] pub fn encoded_pub() -> (r: &'static Vec<u8>) ensures r@ == pub_key() { unimplemented!() }
    #[verifier::external_body] pub fn private_key() -> &'static PrivKey { unimplemented!() }
    #[verifier::external_body] pub fn generate_token() -> Result<VerifyToken, CryptoError> { unimplemented!() }
    #[verifier::external_body] pub fn decrypt(key: &PrivKey, value: &Vec<u8>) -> (r: Result<Vec<u8>, CryptoError>) ensures r == rsa_decrypt(value@) { unimplemented!() }
    #[verifier::external_body] pub fn verify_token(expected: VerifyToken, actual: &Vec<u8>) -> (r: bool) ensures r == (expected@ == actual@) { unimplemented!() }
}
#[verifier::external_body] pub fn verify<'a>(signed: &'a Vec<u8>, secret: &Vec<u8>) -> (r: (bool, &'a [u8]))
    ensures r.0 <==> (signed@.len() >= 32 && signed@.subrange(0, 32) == hmac(secret@, signed@.subrange(32, signed@.len() as int))),
        signed@.len() >= 32 ==> r.1@ == signed@.subrange(32, signed@.len() as int)
{ unimplemented!() }
#[verifier::external_body] pub fn sign(message: &Vec<u8>, secret: &Vec<u8>) -> (r: Vec<u8>) ensures r@ == hmac(secret@, message@) + message@ { unimplemented!() }
pub mod serde_json {
    use super::*;
    #[verifier::external_body] pub fn from_slice_auth_cookie(m: &[u8]) -> (r: Result<AuthCookie, JsonError>) ensures r == parse_auth(m@) { unimplemented!() }
    #[verifier::external_body] pub fn to_vec_auth_cookie(c: &AuthCookie) -> (r: Result<Vec<u8>, JsonError>) ensures r matches Ok(v) ==> v@ == json_auth(*c) { unimplemented!() }
    #[verifier::external_body] pub fn to_vec_session_cookie(c: &SessionCookie) -> (r: Result<Vec<u8>, JsonError>) { unimplemented!() }
    #[verifier::external_body] pub fn to_string_status(c: &Option<ServerStatus>) -> (r: Result<String, JsonError>) { unimplemented!() }
}
#[verifier::external_body] pub fn now_secs() -> u64 { unimplemented!() }
#[verifier::external_body] pub fn trace_id_string() -> String { unimplemented!() }
#[verifier::external_body] pub fn select_nondet() -> bool { unimplemented!() }

// ---------- connection model ----------
pub enum Ev { Recv(VarInt), Send(Sent) }
pub struct Connection {
    pub status_adapter: Arc<Stat>, pub discovery_adapter: Arc<Disc>, pub filter_adapter: Arc<Filt>,
    pub strategy_adapter: Arc<Stra>, pub authentication_adapter: Arc<Auth>, pub localization_adapter: Arc<Loca>,
    pub keep_alive_id: Option<u64>, pub auth_secret: Option<Vec<u8>>, pub max_packet_length: VarInt, pub auth_cookie_expiry: u64,
    pub client_address: SocketAddr, pub client_locale: Option<String>,
    pub ev: Ghost<Seq<Ev>>, pub key: Ghost<Option<Seq<u8>>>,
}
pub open spec fn same_cfg(a: &Connection, b: &Connection) -> bool {
    &&& a.auth_secret == b.auth_secret &&& a.max_packet_length == b.max_packet_length &&& a.auth_cookie_expiry == b.auth_cookie_expiry
    &&& a.client_address == b.client_address &&& a.client_locale == b.client_locale
}
pub open spec fn pushed(old_ev: Seq<Ev>, new_ev: Seq<Ev>, e: Ev) -> bool {
    &&& new_ev.len() == old_ev.len() + 1
    &&& new_ev[old_ev.len() as int] == e
    &&& forall |i: int| #![trigger new_ev[i]] #![trigger old_ev[i]] 0 <= i < old_ev.len() ==> new_ev[i] == old_ev[i]
}
pub open spec fn only_ka(old_ev: Seq<Ev>, new_ev: Seq<Ev>) -> bool {
    &&& old_ev.len() <= new_ev.len()
    &&& forall |i: int| #![trigger new_ev[i]] #![trigger old_ev[i]] 0 <= i < old_ev.len() ==> new_ev[i] == old_ev[i]
    &&& forall |i: int| old_ev.len() <= i < new_ev.len() ==> (#[trigger] new_ev[i] is Recv || new_ev[i] matches Ev::Send(Sent::KeepAlive { .. }) || new_ev[i] matches Ev::Send(Sent::Disconnect { .. }))
}

impl Connection {
    #[verifier::external_body]
    pub fn receive_packet(&mut self, keep_alive: bool) -> (r: Result<(VarInt, Cursor), Error>)
        ensures same_cfg(old(self), final(self)), final(self).key == old(self).key,
            !keep_alive ==> (r matches Ok((id, _)) ==> final(self).ev@ == old(self).ev@.push(Ev::Recv(id))) && (r is Err ==> final(self).ev@ == old(self).ev@),
            keep_alive ==> only_ka(old(self).ev@, final(self).ev@),
    { unimplemented!() }
    #[verifier::external_body]
    pub fn send_packet<T: WritePacket>(&mut self, packet: T) -> (r: Result<(), Error>)
        ensures same_cfg(old(self), final(self)), final(self).key == old(self).key, final(self).keep_alive_id == old(self).keep_alive_id,
            r is Ok ==> final(self).ev@ == old(self).ev@.push(Ev::Send(packet.view_sent())),
            r is Ok ==> pushed(old(self).ev@, final(self).ev@, Ev::Send(packet.view_sent())),
            r is Err ==> final(self).ev@ == old(self).ev@,
    { unimplemented!() }
    #[verifier::external_body]
    pub fn handle_keep_alive(&mut self, id: u64)
        ensures same_cfg(old(self), final(self)), final(self).key == old(self).key, final(self).ev == old(self).ev,
    { unimplemented!() }
    #[verifier::external_body]
    pub fn keep_alive_never(&mut self) -> (r: Error)
        ensures same_cfg(old(self), final(self)), final(self).key == old(self).key, only_ka(old(self).ev@, final(self).ev@),
    { unimplemented!() }
    #[verifier::external_body]
    pub fn apply_encryption(&mut self, shared_secret: &Vec<u8>) -> (r: Result<(), Error>)
        ensures same_cfg(old(self), final(self)), final(self).ev == old(self).ev, final(self).keep_alive_id == old(self).keep_alive_id,
            r is Ok ==> final(self).key@ == Some(shared_secret@), r is Err ==> final(self).key == old(self).key,
    { unimplemented!() }
}
pub assume_specification<T> [std::option::Option::<T>::as_deref] (_0: &std::option::Option<T>) -> (r: std::option::Option<&<T as std::ops::Deref>::Target>)
    where T: std::ops::Deref;

} // verus!
