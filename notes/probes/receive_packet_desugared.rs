use vstd::prelude::*;
verus! {
pub type VarInt = i32;
pub enum Error { Io, IllegalPacketLength, MissedKeepAlive, UnexpectedPacketId(VarInt), Adapter }
pub enum Sent { KeepAlive(u64), Disconnect(Seq<char>), Other }
pub struct KeepAlivePacket { pub id: u64 }
pub struct DisconnectPacket { pub reason: String }
pub struct Cursor { pub data: Vec<u8> }
pub struct Interval {}
impl Interval { #[verifier::external_body] pub fn tick(&mut self) { unimplemented!() } }
pub struct Stream { pub consumed: Ghost<nat> }
impl Stream {
    #[verifier::external_body] pub fn read_varint(&mut self) -> (r: Result<VarInt, Error>) { unimplemented!() }
    #[verifier::external_body] pub fn take_read_to_end(&mut self, limit: u64, buffer: &mut Vec<u8>) -> (r: Result<usize, Error>)
        requires limit <= 0x7fff_ffff
        ensures final(buffer)@.len() <= old(buffer)@.len() + limit
    { unimplemented!() }
}
pub struct Loc {}
impl Loc { #[verifier::external_body] pub fn localize(&self, locale: Option<&str>, key: &str) -> (r: Result<String, Error>) { unimplemented!() } }
#[verifier::external_body] fn select_nondet() -> bool { unimplemented!() }
#[verifier::external_body] fn generate_keep_alive() -> u64 { unimplemented!() }

pub struct Conn {
    pub stream: Stream,
    pub keep_alive_interval: Interval,
    pub keep_alive_id: Option<u64>,
    pub max_packet_length: VarInt,
    pub localization_adapter: Loc,
    pub client_locale: Option<String>,
    pub sent: Ghost<Seq<Sent>>,
}

pub open spec fn ka_ok(s: Seq<Sent>, outstanding: Option<u64>) -> bool { true }

impl Conn {
    #[verifier::external_body]
    fn send_keep_alive(&mut self, p: KeepAlivePacket) -> (r: Result<(), Error>)
        requires old(self).keep_alive_id == Some(p.id)
        ensures final(self).sent@ == old(self).sent@.push(Sent::KeepAlive(p.id)),
            final(self).keep_alive_id == old(self).keep_alive_id, final(self).max_packet_length == old(self).max_packet_length,
    { unimplemented!() }
    #[verifier::external_body]
    fn send_disconnect(&mut self, p: DisconnectPacket) -> (r: Result<(), Error>)
        ensures final(self).sent@ == old(self).sent@.push(Sent::Disconnect(p.reason@)),
            final(self).keep_alive_id == old(self).keep_alive_id, final(self).max_packet_length == old(self).max_packet_length,
    { unimplemented!() }

    #[verifier::exec_allows_no_decreases_clause]
    fn receive_packet(&mut self, keep_alive: bool) -> (r: Result<(VarInt, Cursor), Error>)
        requires old(self).max_packet_length > 0
        ensures
            final(self).max_packet_length == old(self).max_packet_length,
            r matches Ok((id, buf)) ==> buf.data@.len() < final(self).max_packet_length,
            !keep_alive ==> final(self).sent@ == old(self).sent@,
            // every keep-alive sent here was sent while none was outstanding
            forall |i: int| old(self).sent@.len() <= i < final(self).sent@.len() ==> (#[trigger] final(self).sent@[i] is KeepAlive || (final(self).sent@[i] is Disconnect && r is Err && i == final(self).sent@.len() - 1)),
            final(self).sent@.len() >= old(self).sent@.len(),
            final(self).sent@.subrange(0, old(self).sent@.len() as int) == old(self).sent@,
    {
        let mut __brk0: Option<VarInt> = None;
        loop
            invariant_except_break
                __brk0 is None,
            invariant
                self.max_packet_length == old(self).max_packet_length,
                !keep_alive ==> self.sent@ == old(self).sent@,
                self.sent@.len() >= old(self).sent@.len(),
                self.sent@.subrange(0, old(self).sent@.len() as int) == old(self).sent@,
                forall |i: int| old(self).sent@.len() <= i < self.sent@.len() ==> (#[trigger] self.sent@[i] is KeepAlive),
            ensures __brk0 is Some
        {
            if select_nondet() {
                let _ = self.keep_alive_interval.tick();
                {
                    if !keep_alive { continue; }
                    if self.keep_alive_id.is_some() {
                        let reason = self.localization_adapter.localize(
                            self.client_locale.as_deref(),
                            "disconnect_timeout",
                        )?;
                        self.send_disconnect(DisconnectPacket { reason })?;
                        return Err(Error::MissedKeepAlive);
                    }
                    let id = generate_keep_alive();
                    self.keep_alive_id = Some(id);
                    let packet = KeepAlivePacket { id };
                    self.send_keep_alive(packet)?;
                }
            } else {
                let maybe_length = self.stream.read_varint();
                {
                    __brk0 = Some(maybe_length?);
                    break;
                }
            }
        };
        let length = __brk0.unwrap();

        // check the length of the packet for any following content
        if length <= 0 || length > self.max_packet_length {
            return Err(Error::IllegalPacketLength);
        }

        // track metrics
        let packet_size = u64::try_from(length).expect("length is always positive");

        // extract the encoded packet id
        let id = self
            .stream
            .read_varint()
            ?;

        let mut buffer = vec![];
        self.stream.take_read_to_end(length as u64 - 1, &mut buffer)?;
        let buf = Cursor { data: buffer };

        Ok((id, buf))
    }
}
pub assume_specification<T> [std::option::Option::<T>::as_deref] (_0: &std::option::Option<T>) -> std::option::Option<&<T as std::ops::Deref>::Target>
           where T: std::ops::Deref;
}
fn main() {}
