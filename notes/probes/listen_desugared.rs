verus! {

pub open spec fn no_grant(ev: Seq<Ev>) -> bool {
    forall |i: int| 0 <= i < ev.len() ==> !(#[trigger] ev[i] matches Ev::Send(Sent::LoginSuccess { .. }))
        && !(ev[i] matches Ev::Send(Sent::StoreCookie { .. })) && !(ev[i] matches Ev::Send(Sent::Transfer { .. }))
}


pub open spec fn justified(user_name: Seq<char>, user_id: Uuid, key: Option<Seq<u8>>, secret0: Option<Vec<u8>>, addr0: SocketAddr) -> bool {
    ||| exists |ca: SocketAddr, sa: Srv, pv: Protocol, u: User, ss: Seq<u8>|
            (#[trigger] auth_oracle(ca, sa, pv, u, ss, pub_key())) matches Ok(p) && p.name@ == user_name && p.id == user_id && key == Some(ss)
    ||| exists |signed: Seq<u8>, k: Seq<u8>| #![trigger hmac(k, signed.subrange(32, signed.len() as int))]
            secret0 matches Some(kk) && kk@ == k && signed.len() >= 32 && signed.subrange(0,32) == hmac(k, signed.subrange(32, signed.len() as int))
            && (parse_auth(signed.subrange(32, signed.len() as int)) matches Ok(c) && c.user_name@ == user_name && c.user_id == user_id
            && c.client_addr.ipaddr == addr0.ipaddr)
}
pub open spec fn c01_holds(ev: Seq<Ev>, key: Option<Seq<u8>>, secret0: Option<Vec<u8>>, addr0: SocketAddr) -> bool {
    forall |i: int| 0 <= i < ev.len() ==> (#[trigger] ev[i] matches Ev::Send(Sent::LoginSuccess { user_name, user_id }) ==> justified(user_name, user_id, key, secret0, addr0))
}

pub open spec fn no_transfer(ev: Seq<Ev>) -> bool {
    forall |i: int| 0 <= i < ev.len() ==> !(#[trigger] ev[i] matches Ev::Send(Sent::Transfer { .. }))
}
pub open spec fn routed(host: Seq<char>, port: u16, user: User) -> bool {
    exists |ca: SocketAddr, sa: Srv, pv: Protocol, t1: Vec<Target>|
        (discover_oracle() matches Ok(t0) && filter_oracle(ca, sa, pv, user, t0) == Ok::<Vec<Target>, AdapterError>(t1))
        && ((#[trigger] select_oracle(ca, sa, pv, user, t1)) matches Ok(Some(t)) && host == ip_text(t.address.ipaddr) && port == t.address.portno)
}
pub open spec fn has_ls(ev: Seq<Ev>, n: Seq<char>, u: Uuid) -> bool {
    exists |j: int| 0 <= j < ev.len() && #[trigger] ev[j] == Ev::Send(Sent::LoginSuccess { user_name: n, user_id: u })
}
pub open spec fn c03_holds(ev: Seq<Ev>, r: Result<(), Error>) -> bool {
    forall |i: int| 0 <= i < ev.len() ==> (#[trigger] ev[i] matches Ev::Send(Sent::Transfer { host, port }) ==> {
        &&& i == ev.len() - 1
        &&& r is Ok
        &&& exists |j: int| 0 <= j < i && (#[trigger] ev[j] matches Ev::Send(Sent::LoginSuccess { user_name, user_id }) && routed(host, port, (user_name, user_id)))
    })
}
impl Connection {
    #[verifier::exec_allows_no_decreases_clause]
    pub fn listen(&mut self) -> (r: Result<(), Error>)
        requires old(self).ev@.len() == 0, old(self).key@ is None, old(self).auth_cookie_expiry < 0x7fff_ffff_ffff_ffff,
        ensures
            c01_holds(final(self).ev@, final(self).key@, old(self).auth_secret, old(self).client_address),
            c03_holds(final(self).ev@, r),
    {
        let handshake = {
            let (id, mut buf) = self.receive_packet(false)?;
            if id == <hand_in::HandshakePacket>::ID {
                let packet = <hand_in::HandshakePacket>::read_from_buffer(&mut buf)?;
                packet
            } else { return Err(Error::UnexpectedPacketId(id)) }
        };

        let variant = match handshake.next_state {
            State::Status => "status",
            State::Login => "login",
            State::Transfer => "transfer",
        };

        if handshake.next_state == State::Status {
            let _ = {
                let (id, mut buf) = self.receive_packet(false)?;
                if id == <status_in::StatusRequestPacket>::ID {
                    let packet = <status_in::StatusRequestPacket>::read_from_buffer(&mut buf)?;
                    packet
                } else { return Err(Error::UnexpectedPacketId(id)) }
            };

            let status = self
                .status_adapter
                .status(
                    &self.client_address,
                    (&handshake.server_address, handshake.server_port),
                    handshake.protocol_version as Protocol,
                )
                ?;

            self.send_packet(status_out::StatusResponsePacket {
                body: serde_json::to_string_status(&status)?,
            })
            ?;

            let ping = {
                let (id, mut buf) = self.receive_packet(false)?;
                if id == <status_in::PingPacket>::ID {
                    let packet = <status_in::PingPacket>::read_from_buffer(&mut buf)?;
                    packet
                } else { return Err(Error::UnexpectedPacketId(id)) }
            };

            self.send_packet(status_out::PongPacket {
                payload: ping.payload,
            })
            ?;

            return Ok(());
        }

        let mut login_start = {
            let (id, mut buf) = self.receive_packet(false)?;
            if id == <login_in::LoginStartPacket>::ID {
                let packet = <login_in::LoginStartPacket>::read_from_buffer(&mut buf)?;
                packet
            } else { return Err(Error::UnexpectedPacketId(id)) }
        };

        self.send_packet(login_out::CookieRequestPacket {
            key: SESSION_COOKIE_KEY.to_string(),
        })
        ?;

        let session_packet = {
            let (id, mut buf) = self.receive_packet(false)?;
            if id == <login_in::CookieResponsePacket>::ID {
                let packet = <login_in::CookieResponsePacket>::read_from_buffer(&mut buf)?;
                packet
            } else { return Err(Error::UnexpectedPacketId(id)) }
        };
        let session_cookie = session_packet.decode_session()?;

        let mut should_authenticate = true;
        let mut profile_properties = vec![];
        // R6: 'transfer block, continuation-nested
        if handshake.next_state == State::Transfer {
            if self.auth_secret.is_none() {
            } else {
                self.send_packet(login_out::CookieRequestPacket {
                    key: AUTH_COOKIE_KEY.to_string(),
                })
                ?;

                let cookie = {
                    let (id, mut buf) = self.receive_packet(false)?;
                    if id == <login_in::CookieResponsePacket>::ID {
                        let packet = <login_in::CookieResponsePacket>::read_from_buffer(&mut buf)?;
                        packet
                    } else { return Err(Error::UnexpectedPacketId(id)) }
                };

                if let Some(signed) = cookie.payload {
                    if let Some(secret) = &self.auth_secret {
                        let (ok, message) = verify(&signed, secret);
                        if !ok {
                        } else {
                            let cookie = serde_json::from_slice_auth_cookie(message)?;
                            let expires_at = cookie.timestamp + self.auth_cookie_expiry;
                            let now = now_secs();

                            if cookie.client_addr.ip() != self.client_address.ip() || expires_at < now {
                            } else {
                                should_authenticate = false;

                                login_start.user_name = cookie.user_name;
                                login_start.user_id = cookie.user_id;
                                profile_properties = cookie.profile_properties;
                            }
                        }
                    } else {
                    }
                } else {
                }
            }
        }

        let verify_token = crypto::generate_token()?;

        self.send_packet(login_out::EncryptionRequestPacket {
            server_id: String::new(),
            public_key: crypto::encoded_pub().clone(),
            verify_token,
            should_authenticate,
        })
        ?;

        let encrypt = {
            let (id, mut buf) = self.receive_packet(false)?;
            if id == <login_in::EncryptionResponsePacket>::ID {
                let packet = <login_in::EncryptionResponsePacket>::read_from_buffer(&mut buf)?;
                packet
            } else { return Err(Error::UnexpectedPacketId(id)) }
        };

        let shared_secret = crypto::decrypt(crypto::private_key(), &encrypt.shared_secret)?;
        let decrypted_verify_token = crypto::decrypt(crypto::private_key(), &encrypt.verify_token)?;

        if !crypto::verify_token(verify_token, &decrypted_verify_token) {
            return Err(Error::InvalidVerifyToken);
        }

        if should_authenticate {
            let auth_response = self
                .authentication_adapter
                .authenticate(
                    &self.client_address,
                    (&handshake.server_address, handshake.server_port),
                    handshake.protocol_version as Protocol,
                    (&login_start.user_name, &login_start.user_id),
                    &shared_secret,
                    crypto::encoded_pub(),
                )
                ?;

            login_start.user_name = auth_response.name;
            login_start.user_id = auth_response.id;
            profile_properties = auth_response.properties;
        }

        self.apply_encryption(&shared_secret)?;

        self.send_packet(login_out::LoginSuccessPacket {
            user_name: login_start.user_name.clone(),
            user_id: login_start.user_id,
        })
        ?;

        let _ = {
            let (id, mut buf) = self.receive_packet(false)?;
            if id == <login_in::LoginAcknowledgedPacket>::ID {
                let packet = <login_in::LoginAcknowledgedPacket>::read_from_buffer(&mut buf)?;
                packet
            } else { return Err(Error::UnexpectedPacketId(id)) }
        };

        proof { let k = self.ev@.len() - 2; assert(self.ev@[k] == Ev::Send(Sent::LoginSuccess { user_name: login_start.user_name@, user_id: login_start.user_id })); }
        let mut __b0: Option<conf_in::ClientInformationPacket> = None;
        loop
            invariant_except_break __b0 is None,
            invariant same_cfg(old(self), self), no_transfer(self.ev@), has_ls(self.ev@, login_start.user_name@, login_start.user_id), c01_holds(self.ev@, self.key@, old(self).auth_secret, old(self).client_address),
            ensures __b0 is Some,
        {
            {
                let (id, mut buf) = self.receive_packet(true)?;
                if id == <conf_in::KeepAlivePacket>::ID {
                    let packet = <conf_in::KeepAlivePacket>::read_from_buffer(&mut buf)?;
                    {
                        self.handle_keep_alive(packet.id);
                        continue;
                    }
                } else if id == <conf_in::ClientInformationPacket>::ID {
                    let packet = <conf_in::ClientInformationPacket>::read_from_buffer(&mut buf)?;
                    { __b0 = Some(packet); break; }
                } else if id == <conf_in::PluginMessagePacket>::ID {
                    let _p = <conf_in::PluginMessagePacket>::read_from_buffer(&mut buf)?;
                    continue
                } else if id == <conf_in::ResourcePackResponsePacket>::ID {
                    let _p = <conf_in::ResourcePackResponsePacket>::read_from_buffer(&mut buf)?;
                    continue
                } else if id == <conf_in::CookieResponsePacket>::ID {
                    let _p = <conf_in::CookieResponsePacket>::read_from_buffer(&mut buf)?;
                    continue
                } else { return Err(Error::UnexpectedPacketId(id)) }
            }
        };
        let client_info = __b0.unwrap();

        let client_address = self.client_address;
        let discovery_adapter = self.discovery_adapter.clone();
        let targets = if select_nondet() {
            let result: Result<Vec<Target>, Error> = Err(self.keep_alive_never());
            result?
        } else {
            let maybe_targets = discovery_adapter.discover();
            maybe_targets?
        };

        let filter_adapter = self.filter_adapter.clone();
        let targets = if select_nondet() {
            let result: Result<Vec<Target>, Error> = Err(self.keep_alive_never());
            result?
        } else {
            let maybe_targets = filter_adapter.filter(
                &client_address,
                (&handshake.server_address, handshake.server_port),
                handshake.protocol_version as Protocol,
                (&login_start.user_name, &login_start.user_id),
                targets,
            );
            maybe_targets?
        };

        let strategy_adapter = self.strategy_adapter.clone();
        let target = if select_nondet() {
            let result: Result<Option<Target>, Error> = Err(self.keep_alive_never());
            result?
        } else {
            let maybe_target = strategy_adapter.select(
                &client_address,
                (&handshake.server_address, handshake.server_port),
                handshake.protocol_version as Protocol,
                (&login_start.user_name, &login_start.user_id),
                targets,
            );
            maybe_target?
        };

        let Some(target) = target else {
            let reason = self
                .localization_adapter
                .localize(self.client_locale.as_deref(), "disconnect_no_target", &[])
                ?;
            self.send_packet(conf_out::DisconnectPacket { reason })
                ?;
            return Err(Error::NoTargetFound);
        };

        // R6: 'auth_cookie block
        if should_authenticate {
            if let Some(secret) = &self.auth_secret {
                let cookie = AuthCookie {
                    client_addr: self.client_address,
                    timestamp: now_secs(),
                    user_name: login_start.user_name.clone(),
                    user_id: login_start.user_id,
                    target: Some(target.identifier.clone()),
                    profile_properties,
                    extra: Default::default(),
                };

                let auth_payload = serde_json::to_vec_auth_cookie(&cookie)?;
                let payload = sign(&auth_payload, secret);
                self.send_packet(conf_out::StoreCookiePacket {
                    key: AUTH_COOKIE_KEY.to_string(),
                    payload,
                })
                ?;
            } else {
            }
        }

        if session_cookie.is_none() {
            let trace_id = trace_id_string();
            self.send_packet(conf_out::StoreCookiePacket {
                key: SESSION_COOKIE_KEY.to_string(),
                payload: serde_json::to_vec_session_cookie(&SessionCookie {
                    id: Uuid::new_v4(),
                    server_address: handshake.server_address.clone(),
                    server_port: handshake.server_port,
                    trace_id: Some(trace_id),
                })?,
            })
            ?;
        }

        let transfer = conf_out::TransferPacket {
            host: target.address.ip().to_string(),
            port: target.address.port(),
        };
        self.send_packet(transfer)?;

        Ok(())
    }
}
}
fn main() {}
