use vstd::prelude::*;
verus! {
pub enum Error { Io, InvalidEncoding }

pub struct Mac { pub key: Ghost<Seq<u8>>, pub msg: Ghost<Seq<u8>> }
pub uninterp spec fn hmac(key: Seq<u8>, msg: Seq<u8>) -> Seq<u8>;
#[verifier::external_body]
pub proof fn axiom_hmac_len(key: Seq<u8>, msg: Seq<u8>) ensures hmac(key,msg).len() == 32 { }
#[derive(Debug)]
pub struct MacErr {}
impl Mac {
    #[verifier::external_body]
    pub fn new_from_slice(secret: &[u8]) -> (r: Result<Mac, MacErr>) ensures r is Ok, r->Ok_0.key@ == secret@, r->Ok_0.msg@ == Seq::<u8>::empty() { unimplemented!() }
    #[verifier::external_body]
    pub fn update(&mut self, m: &[u8]) ensures final(self).key == old(self).key, final(self).msg@ == old(self).msg@ + m@ { unimplemented!() }
    #[verifier::external_body]
    pub fn verify_slice(self, tag: &[u8]) -> (r: Result<(), MacErr>) ensures r is Ok <==> tag@ == hmac(self.key@, self.msg@) { unimplemented!() }
}

pub fn verify<'a>(signed: &'a [u8], secret: &[u8]) -> (r: (bool, &'a [u8]))
    ensures r.0 <==> (signed@.len() >= 32 && signed@.subrange(0,32) == hmac(secret@, signed@.subrange(32, signed@.len() as int))),
            signed@.len() >= 32 ==> r.1@ == signed@.subrange(32, signed@.len() as int)
{
    if signed.len() < 32 {
        return (false, b"");
    }

    let mut mac = Mac::new_from_slice(secret).expect("HMAC can take key of any size!");
    mac.update(&signed[32..]);
    let ok = mac.verify_slice(&signed[..32]).is_ok();
    (ok, &signed[32..])
}

#[verifier::external_type_specification]
#[verifier::external_body]
pub struct ExFromUtf8Error(std::string::FromUtf8Error);
pub uninterp spec fn utf8_enc(s: Seq<char>) -> Seq<u8>;
pub assume_specification [std::string::String::from_utf8] (v: std::vec::Vec<u8>) -> (r: std::result::Result<std::string::String, std::string::FromUtf8Error>)
    ensures r matches Ok(s) ==> utf8_enc(s@) == v@;
fn rd(length: usize) -> (r: Result<String, Error>)
{
    let mut buffer = vec![0; length];
    String::from_utf8(buffer).map_err(|_e| Error::InvalidEncoding)
}

pub struct L { pub rl: Option<u64> }
fn chain(l: &mut L, x: u64) -> bool {
    if let Some(rate) = &mut l.rl {
        if *rate > x
    {
        return true;
    }}
    false
}
}
fn main() {}
