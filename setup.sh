#!/bin/sh
# Offline build of the framework: the extractor and the replay crate (the latter is rebuilt by the
# checks themselves whenever they need a witness; building it here only warms the cache).
set -e
cd "$(dirname "$0")"
export CARGO_NET_OFFLINE=true
(cd vx && cargo build --release --offline)
mkdir -p .cache out evidence
cp /repo/Cargo.lock replay/Cargo.lock 2>/dev/null || true
(cd replay && CARGO_TARGET_DIR=../.cache/replay-target cargo build --release --offline) || echo "warning: replay crate did not build (witness search unavailable)"
